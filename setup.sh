#!/bin/sh
# Builds /verif/.venv offline: Python 3.12 from /venv (repo deps) + z3/cvc5/crosshair/deal from the wheelhouse.
set -e
cd "$(dirname "$0")"
if [ ! -x .venv/bin/python ] || ! .venv/bin/python -c "import z3, cvc5, jsonschema" 2>/dev/null; then
  rm -rf .venv
  /venv/bin/python -m venv .venv
  echo "import site; site.addsitedir('/venv/lib/python3.12/site-packages')" > .venv/lib/python3.12/site-packages/_venv_overlay.pth
  PIP_NO_INDEX=1 .venv/bin/pip install -q --no-index --find-links /opt/veriftools/wheels z3-solver cvc5 crosshair-tool deal icontract jsonschema
fi
.venv/bin/python -c "import z3, cvc5, jsonschema; print('verif venv ok, z3', z3.get_version_string())"
