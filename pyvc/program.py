"""Extraction of the real source: modules, classes, functions, constants.

Everything is re-read from /repo/src on every run (REPO_SRC can be overridden
with PYVC_REPO_SRC for the seeded-fault self test on scratch copies).
"""
import ast
import hashlib
import os

REPO_SRC = os.environ.get('PYVC_REPO_SRC', '/repo/src')


class BindError(Exception):
    '''A contract names something that no longer exists in the source.'''


class Module:
    def __init__(self, name, path):
        self.name = name
        self.path = path
        with open(path, 'r') as f:
            self.source = f.read()
        self.tree = ast.parse(self.source, filename=path)
        self.imports = {}      # local name -> dotted module / 'module:attr'
        self.classes = {}      # name -> ClassInfo
        self.functions = {}    # name -> ast.FunctionDef
        self.assigns = {}      # module-level NAME -> ast expr
        self.star_imports = []  # dotted modules imported with `from m import *`
        self._scan()

    def _scan(self):
        pkg = self.name.rsplit('.', 1)[0] if '.' in self.name else ''
        for node in self.tree.body:
            if isinstance(node, ast.Import):
                for a in node.names:
                    self.imports[a.asname or a.name.split('.')[0]] = ('module', a.name if a.asname else a.name.split('.')[0])
            elif isinstance(node, ast.ImportFrom):
                base = node.module or ''
                if node.level:
                    parts = self.name.split('.')
                    if os.path.basename(self.path) == '__init__.py':
                        parts = parts + ['__init__']     # a package: level 1 is the package itself
                    base_pkg = '.'.join(parts[:len(parts) - node.level])
                    base = (base_pkg + '.' + base) if base else base_pkg
                for a in node.names:
                    if a.name == '*':
                        self.star_imports.append(base)
                        continue
                    self.imports[a.asname or a.name] = ('from', base, a.name)
            elif isinstance(node, ast.ClassDef):
                self.classes[node.name] = ClassInfo(self, node, node.name)
            elif isinstance(node, ast.FunctionDef):
                self.functions[node.name] = node
            elif isinstance(node, ast.Assign) and len(node.targets) == 1 and isinstance(node.targets[0], ast.Name):
                self.assigns[node.targets[0].id] = node.value
            elif isinstance(node, ast.AnnAssign) and isinstance(node.target, ast.Name) and node.value is not None:
                self.assigns[node.target.id] = node.value


class ClassInfo:
    def __init__(self, module, node, qualname):
        self.module = module
        self.node = node
        self.name = node.name
        self.qualname = qualname
        self.bases = [ast.unparse(b) for b in node.bases]
        self.methods = {}
        self.assigns = {}
        self.inner = {}
        self.decorators = {}
        for n in node.body:
            if isinstance(n, ast.FunctionDef):
                self.methods[n.name] = n
            elif isinstance(n, ast.Assign) and len(n.targets) == 1 and isinstance(n.targets[0], ast.Name):
                self.assigns[n.targets[0].id] = n.value
            elif isinstance(n, ast.AnnAssign) and isinstance(n.target, ast.Name):
                self.assigns[n.target.id] = n.value
            elif isinstance(n, ast.ClassDef):
                self.inner[n.name] = ClassInfo(module, n, qualname + '.' + n.name)


class Program:
    def __init__(self, src=None):
        self.src = src or REPO_SRC
        self.modules = {}

    def module(self, name):
        m = self.modules.get(name)
        if m is None:
            rel = name.replace('.', '/')
            for cand in (os.path.join(self.src, rel + '.py'), os.path.join(self.src, rel, '__init__.py')):
                if os.path.exists(cand):
                    m = Module(name, cand)
                    self.modules[name] = m
                    break
            else:
                raise BindError('module %s not found under %s' % (name, self.src))
        return m

    def has_module(self, name):
        try:
            self.module(name)
            return True
        except BindError:
            return False

    def cls(self, modname, clsname):
        m = self.module(modname)
        parts = clsname.split('.')
        c = m.classes.get(parts[0])
        if c is None:
            # re-exported through package __init__ (from .blocks import X)
            imp = m.imports.get(parts[0])
            if imp and imp[0] == 'from':
                return self.cls(imp[1], '.'.join([imp[2]] + parts[1:]))
            for sm in m.star_imports:
                if self.has_module(sm):
                    try:
                        return self.cls(sm, clsname)
                    except BindError:
                        continue
            raise BindError('class %s.%s not found' % (modname, clsname))
        for p in parts[1:]:
            c2 = c.inner.get(p)
            if c2 is None:
                raise BindError('class %s.%s not found' % (modname, clsname))
            c = c2
        return c

    def mro(self, modname, clsname):
        '''Linearised list of repo ClassInfo (external bases are dropped but
        their dotted names are kept in .ext_bases of the result list).'''
        out = []
        ext = []

        def walk(ci):
            if ci in out:
                return
            out.append(ci)
            for b in ci.bases:
                r = self.resolve_class_expr(ci.module, b)
                if r is None:
                    ext.append(b)
                else:
                    walk(r)
        walk(self.cls(modname, clsname))
        return out, ext

    def resolve_class_expr(self, module, dotted):
        parts = dotted.split('.')
        # local class
        if parts[0] in module.classes:
            c = module.classes[parts[0]]
            for p in parts[1:]:
                c = c.inner.get(p)
                if c is None:
                    return None
            return c
        imp = module.imports.get(parts[0])
        if imp is None:
            return None
        try:
            if imp[0] == 'from':
                # from X import name  — name may be a module or a class
                sub = imp[1] + '.' + imp[2] if imp[1] else imp[2]
                if self.has_module(sub):
                    if len(parts) >= 2:
                        return self.cls(sub, '.'.join(parts[1:]))
                    return None
                if self.has_module(imp[1]):
                    return self.cls(imp[1], '.'.join([imp[2]] + parts[1:]))
            else:
                # import a.b.c ; dotted = a.b.c.Class
                for i in range(len(parts) - 1, 0, -1):
                    mod = '.'.join(parts[:i])
                    if self.has_module(mod):
                        return self.cls(mod, '.'.join(parts[i:]))
        except BindError:
            return None
        return None

    def find_method(self, modname, clsname, meth, after=None):
        '''Resolve a method along the MRO.  `after` = ClassInfo after which to
        start (for super()).  Returns (ClassInfo, FunctionDef) or None.'''
        mro, _ext = self.mro(modname, clsname)
        start = 0
        if after is not None:
            start = mro.index(after) + 1
        for ci in mro[start:]:
            if meth in ci.methods:
                return ci, ci.methods[meth]
        return None

    def func_source(self, module, node):
        seg = ast.get_source_segment(module.source, node)
        return seg or ''

    def func_hash(self, module, node):
        return hashlib.sha256(self.func_source(module, node).encode()).hexdigest()[:16]


def const_eval(node, env=None):
    '''Evaluate a constant expression from the source (class constants, enum
    members).  env maps names to already known python constants.'''
    env = env or {}
    if isinstance(node, ast.Constant):
        return node.value
    if isinstance(node, ast.Name):
        if node.id in env:
            return env[node.id]
        if node.id in ('True', 'False', 'None'):
            return {'True': True, 'False': False, 'None': None}[node.id]
        raise ValueError('not constant: ' + node.id)
    if isinstance(node, ast.UnaryOp):
        v = const_eval(node.operand, env)
        if isinstance(node.op, ast.USub):
            return -v
        if isinstance(node.op, ast.Invert):
            return ~v
        if isinstance(node.op, ast.Not):
            return not v
    if isinstance(node, ast.BinOp):
        a = const_eval(node.left, env)
        b = const_eval(node.right, env)
        ops = {ast.Add: lambda: a + b, ast.Sub: lambda: a - b, ast.Mult: lambda: a * b,
               ast.Pow: lambda: a ** b, ast.LShift: lambda: a << b, ast.BitOr: lambda: a | b,
               ast.BitAnd: lambda: a & b, ast.FloorDiv: lambda: a // b, ast.Mod: lambda: a % b,
               ast.Div: lambda: a / b}
        for k, f in ops.items():
            if isinstance(node.op, k):
                return f()
    if isinstance(node, ast.Call) and isinstance(node.func, ast.Name) and node.func.id == 'int' and len(node.args) == 1:
        return int(const_eval(node.args[0], env))
    if isinstance(node, ast.Tuple):
        return tuple(const_eval(e, env) for e in node.elts)
    raise ValueError('not constant: ' + ast.dump(node)[:80])
