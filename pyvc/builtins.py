"""Models of Python builtins, container methods, io.BytesIO and scapy packet
record operations."""
import ast
import z3

from .sym import (V, Py, is_py, NONE, TPy, Unsupported, mk_int, mk_bool, mk_bytes_const, mk_str_const, fresh,
                  fresh_name, truthy, py_len, coerce, concrete_int, eq, class_tag, opt_wrap)
from .types import (TInt, TBool, TNone, TBytes, TStr, TFloat, TRef, TPkt, TOpt, TList, TSet, TDict, TTuple,
                    TAny, TClassT, TFuncT, TUnion)
from .core import PyExc, ExcVal, exc_is_subclass


def dict_ix_fn(t):
    '''position of a key in the key list of a dict (see dict_keys)'''
    from .types import _tname
    return z3.Function('dict_key_ix_' + _tname(t), t.sort(), t.k.sort(), z3.IntSort())


class BuiltinMixin:

    # ------------------------------------------------------------- functions
    def call_builtin(self, name, args, kwargs, node):
        m = getattr(self, 'bi_' + name, None)
        if m is None:
            raise Unsupported('builtin %s' % name)
        return m(args, kwargs, node)

    def bi_iter(self, args, kwargs, node):
        '''iter(<list>): an iterator over a list value is the list plus a position; the position lives in a hidden
        local `_it_<name of the list variable>` so that loop cuts and loop invariants can speak about it.'''
        v = args[0]
        if isinstance(v.t, TList) and node is not None and node.args and isinstance(node.args[0], ast.Name):
            name = '_it_' + node.args[0].id
            self.frame.locals[name] = mk_int(0)
            return Py('listiter', v, name)
        raise Unsupported('iter() of %s' % v.t)

    def bi_next(self, args, kwargs, node):
        if is_py(args[0], 'listiter') and len(args) == 1:
            from . import lists as L
            _k, lst, name = args[0].py
            pos = self.frame.locals[name]
            n = L.l_len(lst.t, lst.z)
            if not self.branch(pos.z < n):
                self.py_raise('StopIteration')
            self.frame.locals[name] = mk_int(pos.z + 1)
            v = V(lst.t.elem, L.l_get(lst.t, lst.z, pos.z))
            self.assume_wf(v)
            return v
        hook = self.spec.callbacks.get('next')
        if hook is not None:
            r = hook(self, args)
            if r is not None:
                return r
        raise Unsupported('next() of %s' % args[0].t)

    def bi_len(self, args, kwargs, node):
        v = args[0]
        if isinstance(v.t, TOpt):
            self.need(z3.Not(v.t.is_none(v.z)), 'TypeError')
            v = V(v.t.inner, v.t.val(v.z))
        if isinstance(v.t, TPkt):
            hook = self.spec.callbacks.get('pkt_len')
            if hook is not None:
                r = hook(self, v)
                if r is not None:
                    return r
            f = z3.Function('pkt_len', z3.IntSort(), z3.IntSort())
            return mk_int(f(v.z))
        if v.t is TNone:
            self.py_raise('TypeError')
        if isinstance(v.t, TAny):
            r = self.any_op('len', [v])
            if r is not None:
                return r
        if isinstance(v.t, (TSet, TDict)):
            if v.z is None:
                return mk_int(0)      # an empty display
            # cardinality of a set / of a dict's key set: an unspecified non-negative number that is 0 exactly for the
            # empty one (all that code comparing len() with 0 needs; anything finer stays unproved, not wrong)
            dom = v.z if isinstance(v.t, TSet) else v.t.dom(v.z)
            empty = v.t.empty() if isinstance(v.t, TSet) else v.t.empty_dom()
            card = z3.Function('card_' + str(abs(hash(dom.sort().name())) % 10 ** 8), dom.sort(), z3.IntSort())
            n = card(dom)
            self.assume(z3.And(n >= 0, (n == 0) == (dom == empty)))
            return mk_int(n)
        return mk_int(py_len(v))

    def _minmax(self, args, is_min, kwargs=None):
        kwargs = kwargs or {}
        if len(args) == 1 and isinstance(args[0].t, (TSet, TDict)) and args[0].z is not None and \
                (args[0].t.elem if isinstance(args[0].t, TSet) else args[0].t.k) is TInt and set(kwargs) <= {'default'}:
            # min / max of a set of numbers (of a dict: of its keys): the default (or ValueError) for an empty one,
            # otherwise a member that bounds all members
            v = args[0]
            dom = v.z if isinstance(v.t, TSet) else v.t.dom(v.z)
            empty = v.t.empty() if isinstance(v.t, TSet) else v.t.empty_dom()
            if self.branch(dom == empty):
                if 'default' in kwargs:
                    return kwargs['default']
                self.py_raise('ValueError')
            r = z3.Int(fresh_name('min' if is_min else 'max'))
            x = z3.Int('mm_x')
            self.assume(z3.Select(dom, r))
            self.assume(z3.ForAll([x], z3.Implies(z3.Select(dom, x), (x >= r) if is_min else (x <= r)),
                                  patterns=[z3.Select(dom, x)]))
            return mk_int(r)
        if len(args) == 1 and isinstance(args[0].t, TList) and args[0].t.elem is TInt:
            # min / max of a list of numbers: ValueError on an empty list; otherwise a member that bounds all members
            from . import lists as L
            lst = args[0]
            n = L.l_len(lst.t, lst.z)
            if not self.spec_mode:
                self.need(n > 0, 'ValueError')
            r = z3.Int(fresh_name('min' if is_min else 'max'))
            k = z3.Int(fresh_name('at'))
            i = z3.Int('mm_i')
            sel = L.l_get(lst.t, lst.z, i)
            self.assume(z3.And(k >= 0, k < n, L.l_get(lst.t, lst.z, k) == r))
            self.assume(z3.ForAll([i], z3.Implies(z3.And(i >= 0, i < n), (sel >= r) if is_min else (sel <= r)),
                                  patterns=[sel]))
            return mk_int(r)
        if len(args) == 1:
            raise Unsupported('min/max of iterable')
        cur = args[0]
        for nxt in args[1:]:
            a, b = cur, nxt
            for x in (a, b):
                if isinstance(x.t, TOpt) or x.t is TNone:
                    if not self.spec_mode:
                        if x.t is TNone:
                            self.py_raise('TypeError')
                        self.need(z3.Not(x.t.is_none(x.z)), 'TypeError')
            if isinstance(a.t, TOpt):
                a = V(a.t.inner, a.t.val(a.z))
            if isinstance(b.t, TOpt):
                b = V(b.t.inner, b.t.val(b.z))
            a, b = self.union_int(a), self.union_int(b)
            x, y = self.as_int(a), self.as_int(b)
            cur = mk_int(z3.If(x <= y, x, y) if is_min else z3.If(x >= y, x, y))
        return cur

    def union_int(self, v):
        '''A union value used as a number: the integer alternative (TypeError otherwise).'''
        if isinstance(v.t, TUnion) and any(n == 'int' for n, _ in v.t.alts):
            self.need(v.t.is_('int', v.z), 'TypeError')
            return V(TInt, v.t.get('int', v.z))
        return v

    def bi_hasattr(self, args, kwargs, node):
        '''hasattr(<external module>, '<name>'): a property of the installation, unknown but fixed
        (one boolean constant per module attribute); other receivers are outside the subset.'''
        from .sym import is_py
        tgt, nm = args[0], args[1]
        if is_py(tgt, 'extmodule') and nm.py is not None and nm.py[0] == 'strlit':
            return mk_bool(z3.Bool('env_has_%s_%s' % (tgt.py[1].replace('.', '_'), nm.py[1])))
        raise Unsupported('hasattr on %s' % (tgt.py,))

    def bi_min(self, args, kwargs, node):
        return self._minmax(args, True, kwargs)

    def bi_max(self, args, kwargs, node):
        return self._minmax(args, False, kwargs)

    def bi_abs(self, args, kwargs, node):
        x = self.as_int(args[0])
        return mk_int(z3.If(x >= 0, x, -x))

    def bi_int(self, args, kwargs, node):
        v = args[0]
        if v.t is TInt:
            return v
        if v.t is TBool:
            return mk_int(z3.If(v.z, 1, 0))
        if v.t is TFloat:
            if v.py and v.py[0] == 'intfloat':
                return mk_int(v.py[1])
            if v.py and v.py[0] == 'floatlit':
                return mk_int(int(v.py[1]))
            return mk_int(z3.Int(fresh_name('int_of_float')))
        if v.t is TStr:
            S = TStr.sort()
            self.need(S.is_of_int(v.z), 'ValueError')
            return mk_int(S.int_val(v.z))
        if isinstance(v.t, TOpt):
            self.need(z3.Not(v.t.is_none(v.z)), 'TypeError')
            return self.bi_int([V(v.t.inner, v.t.val(v.z))], kwargs, node)
        raise Unsupported('int() of %s' % v.t)

    def bi_str(self, args, kwargs, node):
        if not args:
            return mk_str_const('')
        v = args[0]
        if v.t is TStr:
            return v
        if v.t is TInt:
            return V(TStr, TStr.sort().of_int(v.z))
        if isinstance(v.t, TOpt) and v.t.inner in (TInt, TStr):
            if self.spec_mode:
                return self.bi_str([V(v.t.inner, v.t.val(v.z))], kwargs, node)
            if self.branch(v.t.is_none(v.z)):
                return mk_str_const('None')
            return self.bi_str([V(v.t.inner, v.t.val(v.z))], kwargs, node)
        hook = self.spec.callbacks.get('str_of_any')
        if hook is not None:
            if isinstance(v.t, TAny):
                return hook(self, v)
            if isinstance(v.t, TOpt) and isinstance(v.t.inner, TAny):
                if self.spec_mode:
                    return hook(self, V(v.t.inner, v.t.val(v.z)))
                if self.branch(v.t.is_none(v.z)):
                    return mk_str_const('None')
                return hook(self, V(v.t.inner, v.t.val(v.z)))
        return self.opaque_str()

    def bi_repr(self, args, kwargs, node):
        return self.opaque_str()

    def bi_bool(self, args, kwargs, node):
        return mk_bool(truthy(args[0]))

    def bi_bytes(self, args, kwargs, node):
        if not args:
            return mk_bytes_const(b'')
        v = args[0]
        if v.t is TBytes:
            return V(TBytes, v.z)
        if isinstance(v.t, TPkt):
            return self.pkt_bytes(v)
        if v.t is TInt:
            n = v.z
            self.need(n >= 0, 'ValueError')
            r = fresh(TBytes, 'zeros')
            self.assume(z3.Length(r.z) == n)
            return r
        hook = self.spec.callbacks.get('bytes')
        if hook is not None:
            r = hook(self, v)
            if r is not None:
                return r
        raise Unsupported('bytes() of %s' % v.t)

    def bi_bytearray(self, args, kwargs, node):
        return self.bi_bytes(args, kwargs, node)

    def pkt_bytes(self, v):
        '''bytes(pkt): uninterpreted function of the record (trusted base: scapy
        build is a function of the field values).'''
        hook = self.spec.callbacks.get('pkt_bytes')
        if hook is not None:
            r = hook(self, v)
            if r is not None:
                return r
        f = z3.Function('pkt_enc_' + '_'.join(v.t.layers), z3.IntSort(), TBytes.sort())
        return V(TBytes, f(v.z))

    def bi_tuple(self, args, kwargs, node):
        v = args[0]
        if isinstance(v.t, TTuple) or is_py(v, 'pytuple'):
            return v
        if isinstance(v.t, TList):
            return v
        if is_py(v, 'pylist'):
            return Py('pytuple', tuple(v.py[1]))
        hook = self.spec.callbacks.get('tuple')
        if hook is not None:
            r = hook(self, v)
            if r is not None:
                return r
        raise Unsupported('tuple() of %s' % (v.py[0] if v.t is TPy else v.t))

    def bi_list(self, args, kwargs, node):
        if not args:
            return self.mk_list([])
        v = args[0]
        if isinstance(v.t, TList):
            return V(v.t, v.z)
        raise Unsupported('list() of %s' % v.t)

    def bi_set(self, args, kwargs, node):
        if not args:
            return V(TSet(TInt), None, py=('emptyset',))
        raise Unsupported('set() of iterable')

    def bi_dict(self, args, kwargs, node):
        if args:
            raise Unsupported('dict() of iterable')
        if not kwargs:
            return V(TDict(TInt, TInt), None, py=('emptydict',))
        return Py('kwdict', dict(kwargs))

    def bi_isinstance(self, args, kwargs, node):
        v, c = args
        hook = self.spec.callbacks.get('isinstance')
        if hook is not None:
            r = hook(self, v, c)
            if r is not None:
                return r
        classes = self.tuple_items(c) if (is_py(c, 'pytuple')) else [c]
        res = []
        for cl in classes:
            res.append(self.isinstance1(v, cl))
        return mk_bool(z3.Or(*res))

    def isinstance1(self, v, cl):
        if is_py(cl, 'builtin'):
            nm = cl.py[1]
            base = v.t
            if isinstance(base, TOpt):
                inner = self.isinstance1(V(base.inner, base.val(v.z)), cl)
                return z3.And(z3.Not(base.is_none(v.z)), inner)
            table = {'int': (TInt, TBool), 'str': (TStr,), 'bytes': (TBytes,), 'bool': (TBool,), 'bytearray': (),
                     'tuple': (), 'list': (), 'dict': (), 'set': ()}
            if nm in ('tuple',):
                return z3.BoolVal(isinstance(base, TTuple) or is_py(v, 'pytuple'))
            if nm == 'list':
                return z3.BoolVal(isinstance(base, TList))
            if nm == 'dict':
                return z3.BoolVal(isinstance(base, TDict))
            if nm in table:
                return z3.BoolVal(base in table[nm])
            raise Unsupported('isinstance with %s' % nm)
        if is_py(v, 'dynpayload'):
            # payload of a packet whose payload class is dynamic (`_pcls` holds the tag of the payload class)
            owner = v.py[1]
            layer = owner.t.layers[0]
            sc = self.pkt_schema(layer)
            plz = z3.Select(self.heap_arr(('pkt:' + layer, 'payload'), sc.fields['payload']), owner.z)
            tagz = z3.Select(self.heap_arr(('pkt:' + layer, '_pcls'), sc.fields['_pcls']), owner.z)
            if is_py(cl, 'ext') and cl.py[1].endswith('NoPayload'):
                return plz == 0
            if is_py(cl, 'class'):
                ci = cl.py[2]
                leaf = self.spec.schemas.get('pkt:' + ci.qualname)
                if leaf is not None:
                    return z3.And(plz != 0, tagz == class_tag(ci.qualname))
                # a base class: any modelled packet class deriving from it
                tags = []
                for sname, s2 in self.spec.schemas.items():
                    if s2.pkt and s2.pyclass is not None:
                        mro, _e = self.prog.mro(*s2.pyclass)
                        if ci in mro:
                            tags.append(tagz == class_tag(sname[4:]))
                sub = z3.Function('pcls_is_' + ci.qualname, z3.IntSort(), z3.BoolSort())
                # (classes the contracts do not model: unknown, but fixed per class tag)
                return z3.And(plz != 0, z3.Or(*(tags + [sub(tagz)])))
            raise Unsupported('isinstance of a dynamic payload against %s' % (cl.py[1],))
        if is_py(cl, 'class'):
            ci = cl.py[2]
            if is_py(v, 'exc'):
                return z3.BoolVal(exc_is_subclass(v.py[1].cls, self.register_exc_class(ci) or ci.qualname))
            if isinstance(v.t, TPkt):
                names = self.class_and_bases(v.t.layers[0])
                return z3.BoolVal(ci.qualname in names)
            if isinstance(v.t, TRef):
                sc = self.spec.schemas.get(v.t.cls)
                if sc is not None and sc.pyclass is not None:
                    mro, _ = self.prog.mro(*sc.pyclass)
                    return z3.BoolVal(ci in mro)
                return z3.BoolVal(False)
            if isinstance(v.t, TOpt):
                return z3.And(z3.Not(v.t.is_none(v.z)), self.isinstance1(V(v.t.inner, v.t.val(v.z)), cl))
            if is_py(v, 'nopayload'):
                return z3.BoolVal(False)
            return z3.BoolVal(False)
        if is_py(cl, 'ext'):
            hook = self.spec.callbacks.get('isinstance_ext')
            if hook is not None:
                r = hook(self, v, cl.py[1])
                if r is not None:
                    return r
            raise Unsupported('isinstance against external class %s' % cl.py[1])
        raise Unsupported('isinstance class argument')

    def class_and_bases(self, layer):
        sc = self.spec.schemas.get('pkt:' + layer)
        if sc is None or sc.pyclass is None:
            return {layer}
        mro, ext = self.prog.mro(*sc.pyclass)
        return {c.qualname for c in mro}

    def bi_super(self, args, kwargs, node):
        if args:
            cls, selfv = args
            ci = cls.py[2]
        else:
            ci = self.frame.cls
            selfv = self.frame.locals.get('self')
        return Py('super', ci, selfv)

    def bi_type(self, args, kwargs, node):
        v = args[0]
        if isinstance(v.t, TPkt):
            sc = self.pkt_schema(v.t.layers[0])
            ci = self.prog.cls(*sc.pyclass)
            return Py('class', ci.qualname, ci)
        if is_py(v, 'nopayload'):
            return Py('ext', 'scapy.packet.NoPayload')
        hook = self.spec.callbacks.get('type')
        if hook is not None:
            r = hook(self, v)
            if r is not None:
                return r
        raise Unsupported('type() of %s' % v.t)

    def bi_enumerate(self, args, kwargs, node):
        return Py('enumerate', args[0])

    def bi_zip(self, args, kwargs, node):
        '''zip of two lists: the list of pairs, as long as the shorter one'''
        from . import lists as L
        if len(args) != 2 or not all(isinstance(a.t, TList) for a in args):
            raise Unsupported('zip of %s' % [str(a.t) for a in args])
        a, b = args
        tt = TTuple([a.t.elem, b.t.elem])
        lt = TList(tt)
        r = fresh(lt, 'zipped')
        na, nb = L.l_len(a.t, a.z), L.l_len(b.t, b.z)
        i = z3.Int('zp_i')
        sel = L.l_get(lt, r.z, i)
        self.assume(L.canon(lt, r.z))
        self.assume(L.l_len(lt, r.z) == z3.If(na <= nb, na, nb))
        self.assume(z3.ForAll([i], z3.Implies(z3.And(i >= 0, i < L.l_len(lt, r.z)),
                                              sel == tt.mk(L.l_get(a.t, a.z, i), L.l_get(b.t, b.z, i))), patterns=[sel]))
        return r

    def bi_range(self, args, kwargs, node):
        cs = [concrete_int(a.z) for a in args]
        if all(c is not None for c in cs) and len(range(*cs)) <= 8:
            return Py('pytuple', tuple(mk_int(i) for i in range(*cs)))
        return Py('range', args)

    def bi_sorted(self, args, kwargs, node):
        v = args[0] if args else None
        if v is not None and isinstance(v.t, TList) and v.t.elem is TInt:
            # sorted(list of numbers): over-approximated by some list of the same length (which element is where is
            # left open: sound for whatever is proved about the result)
            from . import lists as L
            r = fresh(v.t, 'sorted')
            self.assume_wf(r)
            self.assume(L.l_len(v.t, r.z) == L.l_len(v.t, v.z))
            return r
        raise Unsupported('sorted')

    def bi_open(self, args, kwargs, node):
        hook = self.spec.callbacks.get('open')
        if hook is not None:
            return hook(self, args, kwargs)
        raise Unsupported('open()')

    def bi_print(self, args, kwargs, node):
        return NONE

    def bi_id(self, args, kwargs, node):
        return mk_int(z3.Int(fresh_name('id')))

    def bi_getattr(self, args, kwargs, node):
        if args[1].py and args[1].py[0] == 'strlit':
            try:
                return self.get_attr(args[0], args[1].py[1])
            except PyExc as pe:
                if len(args) > 2 and pe.exc.cls == 'AttributeError':
                    return args[2]
                raise
        raise Unsupported('getattr with symbolic name')

    # --------------------------------------------------- methods of builtins
    def call_method_builtin(self, recv, name, args, kwargs, node):
        t = recv.t
        recv_expr = node.func.value if (node is not None and isinstance(node.func, ast.Attribute)) else None
        if isinstance(t, TList):
            return self.list_method(recv_expr, recv, name, args)
        if isinstance(t, TDict) or recv.py == ('emptydict',):
            return self.dict_method(recv_expr, recv, name, args)
        if isinstance(t, TSet) or recv.py == ('emptyset',):
            return self.set_method(recv_expr, recv, name, args)
        if t is TBytes:
            return self.bytes_method(recv_expr, recv, name, args)
        if t is TStr:
            return self.str_method(recv, name, args)
        if is_py(recv, 'kwdict'):
            d = recv.py[1]
            if name == 'get' and args[0].py and args[0].py[0] == 'strlit':
                return d.get(args[0].py[1], args[1] if len(args) > 1 else NONE)
            if name == 'items':
                return Py('pytuple', tuple(Py('pytuple', (mk_str_const(k), v)) for k, v in d.items()))
            if name == 'keys':
                return Py('pytuple', tuple(mk_str_const(k) for k in d))
            raise Unsupported('dict method %s' % name)
        if is_py(recv, 'pydict'):
            if name == 'get' and args and args[0].t is TInt and concrete_int(args[0].z) is not None:
                for k, v in recv.py[1]:
                    if concrete_int(k.z) == concrete_int(args[0].z):
                        return v
                return args[1] if len(args) > 1 else NONE
            raise Unsupported('dict display method %s' % name)
        if isinstance(t, TRef):
            return self.obj_method_builtin(recv, t.cls, name, args, kwargs)
        if t is TInt and name == 'to_bytes':
            hook = self.spec.callbacks.get('int_method')
            if hook is not None:
                return hook(self, [recv] + list(args), kwargs)
        raise Unsupported('method %s of %s' % (name, t))

    def opaque_list(self, v):
        """Name the result of a list mutation by a fresh constant with its definition
        assumed (length, and elements by a store equation or pointwise): solver triggers
        then see select terms on the new list instead of a beta-reduced lambda."""
        from . import lists as L
        if self.spec_mode:
            return v
        t = v.t
        n = z3.simplify(L.l_len(t, v.z))
        arr = z3.simplify(L.l_arr(t, v.z))
        lz = z3.Const(fresh_name('lst'), t.sort())
        self.assume(L.l_len(t, lz) == n)
        has_lambda = 'lambda' in arr.sexpr()[:20000]
        if not has_lambda:
            self.assume(L.l_arr(t, lz) == arr)
        else:
            i = z3.Int('ol_i')
            sel = L.l_get(t, lz, i)
            self.assume(z3.ForAll([i], sel == z3.simplify(z3.Select(arr, i)), patterns=[sel]))
        return V(t, lz, lval=v.lval, py=v.py)

    def check_not_iterated(self, recv):
        for it, _seq in self.loop_iter_guard:
            if it.lval is not None and recv.lval is not None and it.lval == recv.lval:
                raise Unsupported('container mutated while being iterated')

    def list_method(self, expr, recv, name, args):
        from . import lists as L
        t = recv.t
        n = L.l_len(t, recv.z)
        if name == 'append':
            self.check_not_iterated(recv)
            if recv.py == ('emptylist',):
                t = TList(args[0].t)
                new = V(t, L.l_from_items(t, [args[0].z]), lval=recv.lval)
            else:
                new = self.opaque_list(V(t, L.l_append(t, recv.z, self.key_of(args[0], t.elem).z), lval=recv.lval))
            self.store_back(expr, recv, new)
            return NONE
        if name == 'pop':
            self.check_not_iterated(recv)
            if args:
                idx = args[0].z
                ci = concrete_int(idx)
                if ci is not None and ci < 0:
                    idx = n + ci
                    self.need(n >= -ci, 'IndexError')
                elif self.entails(idx >= 0):
                    self.need(idx < n, 'IndexError')
                else:
                    # a possibly negative position counts from the end (exact Python semantics)
                    idx = z3.If(idx < 0, n + idx, idx)
                    self.need(z3.And(idx >= 0, idx < n), 'IndexError')
            else:
                self.need(n > 0, 'IndexError')
                idx = n - 1
            el = V(t.elem, L.l_get(t, recv.z, idx))
            self.assume_wf(el)
            new = self.opaque_list(V(t, L.l_remove_at(t, recv.z, idx), lval=recv.lval))
            self.assume(L.shift_lemma_remove(t, recv.z, new.z, idx))
            self.store_back(expr, recv, new)
            return el
        if name == 'insert':
            self.check_not_iterated(recv)
            idx = args[0].z
            ci = concrete_int(idx)
            el = coerce(args[1], t.elem) if recv.py != ('emptylist',) else args[1]
            if recv.py == ('emptylist',):
                t = TList(el.t)
                new = V(t, L.l_from_items(t, [el.z]), lval=recv.lval)
            elif ci is not None and ci < 0:
                # insert(-k, x): position max(n-k, 0)
                pos = z3.If(n + ci < 0, 0, n + ci)
                new = self.opaque_list(V(t, L.l_insert_at(t, recv.z, pos, el.z), lval=recv.lval))
            else:
                self.nonneg_or_unsupported(idx, 'insert index')
                pos = z3.If(idx > n, n, idx)
                new = self.opaque_list(V(t, L.l_insert_at(t, recv.z, pos, el.z), lval=recv.lval))
            self.store_back(expr, recv, new)
            return NONE
        if name in ('remove', 'index'):
            if name == 'remove':
                self.check_not_iterated(recv)
            if recv.py == ('emptylist',):
                self.py_raise('ValueError')
            el = self.key_of(args[0], t.elem)
            self.need(L.l_contains(t, recv.z, el.z), 'ValueError')
            # first occurrence
            k = z3.Int(fresh_name('first_ix'))
            j = z3.Int('fi_j')
            sel = L.l_get(t, recv.z, j)
            self.assume(z3.And(k >= 0, k < n, L.l_get(t, recv.z, k) == el.z,
                               L.forall([j], z3.Implies(z3.And(j >= 0, j < k), sel != el.z), patterns=[sel])))
            if name == 'index':
                return mk_int(k)
            new = self.opaque_list(V(t, L.l_remove_at(t, recv.z, k), lval=recv.lval))
            self.assume(L.shift_lemma_remove(t, recv.z, new.z, k))
            self.store_back(expr, recv, new)
            return NONE
        if name == 'clear':
            self.store_back(expr, recv, V(t, L.l_empty(t), lval=recv.lval))
            return NONE
        if name == 'extend':
            new = self.opaque_list(V(t, L.l_concat(t, recv.z, coerce(args[0], t).z), lval=recv.lval))
            self.store_back(expr, recv, new)
            return NONE
        if name == 'copy':
            return V(t, recv.z)
        raise Unsupported('list method %s' % name)

    def dict_method(self, expr, recv, name, args):
        t = recv.t
        if recv.py == ('emptydict',):
            if name == 'get':
                return args[1] if len(args) > 1 else NONE
            if name in ('keys', 'items', 'values'):
                return Py('pytuple', ())
            if name == 'pop':
                if len(args) > 1:
                    return args[1]
                self.py_raise('KeyError')
            raise Unsupported('method %s on empty dict literal' % name)
        dom, mp = t.dom(recv.z), t.map(recv.z)
        if name == 'get':
            try:
                k = self.key_of(args[0], t.k)
            except Unsupported:
                return args[1] if len(args) > 1 else NONE
            dflt = args[1] if len(args) > 1 else NONE
            if self.spec_mode:
                return V(t.v, z3.Select(mp, k.z))
            if self.branch(z3.Select(dom, k.z)):
                v = V(t.v, z3.Select(mp, k.z))
                self.assume_wf(v)
                return v
            return dflt
        if name == 'pop':
            k = self.key_of(args[0], t.k)
            if len(args) > 1:
                if not self.branch(z3.Select(dom, k.z)):
                    return args[1]
            else:
                self.need(z3.Select(dom, k.z), 'KeyError')
            v = V(t.v, z3.Select(mp, k.z))
            self.assume_wf(v)
            new = V(t, t.mk(z3.Store(dom, k.z, False), mp), lval=recv.lval)
            self.store_back(expr, recv, new)
            return v
        if name == 'keys':
            return self.dict_keys(recv)
        if name == 'items':
            ks = self.dict_keys(recv)
            return Py('dictitems', ks, recv)
        if name == 'values':
            # the values in key order: vals[i] is the value under the i-th key
            from . import lists as L
            ks = self.dict_keys(recv)
            lt = TList(t.v)
            vals = fresh(lt, 'values')
            i = z3.Int('dv_i')
            sel = L.l_get(lt, vals.z, i)
            self.assume(L.canon(lt, vals.z))
            self.assume(L.l_len(lt, vals.z) == L.l_len(ks.t, ks.z))
            self.assume(z3.ForAll([i], z3.Implies(z3.And(i >= 0, i < L.l_len(lt, vals.z)),
                                                  sel == z3.Select(mp, L.l_get(ks.t, ks.z, i))), patterns=[sel]))
            return vals
        if name == 'clear':
            self.store_back(expr, recv, V(t, t.mk(t.empty_dom(), mp), lval=recv.lval))
            return NONE
        if name == 'setdefault':
            k = self.key_of(args[0], t.k)
            if self.branch(z3.Select(dom, k.z)):
                return V(t.v, z3.Select(mp, k.z))
            v = coerce(args[1], t.v)
            new = V(t, t.mk(z3.Store(dom, k.z, True), z3.Store(mp, k.z, v.z)), lval=recv.lval)
            self.store_back(expr, recv, new)
            return v
        raise Unsupported('dict method %s' % name)

    def dict_keys(self, d):
        '''Key list of a dict: a duplicate-free sequence whose element set is
        exactly the domain (iteration order is left unspecified).'''
        t = d.t
        lt = TList(t.k)
        f = z3.Function('dict_keys_' + str(abs(hash(t.key)) % 10 ** 8), t.sort(), lt.sort())
        ks = f(d.z)
        key = ('dk', ks.get_id())
        if key not in self.wf_seen:
            self.wf_seen.add(key)
            from . import lists as L
            k = z3.Const('dk_k', t.k.sort())
            i = z3.Int('dk_i')
            j = z3.Int('dk_j')
            self.assume(L.canon(lt, ks))
            ai, aj = L.l_get(lt, ks, i), L.l_get(lt, ks, j)
            # every listed key is in the domain; every key of the domain is listed (index function); no duplicates
            ix = dict_ix_fn(t)
            self.assume(L.forall([i], z3.Implies(z3.And(0 <= i, i < L.l_len(lt, ks)), z3.Select(t.dom(d.z), ai)), patterns=[ai]))
            self.assume(z3.ForAll([k], z3.Implies(z3.Select(t.dom(d.z), k),
                                                  z3.And(0 <= ix(d.z, k), ix(d.z, k) < L.l_len(lt, ks),
                                                         L.l_get(lt, ks, ix(d.z, k)) == k)),
                                  patterns=[z3.Select(t.dom(d.z), k)]))
            self.assume(L.forall([i, j], z3.Implies(z3.And(0 <= i, i < j, j < L.l_len(lt, ks)), ai != aj),
                                 multi=[(ai, aj)]))
        return V(lt, ks)

    def set_method(self, expr, recv, name, args):
        t = recv.t
        if recv.py == ('emptyset',):
            if name == 'add':
                t = TSet(args[0].t)
                recv = V(t, t.empty(), lval=recv.lval)
            else:
                raise Unsupported('method %s on empty set()' % name)
        el = self.key_of(args[0], t.elem) if args else None
        if name == 'add':
            self.store_back(expr, recv, V(t, z3.Store(recv.z, el.z, True), lval=recv.lval))
            return NONE
        if name == 'remove':
            self.need(z3.Select(recv.z, el.z), 'KeyError')
            self.store_back(expr, recv, V(t, z3.Store(recv.z, el.z, False), lval=recv.lval))
            return NONE
        if name == 'discard':
            self.store_back(expr, recv, V(t, z3.Store(recv.z, el.z, False), lval=recv.lval))
            return NONE
        if name == 'clear':
            self.store_back(expr, recv, V(t, t.empty(), lval=recv.lval))
            return NONE
        raise Unsupported('set method %s' % name)

    def bytes_method(self, expr, recv, name, args):
        if name == 'join':
            src = args[0]
            if isinstance(src.t, TList) and src.t.elem is TBytes:
                hook = self.spec.callbacks.get('bytes_join')
                if hook is not None:
                    return hook(self, recv, src)
            if src.py and src.py[0] == 'bytes_of_ints':
                return src.py[1]
            raise Unsupported('bytes.join')
        if name == 'hex':
            return self.opaque_str()
        if name == 'decode':
            return self.opaque_str()
        raise Unsupported('bytes method %s' % name)

    def str_method(self, recv, name, args):
        if name == 'format' and recv.py and recv.py[0] == 'strlit' and len(args) == 1 and args[0].t is TInt and \
                (recv.py[1].count('{0}') + recv.py[1].count('{}')) == 1 and recv.py[1].count('{') == 1:
            # a literal template with one placeholder filled with an integer: a function of the integer, and an injective
            # one (the decimal representations of different integers differ) -- all the contracts need of it
            import hashlib
            tag = hashlib.sha1(recv.py[1].encode()).hexdigest()[:10]
            f = z3.Function('fmt_' + tag, z3.IntSort(), TStr.sort())
            if ('fmt', tag) not in self.wf_seen:
                self.wf_seen.add(('fmt', tag))
                x, y = z3.Ints('fmt_x fmt_y')
                self.assume(z3.ForAll([x, y], z3.Implies(f(x) == f(y), x == y), patterns=[z3.MultiPattern(f(x), f(y))]))
            return V(TStr, f(args[0].z))
        if name in ('format', 'lower', 'upper', 'strip', 'join', 'encode'):
            if name == 'encode':
                return fresh(TBytes, 'enc')
            return self.opaque_str()
        if name == 'startswith':
            return mk_bool(z3.Bool(fresh_name('startswith')))
        raise Unsupported('str method %s' % name)

    # ------------------------------------------------------------ io.BytesIO
    def obj_method_builtin(self, recv, schema, name, args, kwargs):
        if schema == 'BytesIO':
            return self.bytesio_method(recv, name, args)
        hook = self.spec.callbacks.get('objmethod')
        if hook is not None:
            r = hook(self, recv, schema, name, args, kwargs)
            if r is not None:
                return r
        raise Unsupported('method %s of %s' % (name, schema))

    def bytesio_method(self, recv, name, args):
        ck = ('BytesIO', 'content')
        pk = ('BytesIO', 'pos')
        content = self.read_heap(recv, ck, TBytes)
        pos = self.read_heap(recv, pk, TInt)
        n = z3.Length(content.z)
        # assumption (listed in evidence): no in-memory buffer holds 2^62 octets or more
        self.assume(n < 2 ** 62)
        if name == 'tell':
            return pos
        if name == 'seek':
            off = args[0]
            whence = concrete_int(args[1].z) if len(args) > 1 else 0
            if whence == 0:
                self.need(off.z >= 0, 'ValueError')
                newpos = off.z
            elif whence == 2:
                newpos = z3.If(n + off.z < 0, 0, n + off.z)
            elif whence == 1:
                newpos = z3.If(pos.z + off.z < 0, 0, pos.z + off.z)
            else:
                raise Unsupported('seek whence')
            self.write_heap(recv, pk, TInt, mk_int(newpos))
            return mk_int(newpos)
        if name == 'read':
            p = pos.z
            if args and args[0].t is not TNone:
                sz = args[0]
                if isinstance(sz.t, TOpt):
                    raise Unsupported('read(optional size)')
                k = z3.If(sz.z < 0, n, sz.z)
            else:
                k = n
            # read from pos at most k octets; beyond the end yields b''
            avail = z3.If(p >= n, 0, n - p)
            cnt = z3.If(k < avail, k, avail)
            data = V(TBytes, z3.simplify(z3.Extract(content.z, p, cnt)))
            self.write_heap(recv, pk, TInt, mk_int(p + cnt))
            return data
        if name == 'write':
            data = args[0]
            if isinstance(data.t, TOpt):
                self.need(z3.Not(data.t.is_none(data.z)), 'TypeError')
                data = V(data.t.inner, data.t.val(data.z))
            if data.t is not TBytes:
                self.py_raise('TypeError')
            p = pos.z
            m = z3.Length(data.z)
            # pos beyond end pads with zeros (not needed by the code: require pos <= len)
            if not self.entails(p <= n):
                raise Unsupported('BytesIO.write beyond end of content')
            new = z3.Concat(z3.Extract(content.z, 0, p), data.z, z3.Extract(content.z, p + m, n - p - m))
            self.write_heap(recv, ck, TBytes, V(TBytes, z3.simplify(new)))
            self.write_heap(recv, pk, TInt, mk_int(p + m))
            return mk_int(m)
        if name == 'peek':
            # BufferedReader.peek(n): buffered octets from the current position without advancing (how many is
            # unspecified; on an in-memory source: everything that is left)
            p = pos.z
            avail = z3.If(p >= n, 0, n - p)
            return V(TBytes, z3.simplify(z3.Extract(content.z, p, avail)))
        if name == 'getvalue':
            return content
        if name == 'close':
            return NONE
        raise Unsupported('BytesIO.%s' % name)

    # -------------------------------------------------------- scapy packets
    def call_pkt_method(self, pkt, name, args, kwargs, node):
        if name == 'getfieldval':
            fn = args[0].py[1] if args[0].py and args[0].py[0] == 'strlit' else None
            if fn is None:
                raise Unsupported('getfieldval with symbolic name')
            return self.pkt_attr(pkt, fn)
        if name == 'setfieldval':
            fn = args[0].py[1]
            self.set_attr(pkt, fn, args[1])
            return NONE
        if name == 'delfieldval':
            # scapy: the explicitly set value is dropped, the field reads as its declared default again
            fn = args[0].py[1] if args[0].py and args[0].py[0] == 'strlit' else None
            if fn is None:
                raise Unsupported('delfieldval with symbolic name')
            for i, layer in enumerate(pkt.t.layers):
                sc = self.pkt_schema(layer)
                if fn in sc.fields:
                    ci = self.prog.cls(*sc.pyclass)
                    for dn, default, owner in self.pkt_defaults(ci):
                        if dn == fn:
                            ref = self.pkt_layer_ref(pkt, i)
                            self.write_heap(ref, ('pkt:' + layer, fn), sc.fields[fn],
                                            self.pkt_default_value(owner, fn, default, sc.fields[fn]))
                            return NONE
            raise Unsupported('delfieldval of unknown field %s' % fn)
        if name == 'remove_payload':
            last = self.pkt_layer_ref(pkt, 0)
            layer = pkt.t.layers[0]
            sc = self.pkt_schema(layer)
            self.write_heap(last, ('pkt:' + layer, 'payload'), sc.fields['payload'], mk_int(0))
            if '_pcls' in sc.fields:
                self.write_heap(last, ('pkt:' + layer, '_pcls'), sc.fields['_pcls'], mk_int(0))
            return NONE
        if name == 'copy':
            return self.pkt_copy(pkt)
        if name == 'guess_payload_class':
            hook = self.spec.callbacks.get('guess_payload_class')
            if hook is not None:
                return hook(self, pkt)
            if len(pkt.t.layers) >= 2:
                sc = self.pkt_schema(pkt.t.layers[1])
                if sc.pyclass is None and sc.extclass:
                    return Py('ext', sc.extclass)
                ci = self.prog.cls(*sc.pyclass)
                return Py('class', ci.qualname, ci)
            raise Unsupported('guess_payload_class of a packet without payload layer')
        hook = self.spec.callbacks.get('pktmethod')
        if hook is not None:
            r = hook(self, pkt, name, args, kwargs)
            if r is not None:
                return r
        raise Unsupported('packet method %s' % name)

    # ---------------------------------------------------------------- externs
    def call_extern(self, fv, args, kwargs, node):
        kind = fv.py[0]
        if kind == 'ext':
            name = fv.py[1]
            m = self.spec.externs.get(name)
            if m is not None:
                return m(self, args, kwargs)
            if name in ('dbus.String', 'dbus.ObjectPath'):
                return args[0] if args else mk_str_const('')
            if name.endswith('.__init__') and (name.split('.')[0] in ('Exception', 'RuntimeError', 'ValueError', 'KeyError')
                                               or name.startswith('dbus.service.Object')):
                return NONE
            raise Unsupported('external function %s' % name)
        if kind == 'anyattr':
            base, attr = fv.py[1], fv.py[2]
            m = self.spec.externs.get('%s.%s' % (base.t.name, attr))
            if m is not None:
                return m(self, [base] + args, kwargs)
            raise Unsupported('external method %s.%s' % (base.t.name, attr))
        if kind == 'extmethod':
            base, attr = fv.py[1], fv.py[2]
            m = self.spec.externs.get('self.%s' % attr)
            if m is not None:
                return m(self, [base] + args, kwargs)
            raise Unsupported('external base-class method %s' % attr)
        raise Unsupported('external call %r' % (fv.py,))

    def any_item(self, base, idx):
        m = self.spec.externs.get('%s.__getitem__' % base.t.name)
        if m is not None:
            return m(self, [base, idx], {})
        raise Unsupported('subscript of external %s' % base.t.name)

    def any_setitem(self, base, idx, val):
        raise Unsupported('item store on external %s' % base.t.name)
