"""The verifier proper: specification evaluation, write sets, and verification
of one function (unit) against its contract, path by path."""
import ast
import time
import traceback
import z3

from .sym import (V, Py, is_py, NONE, TPy, Unsupported, mk_int, mk_bool, fresh, fresh_name, truthy, coerce,
                  concrete_int, reset_fresh, ite, opt_wrap, seq_slice, py_len)
from .types import (TInt, TBool, TNone, TBytes, TStr, TRef, TPkt, TOpt, TList, TSet, TDict, TTuple, TAny,
                    TUnion, parse_type, NAMED)
from .core import CoreMixin, PyExc, ExcVal, PathEnd, ReturnEx, BreakEx, ContinueEx, exc_is_subclass, State
from .expr import ExprMixin
from .stmt import StmtMixin
from .call import CallMixin, Frame, LOG_METHODS
from .builtins import BuiltinMixin
from .program import Program, BindError, const_eval
from . import lists as L

MUTATORS = {'append', 'pop', 'insert', 'remove', 'clear', 'extend', 'add', 'discard', 'update', 'setdefault', 'sort'}
FILE_METHODS = {'write', 'seek', 'read', 'truncate'}
PURE_METHODS = {'get', 'keys', 'items', 'values', 'getfieldval', 'tell', 'format', 'join', 'match', 'fullmatch',
                'total_seconds', 'copy', 'index', 'encode', 'decode', 'hex', 'getvalue', 'startswith', 'lower',
                'guess_payload_class', 'getpeername', 'fileno', 'now', 'ip_address', 'hexlify', 'getLogger',
                'get_extension_for_oid', 'get_values_for_type', 'getpeercert', 'load_der_x509_certificate',
                'default_backend', 'match_hostname', 'cipher', 'timedelta', 'dumps', 'loads', 'build', 'show',
                'format_exc', 'log_name', 'compile', 'escape', 'singleton', 'closed', 'closedopen', 'empty', 'iterate',
                'to_bytes', 'peek'}
PURE_FUNCS = {'len', 'min', 'max', 'int', 'str', 'bool', 'bytes', 'bytearray', 'tuple', 'list', 'set', 'dict', 'sorted',
              'enumerate', 'range', 'isinstance', 'repr', 'type', 'abs', 'id', 'print', 'getattr', 'next', 'iter', 'zip',
              'reversed', 'map', 'any', 'all', 'sum', 'hasattr'}


class UnitResult:
    def __init__(self, unit_id, key):
        self.unit_id = unit_id
        self.key = key
        self.obligations = []
        self.covers = {}
        self.paths = 0
        self.solver_s = 0.0
        self.wall_s = 0.0
        self.queries = 0
        self.unsupported = None
        self.error = None
        self.src_hash = None
        self.file = None
        self.lines = None
        self.stmts = 0
        self.callees = []
        self.soft_skips = []
        self.notes = []

    def to_json(self):
        return {'unit': self.unit_id, 'function': self.key, 'file': self.file, 'lines': self.lines,
                'src_hash': self.src_hash, 'stmts': self.stmts, 'paths': self.paths, 'queries': self.queries,
                'solver_s': round(self.solver_s, 3), 'wall_s': round(self.wall_s, 3),
                'unsupported': self.unsupported, 'error': self.error, 'covers': self.covers,
                'callees_by_contract': self.callees, 'soft_skips': self.soft_skips, 'notes': self.notes[:10],
                'obligations': [o.to_json() for o in self.obligations]}


class Engine(CoreMixin, ExprMixin, StmtMixin, CallMixin, BuiltinMixin):

    def __init__(self, prog, spec, check_timeout_ms=10000, branch_timeout_ms=2000, max_paths=4000):
        self.prog = prog
        self.spec = spec
        self.max_paths = max_paths
        self.init_core(check_timeout_ms, branch_timeout_ms)
        self.spec_mode = False
        self.ghost_ok = False
        self.old = None
        self.old_locals = None
        self.frame = None
        self.depth = 0
        self.cur_key = None
        self.cur_fspec = None
        self.handling = []
        self.loop_iter_guard = []
        self.live_views = []
        self.soft_skips = set()
        self.written = set()
        self.callee_keys = set()
        self.h0 = {}
        self.model_watch = []
        self.unit_id = '?'

    # the initial array of a heap field is a deterministic constant per path
    def heap_arr(self, key, ft):
        arr = self.st.heap.get(key)
        if arr is None:
            ent = self.h0.get(key)
            if ent is None:
                arr = z3.Const('H0_%s_%s' % key, z3.ArraySort(z3.IntSort(), ft.sort()))
                self.h0[key] = (arr, ft)
            else:
                arr = ent[0]
            self.st.heap[key] = arr
        return arr

    def bump_alloc(self):
        c = self.alloc_counter()
        a = z3.Int(fresh_name('alloc0'))
        self.assume(a >= c)
        self.st.alloc0 = a
        self.st.alloc_k = 0
        self.assume_heap_closed()

    def assume_heap_closed(self, selfv=None):
        '''Heap well-formedness (true of every real heap): a reference stored in an
        allocated object, or in a container held by `self`, denotes an object allocated
        before now.  Needed to separate fresh allocations from everything reachable.'''
        c = self.alloc_counter()
        for sname, sc in self.spec.schemas.items():
            for fn, ft in sc.fields.items():
                inner = ft.inner if isinstance(ft, TOpt) else ft
                if isinstance(ft, TList) and isinstance(ft.elem, (TRef, TPkt)) and sname.startswith('pkt:'):
                    # a list of references held by a packet (Bundle.blocks): its elements were allocated before now
                    key = (sname, fn)
                    if key not in self.st.heap and key not in self.h0 and selfv is None:
                        continue
                    arr = self.heap_arr(key, ft)
                    r, i = z3.Int('hc_r'), z3.Int('hc_i')
                    lst = z3.Select(arr, r)
                    el = L.l_get(ft, lst, i)
                    self.assume(L.forall([r, i], z3.Implies(z3.And(r > 0, r < c, i >= 0, i < L.l_len(ft, lst)),
                                                            z3.And(el > 0, el < c)), patterns=[el]))
                    continue
                if not isinstance(inner, (TRef, TPkt)):
                    continue
                key = (sname, fn)
                if key not in self.st.heap and key not in self.h0 and selfv is None:
                    continue
                arr = self.heap_arr(key, ft)
                r = z3.Int('hc_r')
                val = z3.Select(arr, r)
                if isinstance(ft, TOpt):
                    body = z3.Or(ft.is_none(val), z3.And(ft.val(val) > 0, ft.val(val) < c))
                else:
                    body = z3.And(val > 0, val < c)
                self.assume(L.forall([r], z3.Implies(z3.And(r > 0, r < c), body), patterns=[val]))
        sv = selfv if selfv is not None else (self.frame.locals.get('self') if self.frame else None)
        if sv is not None and isinstance(sv.t, TRef):
            for sc in self.spec.schema_chain(sv.t.cls):
                for fn, ft in sc.fields.items():
                    if isinstance(ft, (TList, TSet, TDict)):
                        et = ft.elem if isinstance(ft, (TList, TSet)) else ft.v
                        if isinstance(et, (TRef, TPkt)) or isinstance(ft, TList):
                            arr = self.heap_arr((sc.name, fn), ft)
                            self.assume_wf(V(ft, z3.Select(arr, sv.z)))

    def havoc(self, locs, fields, ghosts):
        StmtMixin.havoc(self, locs, fields, ghosts)
        self.bump_alloc()

    def apply_modifies(self, mods):
        CallMixin.apply_modifies(self, mods)
        self.bump_alloc()

    # ------------------------------------------------------------ spec mode
    def spec_eval(self, node, env=None, old_state=None, old_locals=None):
        saved = (self.spec_mode, self.frame, self.old, self.old_locals)
        self.spec_mode = True
        if env is not None:
            fr = Frame('<spec>', self.frame.module if self.frame else None, self.frame.cls if self.frame else None, None, None)
            fr.locals = dict(env)
            self.frame = fr
        if old_state is not None:
            self.old = old_state
            self.old_locals = old_locals
        try:
            return self.ev(node)
        finally:
            self.spec_mode, self.frame, self.old, self.old_locals = saved

    def spec_name(self, name):
        if name == 'ghost':
            return Py('ghost')
        if name in self.spec.consts:
            return self.const_to_v(self.spec.consts[name])
        if name in NAMED:
            return Py('namedtype', NAMED[name])
        if name in self.spec.specfuncs:
            return Py('specfunc', name)
        if name in SPEC_BUILTINS or name in self.spec.specbuiltins:
            return Py('specbuiltin', name)
        if name in self.spec.schemas or name in ('Exception',):
            return None
        return None

    def spec_call(self, node):
        f = node.func
        if not isinstance(f, ast.Name):
            return None
        name = f.id
        if name == 'old':
            if self.old is None:
                raise Unsupported('old() without a pre-state')
            saved_st, saved_loc = self.st, self.frame.locals
            self.st = self.old
            merged = dict(saved_loc)
            merged.update(self.old_locals or {})
            self.frame.locals = merged
            try:
                return self.ev(node.args[0])
            finally:
                self.st = saved_st
                self.frame.locals = saved_loc
        if name == 'implies':
            a = self.ev_bool(node.args[0])
            if z3.is_false(z3.simplify(a)):
                # statically false guard (e.g. a packet-shape test): the consequent may not even
                # be well-typed for this case and is not evaluated
                return mk_bool(True)
            b = self.ev_bool(node.args[1])
            return mk_bool(z3.Implies(a, b))
        if name == 'iff':
            a, b = [self.ev_bool(x) for x in node.args]
            return mk_bool(a == b)
        if name == 'ite':
            c = self.ev_bool(node.args[0])
            a, b = self.ev(node.args[1]), self.ev(node.args[2])
            if a.t != b.t:
                if isinstance(a.t, TOpt):
                    b = opt_wrap(b, a.t)
                elif isinstance(b.t, TOpt):
                    a = opt_wrap(a, b.t)
                elif a.t is TNone:
                    a = opt_wrap(a, TOpt(b.t))
                    b = opt_wrap(b, a.t)
                elif b.t is TNone:
                    b = opt_wrap(b, TOpt(a.t))
                    a = opt_wrap(a, b.t)
            return ite(c, a, b)
        if name in ('forall', 'exists'):
            # forall(x, lo, hi, body)  or  forall(x, 'Type', body)
            var = node.args[0].id
            if len(node.args) == 4:
                lo = self.ev(node.args[1]).z
                hi = self.ev(node.args[2]).z
                self.qdepth = getattr(self, 'qdepth', 0) + 1
                x = z3.Int('q_%s_%d' % (var, self.qdepth))
                self.frame.locals[var] = mk_int(x)
                try:
                    body = self.ev_bool(node.args[3])
                finally:
                    self.frame.locals.pop(var, None)
                    self.qdepth -= 1
                rng = z3.And(x >= lo, x < hi)
                if name == 'forall':
                    from .core import auto_patterns
                    pats = auto_patterns(x, body)
                    return mk_bool(z3.ForAll([x], z3.Implies(rng, body), patterns=pats) if pats
                                   else z3.ForAll([x], z3.Implies(rng, body)))
                return mk_bool(z3.Exists([x], z3.And(rng, body)))
            t = parse_type(node.args[1].value)
            self.qdepth = getattr(self, 'qdepth', 0) + 1
            x = z3.Const('q_%s_%d' % (var, self.qdepth), t.sort())
            self.frame.locals[var] = V(t, x)
            try:
                body = self.ev_bool(node.args[2])
            finally:
                self.frame.locals.pop(var, None)
                self.qdepth -= 1
            if name == 'forall':
                from .core import auto_patterns
                pats = auto_patterns(x, body)
                return mk_bool(z3.ForAll([x], body, patterns=pats) if pats else z3.ForAll([x], body))
            return mk_bool(z3.Exists([x], body))
        if name in self.spec.specfuncs:
            params, body = self.spec.specfuncs[name]
            args = [self.ev(a) for a in node.args]
            saved = self.frame.locals
            self.frame.locals = dict(saved)
            self.frame.locals.update(dict(zip(params, args)))
            try:
                return self.ev(body)
            finally:
                self.frame.locals = saved
        if name in self.spec.specbuiltins:
            args = [self.ev(a) for a in node.args]
            return self.spec.specbuiltins[name](self, *args)
        if name in SPEC_BUILTINS:
            args = [self.ev(a) for a in node.args]
            return SPEC_BUILTINS[name](self, *args)
        if name in NAMED:
            args = [self.ev(a) for a in node.args]
            kwargs = {k.arg: self.ev(k.value) for k in node.keywords}
            return self.construct_named(NAMED[name], args, kwargs)
        return None

    # ------------------------------------------------------------ write sets
    def write_set(self, body, ls):
        locs, fields, ghosts = set(), set(), set()
        if ls is not None and ls.modifies is not None:
            for m in ls.modifies:
                if m.startswith('local:'):
                    locs.add(m[6:])
                elif m.startswith('ghost.'):
                    ghosts.add(m[6:])
                else:
                    fields.add(m.split('.', 1)[1] if '.' in m else m)
            return locs, fields, ghosts
        self._scan_writes(body, locs, fields, ghosts, set())
        if ls is not None:
            # ghost statements run with every iteration: what they assign is part of the loop's write set
            for blocks in (ls.ghost_begin, ls.ghost_end):
                for stmts in blocks:
                    for st in stmts:
                        for n in ast.walk(st):
                            tgts = []
                            if isinstance(n, ast.Assign):
                                tgts = n.targets
                            elif isinstance(n, (ast.AugAssign, ast.AnnAssign)):
                                tgts = [n.target]
                            for t in tgts:
                                if isinstance(t, ast.Attribute) and isinstance(t.value, ast.Name) and t.value.id == 'ghost':
                                    ghosts.add(t.attr)
                                elif isinstance(t, ast.Name):
                                    locs.add(t.id)
        return locs, fields, ghosts

    def _tgt(self, t, locs, fields):
        if isinstance(t, ast.Name):
            locs.add(t.id)
        elif isinstance(t, ast.Attribute):
            fields.add(self.mangle(t.attr))
        elif isinstance(t, ast.Subscript):
            b = t.value
            if isinstance(b, ast.Attribute):
                fields.add(self.mangle(b.attr))
            elif isinstance(b, ast.Name):
                locs.add(b.id)
            else:
                raise Unsupported('write set: subscript store target')
        elif isinstance(t, (ast.Tuple, ast.List)):
            for e in t.elts:
                self._tgt(e, locs, fields)
        else:
            raise Unsupported('write set: target %s' % type(t).__name__)

    def _scan_writes(self, stmts, locs, fields, ghosts, seen):
        for st in stmts:
            for n in ast.walk(st):
                if isinstance(n, (ast.Assign,)):
                    for t in n.targets:
                        self._tgt(t, locs, fields)
                elif isinstance(n, (ast.AugAssign, ast.AnnAssign)):
                    self._tgt(n.target, locs, fields)
                elif isinstance(n, ast.For):
                    self._tgt(n.target, locs, fields)
                elif isinstance(n, ast.ExceptHandler) and n.name:
                    locs.add(n.name)
                elif isinstance(n, ast.Yield):
                    locs.add('_yielded')
                elif isinstance(n, ast.Delete):
                    for t in n.targets:
                        self._tgt(t, locs, fields)
                elif isinstance(n, ast.Call):
                    self._scan_call(n, locs, fields, ghosts, seen)

    def _scan_call(self, n, locs, fields, ghosts, seen):
        if self.is_logging_call(n):
            return
        f = n.func
        if isinstance(f, ast.Attribute):
            m = f.attr
            if m in ('setfieldval', 'delfieldval'):
                # scapy field store: the named field when the name is a literal; otherwise any field of the
                # receiver's packet class when the receiver is a local of known packet type; otherwise anything
                if n.args and isinstance(n.args[0], ast.Constant) and isinstance(n.args[0].value, str):
                    fields.add(n.args[0].value)
                    return
                rv = self.frame.locals.get(f.value.id) if isinstance(f.value, ast.Name) and self.frame is not None else None
                if rv is not None and isinstance(rv.t, TPkt):
                    for fn in self.pkt_schema(rv.t.layers[0]).fields:
                        # object-granular entry: only this packet's cells are havocked at a loop cut
                        fields.add(('@obj', 'pkt:' + rv.t.layers[0], fn, rv.z, f.value.id))
                    return
                fields.add('*')
                return
            if m in MUTATORS or m in FILE_METHODS:
                b = f.value
                if isinstance(b, ast.Attribute):
                    fields.add(self.mangle(b.attr))
                elif isinstance(b, ast.Name):
                    locs.add(b.id)
                elif isinstance(b, ast.Call):
                    fields.add('*')
                if m in FILE_METHODS:
                    fields.update({'content', 'pos'})
                # a repo method may have the same name (e.g. close): fall through to look-up
            found = self._lookup_callees(m)
            if found:
                for kind, obj in found:
                    self._callee_writes(kind, obj, locs, fields, ghosts, seen)
                return
            if m in MUTATORS or m in FILE_METHODS or m in PURE_METHODS or m in LOG_METHODS:
                return
            ext = self.spec.notes.get('extern_writes', {})
            if m in ext:
                ghosts.update(ext[m])
                return
            cbw = self.spec.notes.get('callback_writes', {})
            if m in cbw:
                # a callable held in an attribute of this name: writes what the contract files say it may
                for w in cbw[m]:
                    if w.startswith('ghost.'):
                        ghosts.add(w[6:])
                    else:
                        fields.add(w.split('.')[-1])
                return
            raise Unsupported('write set: unknown method %s' % m)
        if isinstance(f, ast.Name):
            if f.id == 'next' and self.frame is not None:
                # next(<list iterator>) advances the iterator's position (a hidden local, see bi_iter)
                for name in self.frame.locals:
                    if name.startswith('_it_'):
                        locs.add(name)
                return
            if f.id in PURE_FUNCS:
                return
            found = self._lookup_callees(f.id, funcs_only=True)
            if found:
                for kind, obj in found:
                    self._callee_writes(kind, obj, locs, fields, ghosts, seen)
                return
            if f.id in self.frame.locals or f.id[0].isupper():
                return
            fd = self.frame.fdef
            if fd is not None and any(isinstance(x, ast.Name) and isinstance(x.ctx, ast.Store) and x.id == f.id
                                      for x in ast.walk(fd)):
                # a local bound to a class / callable (e.g. msgcls = messages.MessageHead): construction
                return
            raise Unsupported('write set: unknown function %s' % f.id)
        raise Unsupported('write set: call form')

    def _lookup_callees(self, name, funcs_only=False):
        out = []
        for key, fs in self.spec.funcs.items():
            q = fs.qualname
            if q == name or q.endswith('.' + name):
                out.append(('contract', fs))
        for key in self.spec.inline:
            q = key.split(':', 1)[1]
            if q == name or q.endswith('.' + name):
                out.append(('inline', key))
        # signals (decorated) are found through the program classes
        for mname in self.spec.modules:
            m = self.prog.module(mname)
            for ci in m.classes.values():
                fd = ci.methods.get(name)
                if fd is not None and self.decorator_info(fd) and self.decorator_info(fd)[0] == 'signal':
                    out.append(('signal', (m, ci, fd)))
        return out

    def _callee_writes(self, kind, obj, locs, fields, ghosts, seen):
        if kind == 'contract':
            mods = list(obj.modifies)
            for rs in obj.raises.values():
                if rs.modifies:
                    mods.extend(rs.modifies)
            for m in mods:
                if m.startswith('ghost.'):
                    ghosts.add(m[6:])
                elif m == '*':
                    fields.add('*')
                else:
                    fields.add(m.split('.', 1)[1])
        elif kind == 'inline':
            if obj in seen:
                return
            seen.add(obj)
            mod, q = obj.split(':')
            m = self.prog.module(mod)
            if '.' in q:
                c, fn = q.rsplit('.', 1)
                fd = self.prog.cls(mod, c).methods[fn]
            else:
                fd = m.functions[q]
            self._scan_writes(fd.body, set(), fields, ghosts, seen)
        elif kind == 'signal':
            ghosts.update(self.spec.notes.get('signal_ghosts', ['signals']))

    def minimize_terms(self):
        '''Preferences for candidate counter-models, most wanted first: empty pre-state collections
        (ghost values, then the fields of self and of the arguments that are objects).'''
        from . import lists as L
        out = []

        def prefer(t, z):
            if isinstance(t, TOpt):
                return
            if isinstance(t, TList):
                out.append(L.l_len(t, z) == 0)
                out.append(L.l_len(t, z) <= 1)
                out.append(L.l_len(t, z) <= 2)
            elif isinstance(t, TSet):
                out.append(z == z3.K(t.elem.sort(), z3.BoolVal(False)))
            elif isinstance(t, TDict):
                out.append(t.dom(z) == z3.K(t.k.sort(), z3.BoolVal(False)))
            elif t is TBytes:
                out.append(z3.Length(z) == 0)
                out.append(z3.Length(z) <= 4)

        roots = []
        for name, v in self.model_watch:
            if v.z is None:
                continue
            if name.startswith('ghost.'):
                prefer(v.t, v.z)
            elif isinstance(v.t, TRef):
                roots.append(v)
        for v in roots:
            for sc in self.spec.schema_chain(v.t.cls):
                for fn, ft in sc.fields.items():
                    ent = self.h0.get((sc.name, fn))
                    if ent is not None:
                        prefer(ft, z3.Select(ent[0], v.z))
        return out

    def structured_model(self, m):
        '''The pre-state of a counter-model as plain data: arguments, ghost values, and the
        objects reachable from them (fields read from the initial heap arrays).'''
        from . import modelval as MV
        refs = []
        args, ghost = {}, {}
        for name, v in self.model_watch:
            if name.startswith('self.') or v.z is None:
                continue
            try:
                val = MV.decode(v.t, v.z, m, refs)
            except Exception as err:  # noqa
                val = {'undecodable': str(err)[:60]}
            if name.startswith('ghost.'):
                ghost[name[6:]] = val
            else:
                args[name] = val
        objects = {}
        done = set()
        depth = 0
        while refs and depth < 200:
            depth += 1
            cls, r, t = refs.pop(0)
            if r is None or (cls, r) in done:
                continue
            done.add((cls, r))
            fields = {}
            chain = self.spec.schema_chain(cls) if not cls.startswith('pkt:') else [self.spec.schemas.get(cls)]
            for sc in chain:
                if sc is None:
                    continue
                for fn, ft in sc.fields.items():
                    if ft is TNone:
                        continue
                    ent = self.h0.get((sc.name, fn))
                    if ent is None:
                        continue
                    try:
                        fields[fn] = MV.decode(ft, z3.Select(ent[0], z3.IntVal(r)), m, refs)
                    except Exception as err:  # noqa
                        fields[fn] = {'undecodable': str(err)[:60]}
            objects.setdefault(cls, {})[str(r)] = fields
        return {'args': args, 'ghost': ghost, 'objects': objects}

    def clause_reads(self, node, _seen=None):
        '''Field and ghost names a specification expression mentions (macros expanded).'''
        out = set()
        seen = _seen if _seen is not None else set()
        for n in ast.walk(node):
            if isinstance(n, ast.Attribute):
                if isinstance(n.value, ast.Name) and n.value.id == 'ghost':
                    out.add('ghost.' + n.attr)
                else:
                    out.add(n.attr)
            elif isinstance(n, ast.Call) and isinstance(n.func, ast.Name) and n.func.id in self.spec.specfuncs:
                if n.func.id not in seen:
                    seen.add(n.func.id)
                    out |= self.clause_reads(self.spec.specfuncs[n.func.id][1], seen)
        return out

    # --------------------------------------------------------------- locate
    def locate(self, fs):
        m = self.prog.module(fs.module)
        q = fs.qualname
        if '.' in q:
            c, fn = q.rsplit('.', 1)
            ci = self.prog.cls(fs.module, c)
            fd = ci.methods.get(fn)
            if fd is None:
                raise BindError('method %s not found' % fs.key)
            return m, ci, fd
        fd = m.functions.get(q)
        if fd is None:
            raise BindError('function %s not found' % fs.key)
        return m, None, fd

    def param_types(self, fs, fdef, case):
        out = {}
        a = fdef.args
        names = [x.arg for x in a.posonlyargs + a.args + a.kwonlyargs]
        for n in names:
            ts = None
            if case and n in case.get('params', {}):
                ts = case['params'][n]
            elif n in fs.params:
                ts = fs.params[n]
            elif n == 'self' and fs.self_type:
                ts = fs.self_type
            elif n == 'self' and '.' in fs.qualname:
                cname = fs.qualname.rsplit('.', 1)[0]
                sc = self.spec.schema_for_pyclass(fs.module, cname)
                if sc is None:
                    raise BindError('no schema for class of %s' % fs.key)
                ts = 'Ref[%s]' % sc.name
            if ts is None:
                raise BindError('contract %s gives no type for parameter %s' % (fs.key, n))
            if ts == 'AnyPkt' or ts.startswith('Ext[') or ts.startswith('Class[') or ts.startswith('PyDict{'):
                out[n] = ts
            else:
                out[n] = parse_type(ts)
        return out

    def symbolic_pydict(self, name, ts):
        '''Parameter type PyDict{2: [Int, Int, Int, Bytes], 8: Int}: a dict with exactly these integer keys whose
        values are arbitrary values of the stated types (lists: fixed length, as written).'''
        node = ast.parse(ts[6:], mode='eval').body
        if not isinstance(node, ast.Dict):
            raise BindError('malformed %s' % ts)

        def mk(tn, path):
            if isinstance(tn, ast.List):
                return Py('pylist', tuple(mk(e, '%s_%d' % (path, i)) for i, e in enumerate(tn.elts)))
            t = parse_type(ast.unparse(tn))
            v = V(t, z3.Const('arg_%s_%s' % (name, path), t.sort()))
            self.assume_wf(v)
            self.model_watch_extra.append(('%s[%s]' % (name, path.replace('_', '][')), v))
            return v
        items = []
        for k, vn in zip(node.keys, node.values):
            kc = const_eval(k)
            items.append((mk_int(kc), mk(vn, str(kc))))
        return Py('pydict', tuple(items))

    # ---------------------------------------------------------------- verify
    def verify(self, fs, case_idx=0):
        case = fs.cases[case_idx]
        self.cur_case = case
        if fs.timeout_ms:
            # a contract may ask for a larger per-obligation budget (never a smaller one than the tier's)
            self.check_timeout_ms = max(self.check_timeout_ms, int(fs.timeout_ms))
        self.cli_first = fs.d.get('solver_route') == 'cli'
        cname = case.get('name')
        self.unit_id = fs.key + ('[%s]' % cname if cname else '')
        res = UnitResult(self.unit_id, fs.key)
        t0 = time.time()
        try:
            module, ci, fdef = self.locate(fs)
            res.file = module.path
            res.lines = [fdef.lineno, fdef.end_lineno]
            res.src_hash = self.prog.func_hash(module, fdef)
            res.stmts = sum(1 for n in ast.walk(fdef) if isinstance(n, ast.stmt)) - 1
            self.cur_key = fs.key
            self.cur_fspec = fs
            # Quantified class-invariant clauses are assumed only when the function touches
            # what they talk about (or the contract asks for them): an untouched clause is
            # re-established by identity and only slows every query down.  Found by iteration.
            self.quant_assumed = set(fs.d.get('inv_use', []))
            self.all_quant_inv = set()
            if fs.handler:
                try:
                    self.frame = Frame(fdef.name, module, ci, fdef, fs)
                    _l, wfields, wghosts = self.write_set(fdef.body, None)
                    wnames = set(wfields) | {'ghost.' + g for g in wghosts}
                    sch = fs.inv_schema or (self.spec.schema_for_pyclass(fs.module, fs.qualname.rsplit('.', 1)[0]).name
                                            if '.' in fs.qualname and not fs.self_type else None)
                    if fs.self_type:
                        sch = self.spec.schema_of_type(parse_type(fs.self_type))
                    for c in (self.spec.all_invariants(sch) if sch else []):
                        if '*' in wfields or (self.clause_reads(c.node) & wnames):
                            self.quant_assumed.add(c.label)
                except Unsupported:
                    pass
            for _round in range(4):
                self.inv_touched = set()
                self.obs, self.ob_order = {}, []
                stack = [[]]
                while stack:
                    prefix = stack.pop()
                    if self.paths_run >= self.max_paths:
                        raise Unsupported('path budget exceeded (%d)' % self.max_paths)
                    self.begin_path(prefix)
                    try:
                        self.run_path(fs, case, module, ci, fdef)
                    except PathEnd:
                        pass
                    for i in range(len(prefix), len(self.decisions)):
                        if self.dec_both[i]:
                            stack.append(self.decisions[:i] + [not self.decisions[i]])
                    if self.inv_touched - self.quant_assumed:
                        break
                if not (self.inv_touched - self.quant_assumed):
                    # anything left open may need a quantified clause that was not assumed
                    open_obs = any(self.obs[k].status != 'discharged' for k in self.ob_order)
                    rest = self.all_quant_inv - self.quant_assumed
                    if open_obs and rest and not stack:
                        self.quant_assumed |= rest
                        continue
                    break
                self.quant_assumed |= self.inv_touched
            res.notes.append('quantified invariants assumed: %s' % sorted(self.quant_assumed))
        except Unsupported as err:
            res.unsupported = '%s (line %s)' % (err, getattr(self, 'cur_line', None))
        except BindError as err:
            res.error = 'bind: %s' % err
        except Exception as err:  # checker problem, never a verdict
            res.error = 'crash: %r\n%s' % (err, traceback.format_exc()[-1500:])
        res.obligations = [self.obs[k] for k in self.ob_order]
        res.covers = dict(self.covers)
        res.paths = self.paths_run
        res.solver_s = self.solver_s
        res.queries = self.queries
        res.wall_s = time.time() - t0
        res.callees = sorted(self.callee_keys)
        res.soft_skips = sorted(self.soft_skips)
        res.notes = list(self.notes)
        return res

    def run_path(self, fs, case, module, ci, fdef):
        self.h0 = {}
        self.written = set()
        self.handling = []
        self.loop_iter_guard = []
        self.live_views = []
        self.depth = 0
        self.spec_mode = False
        self.old = None
        fr = Frame(fdef.name, module, ci, fdef, fs)
        self.frame = fr
        ptypes = self.param_types(fs, fdef, case)
        watch = []
        self.model_watch_extra = watch
        for n, t in ptypes.items():
            if isinstance(t, str):
                if t.startswith('Ext['):
                    fr.locals[n] = Py('ext', t[4:-1])
                    continue
                if t.startswith('PyDict{'):
                    fr.locals[n] = self.symbolic_pydict(n, t)
                    continue
                raise BindError('parameter %s of %s needs a concrete packet type in each case' % (n, fs.key))
            if n == 'self':
                v = V(t, z3.Int('self'))
            else:
                v = V(t, z3.Const('arg_' + n, t.sort())) if t is not TNone else NONE
            fr.locals[n] = v
            self.assume_wf(v)
            watch.append((n, v))
        for g, t in self.spec.ghost.items():
            self.st.ghost[g] = V(t, z3.Const('ghost0_' + g, t.sort()))
            watch.append(('ghost.' + g, self.st.ghost[g]))
        self.model_watch = watch
        self.old = self.st
        self.old_locals = dict(fr.locals)
        # assumptions
        for c in fs.requires:
            self.assume(truthy(self.spec_eval(c.node)))
        for src in case.get('requires', []):
            self.assume(truthy(self.spec_eval(ast.parse(src.strip(), mode='eval').body)))
        inv_schema = fs.inv_schema or (self.spec.schema_of_type(ptypes['self']) if 'self' in ptypes and not isinstance(ptypes['self'], str) else None)
        invs = self.spec.all_invariants(inv_schema) if (fs.handler and inv_schema) else []
        self.inv_entry = {}
        for c in invs:
            zc = truthy(self.spec_eval(c.node))
            self.inv_entry[c.label] = zc
            from .core import has_quantifier
            if has_quantifier(zc):
                self.all_quant_inv.add(c.label)
                if c.label not in self.quant_assumed:
                    # a hypothesis all the same: known for identity discharge, just not given to the solver
                    self.assumed.setdefault(zc.hash(), []).append(zc)
                    continue
            self.assume(zc)
        self.cover(self.unit_id + '/requires')
        if self.covers.get(self.unit_id + '/requires') == 'unreachable':
            raise PathEnd()
        # watch initial self fields
        if 'self' in ptypes and inv_schema:
            for sc in self.spec.schema_chain(inv_schema):
                for fn, ft in sc.fields.items():
                    if ft is TNone:
                        continue
                    arr = self.heap_arr((sc.name, fn), ft)
                    watch.append(('self.' + fn, V(ft, z3.Select(arr, fr.locals['self'].z))))
        if 'self' in fr.locals and fr.locals['self'].t is not TPy:
            self.assume_heap_closed(fr.locals['self'])
        self.old = self.st.copy()
        self.old_locals = dict(fr.locals)
        self.run_ghost(fs.ghost_entry)
        outcome = None
        gen_t = fs.d.get('generator')
        if gen_t:
            from .types import TList as _TL
            from . import lists as _L
            lt = _TL(parse_type(gen_t))
            fr.locals['_yielded'] = V(lt, _L.l_empty(lt))
        try:
            try:
                self.exec_block(fdef.body)
                outcome = ('return', NONE)
            except ReturnEx as r:
                outcome = ('return', r.value)
            if gen_t:
                outcome = ('return', fr.locals['_yielded'])
        except PyExc as pe:
            outcome = ('raise', pe.exc)
        self.frame = fr
        self.spec_mode = False
        if outcome[0] == 'return':
            self.check_normal(fs, outcome[1], invs)
        else:
            self.check_exceptional(fs, outcome[1], invs)

    def run_ghost(self, blocks):
        if not blocks:
            return
        self.ghost_ok = True
        saved = self.spec_mode
        try:
            for stmts in blocks:
                fr = self.frame
                if 'ghost' not in fr.locals:
                    fr.locals['ghost'] = Py('ghost')
                self.spec_mode = True
                for s in stmts:
                    self.exec_stmt(s)
        finally:
            self.spec_mode = saved
            self.ghost_ok = False
            self.frame.locals.pop('ghost', None)

    def params_at_entry(self):
        '''In postconditions a parameter name denotes the argument value (the body may
        have re-bound the local); the rebound locals stay visible to ghost code under
        their own names only if they are not parameters.'''
        for k, v in (self.old_locals or {}).items():
            self.frame.locals[k] = v

    def check_normal(self, fs, rv, invs):
        fr = self.frame
        self.params_at_entry()
        self.cover(self.unit_id + '/normal_exit')
        rts = self.cur_case.get('returns', fs.returns) if self.cur_case else fs.returns
        rt = parse_type(rts) if rts else None
        if rt is not None:
            if isinstance(rv.t, TOpt) and rv.t.inner == rt:
                self.ob('return_type', 'result_not_None', z3.Not(rv.t.is_none(rv.z)), props=fs.props)
                rv = V(rt, rv.t.val(rv.z))
            try:
                fr.locals['result'] = coerce(rv, rt)
            except Unsupported:
                self.ob('return_type', 'result_is_%s' % fs.returns, z3.BoolVal(False), props=fs.props)
                return
        else:
            fr.locals['result'] = rv
        self.run_ghost(fs.ghost_exit)
        dec = self.decorator_info(fr.fdef) if fr.fdef is not None else None
        if dec is not None and dec[0] == 'method' and dec[2]:
            # C18: the value returned by a D-Bus method marshals as its declared out_signature
            from .dbus_sig import split_signature, conforms
            parts = split_signature(dec[2])
            if len(parts) == 1:
                self.ob('dbus_signature', 'return_%s' % dec[2].replace('{', '_').replace('}', '_'),
                        conforms(self, rv, parts[0]), props=('C18',))
        for exc, rs in fs.raises.items():
            if rs.iff and rs.when is not None:
                w = truthy(self.old_eval(rs.when))
                self.ob('raises_iff', exc, z3.Not(w), props=fs.props)
        cname = (self.cur_case or {}).get('name')
        for c in list(fs.ensures) + list(fs.case_ensures.get(cname, [])):
            self.ob('ensures', c.label, truthy(self.spec_eval(c.node)), props=c.props, aux=c.aux or not c.props)
        if not fs.no_inv_ensures:
            for c in invs:
                self.ob_inv('invariant', c.label, c, c.label)
        self.check_frame(fs, (self.cur_case or {}).get('modifies', fs.modifies))

    def ob_inv(self, kind, label, c, key):
        '''An invariant clause at exit.  If the clause reads nothing that was
        written, its formula is literally the one assumed at entry.'''
        zc = truthy(self.spec_eval(c.node))
        ze = self.inv_entry.get(key)
        if ze is not None and zc.eq(ze):
            zc = z3.BoolVal(True)
        else:
            from .core import has_quantifier
            if ze is not None and has_quantifier(ze) and key not in self.quant_assumed:
                self.inv_touched.add(key)
                return
        self.ob(kind, label, zc, props=c.props, aux=not c.props)

    def old_eval(self, node):
        saved_st, saved_loc = self.st, self.frame.locals
        self.st = self.old
        self.frame.locals = dict(self.old_locals)
        try:
            return self.spec_eval(node)
        finally:
            self.st = saved_st
            self.frame.locals = saved_loc

    def check_exceptional(self, fs, exc, invs):
        self.params_at_entry()
        match = None
        for name, rs in fs.raises.items():
            if exc_is_subclass(exc.cls, name):
                match = rs
                break
        if match is None:
            self.ob('no_exception', 'escapes', z3.BoolVal(False), props=fs.noraise_props, assume_after=False)
            self.obs['%s/no_exception/escapes' % self.unit_id].results[-1] = \
                self.obs['%s/no_exception/escapes' % self.unit_id].results[-1][:2] + \
                (dict(self.obs['%s/no_exception/escapes' % self.unit_id].results[-1][2] or {}, exception=exc.cls, line=str(self.cur_line)),) + \
                self.obs['%s/no_exception/escapes' % self.unit_id].results[-1][3:]
            return
        self.cover('%s/raises_%s' % (self.unit_id, match.exc))
        if match.when is not None:
            self.ob('raises_when', match.exc, truthy(self.old_eval(match.when)), props=fs.props)
        for an, anode in match.attrs.items():
            have = exc.attrs.get(an)
            want = self.old_eval(anode)
            from .sym import eq as _eq
            self.ob('raises_attr', '%s.%s' % (match.exc, an),
                    _eq(have, want) if have is not None else z3.BoolVal(False), props=fs.props)
        for c in match.ensures:
            self.ob('raises_ensures', '%s.%s' % (match.exc, c.label), truthy(self.spec_eval(c.node)), props=c.props,
                    aux=c.aux or not c.props)
        if not fs.no_inv_ensures:
            for c in invs:
                self.ob_inv('invariant_on_raise', '%s.%s' % (match.exc, c.label), c, c.label)
        self.check_frame(fs, match.modifies if match.modifies is not None else (self.cur_case or {}).get('modifies', fs.modifies))

    def check_frame(self, fs, mods):
        allowed = set()
        star = False
        for m in mods:
            if m == '*':
                star = True
            elif not m.startswith('ghost.'):
                sch, fld = m.split('.', 1)
                f = self.spec.field(sch, fld)
                if f is not None:
                    allowed.add((f[0], fld))
        self_only = bool(fs.d.get('modifies_self_only')) and 'self' in (self.old_locals or {})
        if not star:
            for key in sorted(self.written):
                if key in allowed and self_only:
                    # object-granular frame promised to callers: only the fields of `self` may change
                    cur = self.st.heap.get(key)
                    old = self.old.heap.get(key)
                    if cur is not None and old is not None and not cur.eq(old):
                        r = z3.Int(fresh_name('fr'))
                        sz = self.old_locals['self'].z
                        goal = z3.ForAll([r], z3.Implies(z3.And(r > 0, r < self.old.alloc0 + self.old.alloc_k, r != sz),
                                                         cur[r] == old[r]))
                        self.ob('frame', '%s.%s(other objects)' % key, goal, props=(), aux=True)
                    continue
                if key in allowed:
                    continue
                cur = self.st.heap.get(key)
                old = self.old.heap.get(key)
                if cur is None or old is None or cur.eq(old):
                    continue
                r = z3.Int(fresh_name('fr'))
                goal = z3.ForAll([r], z3.Implies(z3.And(r > 0, r < self.old.alloc0 + self.old.alloc_k), cur[r] == old[r]))
                self.ob('frame', '%s.%s' % key, goal, props=(), aux=True)
        gallowed = {m[6:] for m in mods if m.startswith('ghost.')}
        for g, v in self.st.ghost.items():
            if g in gallowed or star:
                continue
            o = self.old.ghost[g]
            if v.z is not None and not v.z.eq(o.z):
                self.ob('frame', 'ghost.' + g, v.z == o.z, props=(), aux=True)


# --------------------------------------------------------------------------
# spec-only builtins

def _sb_length(eng, v):
    return mk_int(py_len(v))


def _sb_slice(eng, s, lo, hi):
    if isinstance(s.t, TList):
        return V(s.t, L.l_slice(s.t, s.z, lo.z, hi.z))
    return V(s.t, seq_slice(s.z, lo.z, hi.z))


def _sb_is_none(eng, v):
    return mk_bool(eng.is_(v, NONE))


def _sb_unwrap(eng, v):
    return V(v.t.inner, v.t.val(v.z))


def _sb_some(eng, v):
    t = TOpt(v.t)
    return V(t, t.some(v.z))


def _sb_dom(eng, d):
    return V(TSet(d.t.k), d.t.dom(d.z))


def _sb_lookup(eng, d, k):
    return V(d.t.v, z3.Select(d.t.map(d.z), coerce(k, d.t.k).z))


def _sb_set_add(eng, s, x):
    return V(s.t, z3.Store(s.z, coerce(x, s.t.elem).z, True))


def _sb_set_remove(eng, s, x):
    return V(s.t, z3.Store(s.z, coerce(x, s.t.elem).z, False))


def _sb_empty_set(eng, s):
    return mk_bool(s.z == s.t.empty())


def _sb_last(eng, s):
    et = TInt if s.t is TBytes else s.t.elem
    if isinstance(s.t, TList):
        return V(et, L.l_get(s.t, s.z, L.l_len(s.t, s.z) - 1))
    return V(et, s.z[z3.Length(s.z) - 1])


def _sb_at(eng, s, i):
    et = TInt if s.t is TBytes else s.t.elem
    if isinstance(s.t, TList):
        return V(et, L.l_get(s.t, s.z, i.z))
    return V(et, s.z[i.z])


def _sb_str_of(eng, i):
    return V(TStr, TStr.sort().of_int(i.z))


def _sb_flag(eng, x, mask):
    from .sym import int_and_const
    return mk_bool(int_and_const(x.z, concrete_int(mask.z)) != 0)


def _sb_band(eng, x, mask):
    from .sym import int_and_const
    return mk_int(int_and_const(x.z, concrete_int(mask.z)))


def _sb_eqv(eng, a, b):
    from .sym import eq
    return mk_bool(eq(a, b))


def _sb_no_dup(eng, s):
    i, j = z3.Int('nd_i'), z3.Int('nd_j')
    a, b = L.l_get(s.t, s.z, i), L.l_get(s.t, s.z, j)
    return mk_bool(L.forall([i, j], z3.Implies(z3.And(0 <= i, i < j, j < L.l_len(s.t, s.z)), a != b),
                            multi=[(a, b)]))


def _sb_contains(eng, s, x):
    return mk_bool(eng.contains(s, x))


def _sb_alloc_before(eng, r):
    '''reference existed in the pre-state'''
    return mk_bool(z3.And(r.z > 0, r.z < eng.old.alloc0 + eng.old.alloc_k))


def _sb_key_index(eng, d, k):
    from .builtins import dict_ix_fn
    return mk_int(dict_ix_fn(d.t)(d.z, coerce(k, d.t.k).z))


def _sb_is_int_str(eng, s):
    return mk_bool(TStr.sort().is_of_int(s.z))


def _sb_int_of_str(eng, s):
    return mk_int(TStr.sort().int_val(s.z))


def _sb_dict_conforms(eng, d, sig):
    from .dbus_sig import conforms
    return mk_bool(conforms(eng, d, sig.py[1]))


def _sb_dict_put(eng, d, k, v):
    t = d.t
    kk = coerce(k, t.k)
    vv = coerce(v, t.v)
    return V(t, t.mk(z3.Store(t.dom(d.z), kk.z, True), z3.Store(t.map(d.z), kk.z, vv.z)))


def _sb_dict_del(eng, d, k):
    t = d.t
    kk = coerce(k, t.k)
    return V(t, t.mk(z3.Store(t.dom(d.z), kk.z, False), t.map(d.z)))


def _sb_cbtag(eng, name):
    from .sym import func_tag
    return mk_int(func_tag(name.py[1]))


SPEC_BUILTINS = {'cbtag': _sb_cbtag, 'dict_put': _sb_dict_put, 'dict_del': _sb_dict_del,
                 'key_index': _sb_key_index, 'is_int_str': _sb_is_int_str, 'int_of_str': _sb_int_of_str, 'dict_conforms': _sb_dict_conforms,'length': _sb_length, 'slice': _sb_slice, 'is_none': _sb_is_none, 'unwrap': _sb_unwrap,
                 'some': _sb_some, 'dom': _sb_dom, 'lookup': _sb_lookup, 'set_add': _sb_set_add,
                 'set_remove': _sb_set_remove, 'is_empty_set': _sb_empty_set, 'last': _sb_last, 'at': _sb_at,
                 'str_of': _sb_str_of, 'flag': _sb_flag, 'band': _sb_band, 'eqv': _sb_eqv, 'no_dup': _sb_no_dup,
                 'contains': _sb_contains, 'existed': _sb_alloc_before}
