"""Statement execution: assignments, control flow, loops cut by invariants,
try/except with class matching."""
import ast
import z3

from .sym import (V, Py, is_py, NONE, TPy, Unsupported, mk_int, mk_bool, fresh, fresh_name, truthy, coerce,
                  concrete_int, py_len)
from . import lists as L
from .types import (TInt, TBool, TNone, TBytes, TStr, TRef, TPkt, TOpt, TList, TSet, TDict, TTuple, TAny)
from .core import PyExc, ExcVal, PathEnd, ReturnEx, BreakEx, ContinueEx, exc_is_subclass, EXC_ALIAS


class StmtMixin:

    def exec_block(self, stmts):
        for s in stmts:
            self.exec_stmt(s)

    def exec_stmt(self, s):
        m = getattr(self, 'ex_' + type(s).__name__, None)
        if m is None:
            raise Unsupported('statement %s' % type(s).__name__)
        self.cur_line = getattr(s, 'lineno', None)
        fsx = self.frame.fspec
        if fsx is not None and fsx.hints and not self.spec_mode and not getattr(self, 'ghost_ok', False):
            self.apply_hints(fsx, s)
        m(s)

    def apply_hints(self, fsx, s):
        '''Intermediate assertions of the contract (key `hints`): anchored on the text of the statement they
        stand before, proved there as obligations of their own and only then used.  An anchor that no longer
        occurs in the code just leaves the hint unused.'''
        try:
            txt = ast.unparse(s).split('\n')[0].strip()
        except Exception:  # noqa
            return
        for h in fsx.hints:
            if h['before'] == txt:
                node = ast.parse(h['assert'].strip(), mode='eval').body
                self.ob('hint', h['label'], truthy(self.spec_eval(node)), props=(), aux=True)

    def ex_Pass(self, s):
        pass

    def ex_Import(self, s):
        pass

    def ex_ImportFrom(self, s):
        pass

    def ex_Expr(self, s):
        if isinstance(s.value, ast.Constant):
            return  # docstring
        if isinstance(s.value, ast.Yield):
            # generator function under a contract (key `generator`): the values yielded are collected, in order, in
            # the local _yielded, which is the function's result (the body is taken as run to completion)
            cur = self.frame.locals.get('_yielded')
            if cur is None or s.value.value is None:
                raise Unsupported('yield outside a function declared as generator')
            val = self.ev(s.value.value)
            t = cur.t
            if isinstance(val.t, TPkt) and t.elem is TBytes:
                # a packet object yielded where octets are expected: taken as its encoding
                val = self.pkt_bytes(val)
            new = self.opaque_list(V(t, L.l_append(t, cur.z, coerce(val, t.elem).z)))
            self.frame.locals['_yielded'] = new
            return
        self.ev(s.value)

    def ex_Return(self, s):
        raise ReturnEx(self.ev(s.value) if s.value is not None else NONE)

    def ex_Break(self, s):
        raise BreakEx()

    def ex_Continue(self, s):
        raise ContinueEx()

    def ex_Global(self, s):
        raise Unsupported('global statement')

    # ----------------------------------------------------------- assignment
    def ex_Assign(self, s):
        if len(s.targets) == 1 and isinstance(s.targets[0], ast.Attribute) and \
                s.targets[0].attr in ('_logger', '__logger', 'logger') and isinstance(s.value, ast.Call) and \
                ast.unparse(s.value.func).endswith('getLogger'):
            # self._logger = logging.getLogger(...): logging has no effect in the model
            return
        val = self.ev_hinted(s.value, self.list_hint(s.targets[0]) if len(s.targets) == 1 else None)
        for tgt in s.targets:
            self.assign(tgt, val)

    def list_hint(self, tgt):
        '''Element type of a list literal assigned to a local whose (widened) type the contract declares.'''
        fsx = self.frame.fspec
        if isinstance(tgt, ast.Name) and fsx is not None and tgt.id in fsx.d.get('locals', {}):
            from .types import parse_type
            t = parse_type(fsx.d['locals'][tgt.id])
            if isinstance(t, TList):
                return t.elem
        return None

    def ev_hinted(self, node, elem_t):
        if elem_t is not None and isinstance(node, ast.List):
            return self.mk_list([self.ev(e) for e in node.elts], elem_t)
        return self.ev(node)

    def ex_AnnAssign(self, s):
        if s.value is not None:
            self.assign(s.target, self.ev(s.value))

    def ex_AugAssign(self, s):
        load = self.as_load(s.target)
        cur = self.ev(load)
        rhs = self.ev_hinted(s.value, self.list_hint(s.target))
        self.assign(s.target, self.binop(s.op, cur, rhs))

    def as_load(self, tgt):
        n = ast.parse(ast.unparse(tgt), mode='eval').body
        return n

    def assign(self, tgt, val):
        if isinstance(tgt, ast.Name):
            fsx = self.frame.fspec
            if fsx is not None and tgt.id in fsx.d.get('locals', {}) and val.t is not TPy or \
                    (fsx is not None and tgt.id in fsx.d.get('locals', {}) and val.py and val.py[0] in ('emptydict', 'kwdict')):
                # a local with a declared (widened) type, e.g. a dict filled in a loop
                from .types import parse_type
                val = coerce(val, parse_type(fsx.d['locals'][tgt.id]))
            if val.lval is not None and val.lval[0] == 'field':
                nv = V(val.t, val.z, val.lval, val.py)
            else:
                nv = val
            self.frame.locals[tgt.id] = nv
            return
        if isinstance(tgt, (ast.Tuple, ast.List)):
            items = self.tuple_items(val) if not isinstance(val.t, TList) else None
            if items is None:
                raise Unsupported('unpack of list')
            if len(items) != len(tgt.elts):
                self.py_raise('ValueError')
            for t, i in zip(tgt.elts, items):
                self.assign(t, i)
            return
        if isinstance(tgt, ast.Attribute):
            base = self.ev(tgt.value)
            self.set_attr(base, tgt.attr, val)
            return
        if isinstance(tgt, ast.Subscript):
            base = self.ev(tgt.value)
            if isinstance(tgt.slice, ast.Slice):
                self.set_slice(tgt.value, base, tgt.slice, val)
                return
            idx = self.ev(tgt.slice)
            self.set_item(tgt.value, base, idx, val)
            return
        raise Unsupported('assignment target %s' % type(tgt).__name__)

    def set_attr(self, base, attr, val):
        t = base.t
        if isinstance(t, TOpt):
            self.need(z3.Not(t.is_none(base.z)), 'AttributeError')
            return self.set_attr(V(t.inner, t.val(base.z)), attr, val)
        if t is TNone:
            self.py_raise('AttributeError')
        if is_py(base, 'exc'):
            base.py[1].attrs[attr] = val
            return
        if attr in ('_logger', '__logger', 'logger') and isinstance(t, (TRef, TPkt)):
            # the logger attribute of an object: logging has no effect in the model
            return
        if is_py(base, 'ghost'):
            if not self.ghost_ok:
                raise Unsupported('ghost assignment outside ghost code')
            gt = self.spec.ghost.get(attr)
            if gt is None:
                raise Unsupported('ghost.%s not declared' % attr)
            self.st.ghost[attr] = coerce(val, gt)
            return
        if isinstance(t, TRef):
            attr = self.mangle(attr)
            f = self.spec.field(t.cls, attr)
            if f is None:
                raise Unsupported('store to undeclared field %s.%s' % (t.cls, attr))
            self.write_heap(base, (f[0], attr), f[1], val)
            return
        if isinstance(t, TPkt):
            for i, layer in enumerate(t.layers):
                sc = self.pkt_schema(layer)
                if attr in sc.fields:
                    ref = self.pkt_layer_ref(base, i)
                    self.write_heap(ref, ('pkt:' + layer, attr), sc.fields[attr], val)
                    return
            raise Unsupported('store to undeclared packet field %s' % attr)
        raise Unsupported('attribute store on %s' % t)

    def store_back(self, expr, old, new):
        '''Write a mutated container value back to where it lives.'''
        if old.lval is not None and old.lval[0] == 'field':
            _k, ref, key = old.lval
            ft = self.spec.field(key[0], key[1])[1]
            self.write_heap(ref, key, ft, new)
            return
        if isinstance(expr, ast.Name):
            self.frame.locals[expr.id] = new
            return
        if isinstance(expr, (ast.Attribute, ast.Subscript)):
            self.assign(expr, new)
            return
        if isinstance(expr, ast.Call):
            hook = getattr(self, 'store_back_call', None)
            if hook is not None and hook(expr, old, new):
                return
        raise Unsupported('in-place mutation of a temporary container')

    def set_item(self, base_expr, base, idx, val):
        t = base.t
        if is_py(base, 'pktfields'):
            # pkt.fields[name] = v / pkt.overloaded_fields[name] = v: the record field (default None, see pkt_attr)
            i, layer, fn = self.pkt_field_named(base.py[1], idx, 'fields[...] store')
            ft = self.pkt_schema(layer).fields[fn]
            self.write_heap(self.pkt_layer_ref(base.py[1], i), ('pkt:' + layer, fn), ft, coerce(val, ft))
            return
        if isinstance(t, TDict) or base.py == ('emptydict',):
            if base.py == ('emptydict',):
                t = TDict(idx.t, val.t)
                base = coerce(base, t)
            k = self.key_of(idx, t.k)
            v = self.key_of(val, t.v)
            new = V(t, t.mk(z3.Store(t.dom(base.z), k.z, True), z3.Store(t.map(base.z), k.z, v.z)), lval=base.lval)
            self.store_back(base_expr, base, new)
            return
        if isinstance(t, TList):
            n = L.l_len(t, base.z)
            self.nonneg_or_unsupported(idx.z, 'index')
            self.need(idx.z < n, 'IndexError')
            new = self.opaque_list(V(t, L.l_set_at(t, base.z, idx.z, coerce(val, t.elem).z), lval=base.lval))
            self.store_back(base_expr, base, new)
            return
        if is_py(base, 'kwdict') and idx.py and idx.py[0] == 'strlit':
            base.py[1][idx.py[1]] = val
            return
        if isinstance(t, TAny):
            return self.any_setitem(base, idx, val)
        raise Unsupported('item store on %s' % t)

    def set_slice(self, base_expr, base, sl, val):
        '''bytearray slice assignment: within bounds replaces, beyond extends.'''
        from .types import TOpt as _TOpt
        if isinstance(val.t, _TOpt) and val.t.inner is TBytes:
            self.need(z3.Not(val.t.is_none(val.z)), 'TypeError')
            val = V(TBytes, val.t.val(val.z))
        if isinstance(base.t, _TOpt) and base.t.inner is TBytes:
            self.need(z3.Not(base.t.is_none(base.z)), 'TypeError')
            inner = V(TBytes, base.t.val(base.z), lval=base.lval)
            # the store goes back into the optional location
            self._slice_opt_t = base.t
            try:
                return self.set_slice(base_expr, inner, sl, val)
            finally:
                self._slice_opt_t = None
        if base.t is not TBytes or val.t is not TBytes:
            raise Unsupported('slice store on %s' % base.t)
        n = z3.Length(base.z)
        lo = self.ev(sl.lower).z if sl.lower is not None else z3.IntVal(0)
        hi = self.ev(sl.upper).z if sl.upper is not None else n
        self.nonneg_or_unsupported(lo, 'slice bound')
        self.nonneg_or_unsupported(hi, 'slice bound')
        lo2 = z3.If(lo > n, n, lo)
        hi2 = z3.If(hi > n, n, z3.If(hi < lo2, lo2, hi))
        fsx = self.frame.fspec or self.cur_fspec
        if fsx is not None and fsx.d.get('opaque_slice_store'):
            # the contract of this unit says nothing about buffer contents: the result is an unknown octet string
            # of the right length (keeps sequence operations, and with them the external solvers, out of the unit)
            nv = fresh(TBytes, 'buf')
            self.assume(z3.Length(nv.z) == n - (hi2 - lo2) + z3.Length(val.z))
            new = V(TBytes, nv.z, lval=base.lval)
        else:
            new = V(TBytes, z3.Concat(z3.Extract(base.z, 0, lo2), val.z, z3.Extract(base.z, hi2, n - hi2)), lval=base.lval)
        self.store_back(base_expr, base, new)

    def ex_Delete(self, s):
        for tgt in s.targets:
            if isinstance(tgt, ast.Subscript):
                base = self.ev(tgt.value)
                idx = self.ev(tgt.slice)
                t = base.t
                if isinstance(t, TDict):
                    k = self.key_of(idx, t.k)
                    self.need(z3.Select(t.dom(base.z), k.z), 'KeyError')
                    new = V(t, t.mk(z3.Store(t.dom(base.z), k.z, False), t.map(base.z)), lval=base.lval)
                    self.store_back(tgt.value, base, new)
                    continue
            if isinstance(tgt, ast.Name):
                self.frame.locals.pop(tgt.id, None)
                continue
            raise Unsupported('del target')

    # --------------------------------------------------------- control flow
    def ex_If(self, s):
        if self.test(s.test):
            self.exec_block(s.body)
        else:
            self.exec_block(s.orelse)

    def ex_Raise(self, s):
        if s.exc is None:
            if self.handling:
                raise PyExc(self.handling[-1])
            self.py_raise('RuntimeError')
        v = self.ev(s.exc)
        if is_py(v, 'exc'):
            raise PyExc(v.py[1])
        if is_py(v, 'excclass'):
            raise PyExc(ExcVal(v.py[1]))
        if is_py(v, 'class'):
            raise PyExc(self.make_exception(v, [], {}).py[1])
        raise Unsupported('raise of %s' % v)

    def exc_class_names(self, node):
        if node is None:
            return ['BaseException']
        if isinstance(node, ast.Tuple):
            out = []
            for e in node.elts:
                out.extend(self.exc_class_names(e))
            return out
        v = self.ev(node)
        if is_py(v, 'excclass'):
            return [v.py[1]]
        if is_py(v, 'class'):
            return [self.register_exc_class(v.py[2])]
        if is_py(v, 'ext'):
            name = v.py[1]
            return [EXC_ALIAS.get(name, name)]
        raise Unsupported('except clause %s' % ast.unparse(node))

    def ex_Try(self, s):
        try:
            try:
                self.exec_block(s.body)
            except PyExc as pe:
                for h in s.handlers:
                    names = self.exc_class_names(h.type)
                    if any(exc_is_subclass(pe.exc.cls, n) for n in names):
                        if h.name:
                            self.frame.locals[h.name] = Py('exc', pe.exc)
                        self.handling.append(pe.exc)
                        try:
                            self.exec_block(h.body)
                        finally:
                            self.handling.pop()
                        break
                else:
                    raise
            else:
                self.exec_block(s.orelse)
        except (PyExc, ReturnEx, BreakEx, ContinueEx):
            if s.finalbody:
                self.exec_block(s.finalbody)
            raise
        else:
            if s.finalbody:
                self.exec_block(s.finalbody)

    def ex_With(self, s):
        raise Unsupported('with statement')

    def ex_Assert(self, s):
        if not self.test(s.test):
            self.py_raise('AssertionError')

    def ex_FunctionDef(self, s):
        self.frame.locals[s.name] = Py('closure', s, self.frame)

    # ---------------------------------------------------------------- loops
    def loop_spec(self, node=None):
        '''Loop entries of a contract are numbered in source order of the function's for / while statements
        (nested loops after their enclosing loop).  Loops of a function inlined for want of a contract take the
        calling contract's entries in execution order.'''
        owner = self.frame.loops_from or self.frame
        if self.frame.loops_from is None and node is not None and self.frame.fdef is not None:
            order = getattr(self.frame, 'loop_index', None)
            if order is None:
                loops = []

                def visit(n):
                    for c in ast.iter_child_nodes(n):
                        if isinstance(c, (ast.FunctionDef, ast.AsyncFunctionDef, ast.Lambda, ast.ClassDef)):
                            continue
                        if isinstance(c, (ast.For, ast.While)):
                            loops.append(c)
                        visit(c)
                visit(self.frame.fdef)
                order = {id(n): i for i, n in enumerate(loops)}
                self.frame.loop_index = order
            ordn = order.get(id(node))
            if ordn is None:
                ordn = owner.loop_ord
            owner.loop_ord = max(owner.loop_ord, ordn + 1)
        else:
            ordn = owner.loop_ord
            owner.loop_ord += 1
        fs = owner.fspec
        ls = fs.loops.get(ordn) if fs is not None else None
        return ordn, ls

    def ex_While(self, s):
        ordn, ls = self.loop_spec(s)
        if s.orelse:
            raise Unsupported('while-else')
        if ls is None:
            raise Unsupported('loop %d of %s has no invariant' % (ordn, self.frame.name))
        self.cut_loop(ordn, ls, s.body, cond=lambda: self.test(s.test), setup=None)

    def cut_loop(self, ordn, ls, body, cond, setup, after_body=None):
        '''Inductive cut: invariant holds on entry; from an arbitrary state
        satisfying it one iteration re-establishes it; after the loop the
        invariant and the negated guard hold.'''
        lab = 'loop%d' % ordn
        # entry
        self.check_invariant(ls, lab, 'entry')
        # havoc the write set
        locs, fields, ghosts = self.write_set(body, ls)
        self.havoc(locs, fields, ghosts)
        if setup is not None:
            setup()
        self.assume_invariant(ls)
        variant0 = None
        if ls.decreases is not None:
            variant0 = self.spec_eval(ls.decreases).z
        if cond():
            self.cover('%s/%s/body' % (self.unit_id, lab))
            if ls.ghost_begin:
                self.run_ghost(ls.ghost_begin)
            try:
                self.exec_block(body)
            except BreakEx:
                return
            except ContinueEx:
                pass
            if after_body is not None:
                after_body()
            if ls.ghost_end:
                self.run_ghost(ls.ghost_end)
            self.check_invariant(ls, lab, 'preserved')
            if variant0 is not None:
                v1 = self.spec_eval(ls.decreases).z
                self.ob('loop_variant', lab, z3.And(variant0 >= 0, v1 < variant0), props=self.frame.fspec.props if self.frame.fspec else ())
            raise PathEnd()
        # exit: state is the havocked one with invariant and not guard

    def check_invariant(self, ls, lab, when):
        for c in ls.invariant:
            self.ob('loop_inv_' + when, '%s.%s' % (lab, c.label), truthy(self.spec_eval(c.node)), props=c.props, aux=not c.props)

    def assume_invariant(self, ls):
        for c in ls.invariant:
            self.assume(truthy(self.spec_eval(c.node)))

    def havoc(self, locs, fields, ghosts):
        for name in locs:
            old = self.frame.locals.get(name)
            if old is not None and old.t is not TPy:
                self.frame.locals[name] = fresh(old.t, name)
                # (an arbitrary value of its type: list lengths are non-negative, references are allocated ...)
                self.assume_wf(self.frame.locals[name])
        if '*' in fields:
            # the body calls something that may write anything: every heap field seen so far or declared
            # for the schemas, and every ghost variable
            for sname, sc in self.spec.schemas.items():
                for fn, ft in sc.fields.items():
                    self.heap_arr((sname, fn), ft)
            ghosts = set(ghosts) | set(self.st.ghost.keys())
        for ent in fields:
            if isinstance(ent, tuple) and len(ent) == 5 and ent[0] == '@obj' and '*' not in fields:
                _t, sname, fn, recv, lname = ent
                key = (sname, fn)
                if fn in fields or key in fields:
                    continue
                if lname in locs:
                    # the receiver variable is itself assigned in the loop: not one fixed object
                    arr = self.heap_arr(key, self.spec.schemas[sname].fields[fn])
                    self.st.heap[key] = z3.Const(fresh_name('H_%s_%s' % key), arr.sort())
                    continue
                ft = self.spec.schemas[sname].fields[fn]
                arr = self.heap_arr(key, ft)
                cell = z3.Const(fresh_name('Hc_%s_%s' % key), arr.sort().range())
                self.st.heap[key] = z3.Store(arr, recv, cell)
        for key in list(self.st.heap.keys()):
            if '*' in fields or key[1] in fields or key in fields:
                self.st.heap[key] = z3.Const(fresh_name('H_%s_%s' % key), self.st.heap[key].sort())
        for k in fields:
            if isinstance(k, tuple) and k not in self.st.heap:
                pass
        for g in ghosts:
            if g in self.st.ghost:
                self.st.ghost[g] = fresh(self.st.ghost[g].t, 'g_' + g)

    def ex_For(self, s):
        ordn, ls = self.loop_spec(s)
        if s.orelse:
            raise Unsupported('for-else')
        it = self.ev(s.iter)
        # concrete tuples / short concrete sequences are unrolled
        items = None
        if isinstance(it.t, TTuple) or is_py(it, 'pytuple'):
            items = self.tuple_items(it)
        elif is_py(it, 'pylist'):
            items = list(it.py[1])
        if items is not None:
            for item in items:
                self.assign(s.target, item)
                try:
                    self.exec_block(s.body)
                except BreakEx:
                    break
                except ContinueEx:
                    continue
            return
        if ls is None:
            raise Unsupported('loop %d of %s has no invariant' % (ordn, self.frame.name))
        seq = self.iter_seq(it)
        idx_name = '_i%d' % ordn if ordn else '_i'
        self.frame.locals['_seq%d' % ordn if ordn else '_seq'] = seq
        self.frame.locals[idx_name] = mk_int(0)

        def setup():
            i = z3.Int(fresh_name('i'))
            self.frame.locals[idx_name] = mk_int(i)
            self.assume(z3.And(i >= 0, i <= py_len(seq)))

        def cond():
            i = self.frame.locals[idx_name].z
            if self.branch(i < py_len(seq)):
                el = V(seq.t.elem, L.l_get(seq.t, seq.z, i)) if isinstance(seq.t, TList) else V(TInt, seq.z[i])
                self.assume_wf(el)
                self.assign(s.target, self.iter_elem(it, el))
                return True
            return False

        def after_body():
            self.frame.locals[idx_name] = mk_int(self.frame.locals[idx_name].z + 1)

        # mutation of the iterated container inside the body is outside the model
        self.loop_iter_guard.append((it, seq))
        # ... and when the iterated list is a live view into an object (contract flag live_view), the body
        # must not call anything that mutates that object's index (checked at those calls)
        live = self.live_view_receiver(s.iter)
        if live is not None:
            self.live_views.append(live)
        try:
            self.cut_loop(ordn, ls, s.body, cond=cond, setup=setup, after_body=after_body)
        finally:
            self.loop_iter_guard.pop()
            if live is not None:
                self.live_views.pop()

    def live_view_receiver(self, node):
        '''for x in recv.m(...): when the contract of m says it returns a live view of recv's internals
        (also through a local: v = recv.m(...); for x in v).'''
        if isinstance(node, ast.Name):
            v = self.frame.locals.get(node.id)
            if v is not None and v.py and v.py[0] == 'liveview':
                return (v.py[1], v.py[2])
            return None
        if not (isinstance(node, ast.Call) and isinstance(node.func, ast.Attribute)):
            return None
        try:
            recv = self.ev(node.func.value)
        except Unsupported:
            return None
        if not isinstance(recv.t, TRef):
            return None
        for key, fs in self.spec.funcs.items():
            if key.endswith('.' + node.func.attr) and fs.d.get('live_view') and fs.self_type and \
                    self.spec.schema_of_type(recv.t) in fs.self_type:
                return (recv, fs.key)
        return None

    def iter_seq(self, it):
        t = it.t
        if isinstance(t, TList):
            return V(t, it.z)
        if is_py(it, 'range'):
            raise Unsupported('for over symbolic range')
        if is_py(it, 'dictitems'):
            return it.py[1]
        if is_py(it, 'enumerate'):
            return self.iter_seq(it.py[1])
        if t is TBytes:
            return V(TBytes, it.z)
        raise Unsupported('for over %s' % (it.py[0] if t is TPy else t))

    def iter_elem(self, it, el):
        if is_py(it, 'enumerate'):
            i = self.frame.locals['_i'] if '_i' in self.frame.locals else None
            return Py('pytuple', (i, self.iter_elem(it.py[1], el)))
        if is_py(it, 'dictitems'):
            d = it.py[2]
            return Py('pytuple', (el, V(d.t.v, z3.Select(d.t.map(d.z), el.z))))
        return el
