"""Python lists as (length, array) pairs in canonical form.

z3's sequence theory does not combine well with quantified invariants over
list elements (nth over concat needs lemmas the solver does not find), while
array selects are ideal E-matching triggers.  A list value is the datatype
mk(len, arr) with the *canonical-form* convention arr[i] = default for every
i outside [0, len): with it, structural equality of the datatype is exactly
Python list equality.  Every constructor below keeps the convention; symbolic
lists (heap reads, parameters) get it as an assumption (canon()).
Bytes stay z3 sequences of integers.
"""
import z3

_DEFAULTS = {}


def default_of(sort):
    k = str(sort)
    d = _DEFAULTS.get(k)
    if d is None:
        d = _value_of(sort, 0)
        if d is None:
            d = z3.Const('dflt!' + k.replace(' ', '_').replace('(', '_').replace(')', '_'), sort)
        _DEFAULTS[k] = d
    return d


def _value_of(sort, depth):
    '''A closed *value* of the sort where one can be written down (cvc5 accepts only values in
    constant arrays): 0, false, the empty sequence, the first constructor of a datatype ...'''
    if depth > 4:
        return None
    if sort == z3.IntSort():
        return z3.IntVal(0)
    if sort == z3.BoolSort():
        return z3.BoolVal(False)
    if isinstance(sort, z3.SeqSortRef):
        return z3.Empty(sort)
    if isinstance(sort, z3.ArraySortRef):
        r = _value_of(sort.range(), depth + 1)
        return z3.K(sort.domain(), r) if r is not None else None
    if isinstance(sort, z3.DatatypeSortRef):
        for ci in range(sort.num_constructors()):
            c = sort.constructor(ci)
            args = []
            ok = True
            for ai in range(c.arity()):
                a = _value_of(c.domain(ai), depth + 1)
                if a is None:
                    ok = False
                    break
                args.append(a)
            if ok:
                return c(*args) if args else c()
    return None


def l_len(t, z):
    return t.sort().accessor(0, 0)(z)


def l_arr(t, z):
    return t.sort().accessor(0, 1)(z)


def l_mk(t, n, arr):
    return t.sort().constructor(0)(n, arr)


def l_empty(t):
    es = t.elem.sort()
    d = default_of(es)
    if z3.is_const(d) and d.decl().kind() == z3.Z3_OP_UNINTERPRETED:
        # no closed value of this sort: one fixed (uninterpreted) array stands for "all default"
        return l_mk(t, z3.IntVal(0), z3.Const('emptyarr!' + str(es), z3.ArraySort(z3.IntSort(), es)))
    return l_mk(t, z3.IntVal(0), z3.K(z3.IntSort(), d))


def l_get(t, z, i):
    return z3.Select(l_arr(t, z), i)


def l_from_items(t, zs):
    es = t.elem.sort()
    arr = z3.K(z3.IntSort(), default_of(es))
    for k, x in enumerate(zs):
        arr = z3.Store(arr, k, x)
    return l_mk(t, z3.IntVal(len(zs)), arr)


def l_append(t, z, x):
    n = l_len(t, z)
    return l_mk(t, n + 1, z3.Store(l_arr(t, z), n, x))


def l_concat(t, a, b):
    la, lb = l_len(t, a), l_len(t, b)
    i = z3.Int('lc_i')
    d = default_of(t.elem.sort())
    arr = z3.Lambda([i], z3.If(z3.And(i >= 0, i < la), l_get(t, a, i),
                               z3.If(z3.And(i >= la, i < la + lb), l_get(t, b, i - la), d)))
    return l_mk(t, la + lb, arr)


def l_slice(t, z, lo, hi):
    '''z[lo:hi] for lo, hi >= 0 (Python clamping).'''
    n = l_len(t, z)
    lo2 = z3.If(lo > n, n, lo)
    hi2 = z3.If(hi > n, n, hi)
    ln = z3.If(hi2 > lo2, hi2 - lo2, 0)
    i = z3.Int('ls_i')
    d = default_of(t.elem.sort())
    arr = z3.Lambda([i], z3.If(z3.And(i >= 0, i < ln), l_get(t, z, i + lo2), d))
    return l_mk(t, ln, arr)


def l_remove_at(t, z, k):
    n = l_len(t, z)
    i = z3.Int('lr_i')
    d = default_of(t.elem.sort())
    arr = z3.Lambda([i], z3.If(z3.And(i >= 0, i < k), l_get(t, z, i),
                               z3.If(z3.And(i >= k, i < n - 1), l_get(t, z, i + 1), d)))
    return l_mk(t, n - 1, arr)


def l_insert_at(t, z, k, x):
    n = l_len(t, z)
    i = z3.Int('li_i')
    d = default_of(t.elem.sort())
    arr = z3.Lambda([i], z3.If(z3.And(i >= 0, i < k), l_get(t, z, i),
                               z3.If(i == k, x, z3.If(z3.And(i > k, i <= n), l_get(t, z, i - 1), d))))
    return l_mk(t, n + 1, arr)


def l_set_at(t, z, k, x):
    return l_mk(t, l_len(t, z), z3.Store(l_arr(t, z), k, x))


_IX_TYPES = {}     # type key -> (type, index function)
_IX_EMITTED = set()


def ix_fn(t):
    ent = _IX_TYPES.get(t.key)
    if ent is None:
        f = z3.Function('list_ix_' + str(t.sort()), t.sort(), t.elem.sort(), z3.IntSort())
        _IX_TYPES[t.key] = (t, f)
        ent = _IX_TYPES[t.key]
    return ent[1]


def l_contains(t, z, x):
    '''Membership through a witness function instead of an existential: ix(l, x) is the
    position of an occurrence of x in l whenever there is one (choice function; its axiom is
    contains_axioms()).  A hypothesis `x in l` then names a ground index the solver can use,
    and a goal `x in l` is proved by exhibiting any index holding x.'''
    k = ix_fn(t)(z, x)
    return z3.And(k >= 0, k < l_len(t, z), l_get(t, z, k) == x)


def reset_axioms():
    _IX_EMITTED.clear()


def pending_axioms():
    '''Choice-function axioms for the list types used since the last call.'''
    out = []
    for key, (t, f) in list(_IX_TYPES.items()):
        if key in _IX_EMITTED:
            continue
        _IX_EMITTED.add(key)
        l = z3.Const('ax_l_' + str(t.sort()), t.sort())
        x = z3.Const('ax_x_' + str(t.sort()), t.elem.sort())
        i = z3.Int('ax_i')
        sel = l_get(t, l, i)
        k = f(l, x)
        out.append(z3.ForAll([l, x, i], z3.Implies(z3.And(i >= 0, i < l_len(t, l), sel == x),
                                                   z3.And(k >= 0, k < l_len(t, l), l_get(t, l, k) == x)),
                             patterns=[z3.MultiPattern(sel, k)]))
    return out


def shift_lemma_remove(t, old, new, k):
    '''new = old without position k: every other element keeps its value at the shifted position
    (true by construction; stated so that the solver sees the shifted select terms).'''
    j = z3.Int('sl_j')
    sel = l_get(t, old, j)
    return forall([j], z3.Implies(z3.And(j >= 0, j < l_len(t, old), j != k),
                                  l_get(t, new, z3.If(j < k, j, j - 1)) == sel), patterns=[sel])


def canon(t, z):
    '''Canonical-form assumption for a symbolic list value.'''
    i = z3.Int('cf_i')
    d = default_of(t.elem.sort())
    n = l_len(t, z)
    sel = l_get(t, z, i)
    return z3.And(n >= 0, forall([i], z3.Implies(z3.Or(i < 0, i >= n), sel == d), patterns=[sel]))


# ---------------------------------------------------------------------------
# quantifiers with triggers that are checked first (an invalid trigger is an error in z3)

def pattern_ok(e):
    '''Only uninterpreted / select / datatype terms over variables and constants.'''
    kinds = (z3.Z3_OP_SELECT, z3.Z3_OP_UNINTERPRETED, z3.Z3_OP_DT_ACCESSOR, z3.Z3_OP_DT_CONSTRUCTOR, z3.Z3_OP_ANUM)
    if z3.is_var(e) or z3.is_const(e):
        return True
    if not z3.is_app(e) or e.decl().kind() not in kinds:
        return False
    return all(pattern_ok(c) for c in e.children())


def forall(vs, body, patterns=(), multi=()):
    pats = [p for p in patterns if pattern_ok(p)]
    for terms in multi:
        if all(pattern_ok(t) for t in terms):
            pats.append(z3.MultiPattern(*terms))
    if pats:
        return z3.ForAll(vs, body, patterns=pats)
    return z3.ForAll(vs, body)
