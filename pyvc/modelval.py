"""Structured decoding of z3 model values into plain Python data (for replays)."""
import z3

from .types import (TInt, TBool, TNone, TBytes, TStr, TFloat, TAny, TRef, TPkt, TOpt, TUnion, TList, TSet, TDict,
                    TTuple)
from . import lists as L

MAXLEN = 12


def _ev(m, z):
    return m.eval(z, model_completion=True)


def _int(m, z):
    v = _ev(m, z)
    try:
        return v.as_long()
    except Exception:
        return None


def decode(t, z, m, refs=None):
    '''-> JSON-able value; references are returned as {"ref": n, "cls": name} and collected in refs.'''
    if t is TNone:
        return None
    if t is TInt:
        return _int(m, z)
    if t is TBool:
        return z3.is_true(_ev(m, z))
    if t is TStr:
        S = TStr.sort()
        if z3.is_true(_ev(m, S.is_of_int(z))):
            return {'str_of_int': _int(m, S.int_val(z))}
        if z3.is_true(_ev(m, S.is_lit(z))):
            return {'str_lit': _int(m, S.lit_id(z))}
        return {'str_opaque': _int(m, S.opq_id(z))}
    if t is TBytes:
        n = _int(m, z3.Length(z))
        if n is None:
            return None
        n = min(n, 4096)
        out = []
        for i in range(min(n, 64)):
            b = _int(m, z[i])
            out.append((b or 0) % 256)
        return {'bytes_len': n, 'head': out}
    if t is TFloat:
        return {'float': str(_ev(m, z))}
    if isinstance(t, TAny):
        return {'opaque': str(_ev(m, z))}
    if isinstance(t, TOpt):
        if z3.is_true(_ev(m, t.is_none(z))):
            return None
        return decode(t.inner, t.val(z), m, refs)
    if isinstance(t, (TRef, TPkt)):
        r = _int(m, z)
        cls = t.cls if isinstance(t, TRef) else 'pkt:' + t.layers[0]
        if refs is not None and r is not None:
            refs.append((cls, r, t))
        return {'ref': r, 'cls': cls}
    if isinstance(t, TList):
        n = _int(m, L.l_len(t, z))
        if n is None or n < 0:
            return []
        return [decode(t.elem, L.l_get(t, z, i), m, refs) for i in range(min(n, MAXLEN))] + \
               ([{'truncated_len': n}] if n > MAXLEN else [])
    if isinstance(t, TSet):
        return {'set': _array_true_keys(t.elem, z, m, refs)}
    if isinstance(t, TDict):
        keys = _array_true_keys(t.k, t.dom(z), m, None, raw=True)
        out = []
        for kz in keys[:MAXLEN]:
            out.append([decode(t.k, kz, m, refs), decode(t.v, z3.Select(t.map(z), kz), m, refs)])
        return {'dict': out}
    if isinstance(t, TUnion):
        for n, at in t.alts:
            if z3.is_true(_ev(m, t.is_(n, z))):
                if at is TNone:
                    return {'alt': n}
                return {'alt': n, 'val': decode(at, t.get(n, z), m, refs)}
        return None
    if isinstance(t, TTuple):
        return {nm: decode(et, t.get(i, z), m, refs) for i, (nm, et) in enumerate(zip(t.names, t.elems))}
    return {'opaque': str(_ev(m, z))[:80]}


def _array_true_keys(kt, arr, m, refs, raw=False):
    '''Keys at which a Bool-valued array is true in the model (finite part: store chain over a constant).'''
    v = _ev(m, arr)
    keys = []
    default = None
    cur = v
    guard = 0
    while guard < 64:
        guard += 1
        if z3.is_store(cur):
            a, k, val = cur.children()
            keys.append((k, z3.is_true(val)))
            cur = a
        elif z3.is_const_array(cur):
            default = z3.is_true(cur.children()[0])
            break
        elif z3.is_as_array(cur) or z3.is_lambda(cur):
            break
        else:
            break
    seen = set()
    out = []
    for k, isin in keys:
        s = str(k)
        if s in seen:
            continue
        seen.add(s)
        if isin:
            out.append(k)
    if raw:
        return out
    return [decode(kt, k, m, refs) for k in out] + ([{'default_member': True}] if default else [])
