"""pyvc type layer: static sorts of Python values and their z3 encodings.

Every symbolic value is a pair (type, z3 expression).  Types are structural
and hash-consed by their key; each maps to exactly one z3 sort.
"""
import z3

_SORTS = {}


class T:
    key = None

    def __eq__(self, other):
        return isinstance(other, T) and self.key == other.key

    def __hash__(self):
        return hash(self.key)

    def __repr__(self):
        return str(self.key)

    def sort(self):
        s = _SORTS.get(self.key)
        if s is None:
            s = self._mk_sort()
            _SORTS[self.key] = s
        return s

    def _mk_sort(self):
        raise NotImplementedError(self.key)


class _TInt(T):
    key = 'Int'

    def _mk_sort(self):
        return z3.IntSort()


class _TBool(T):
    key = 'Bool'

    def _mk_sort(self):
        return z3.BoolSort()


class _TNone(T):
    key = 'None'

    def _mk_sort(self):
        # unit: encoded as Bool (value irrelevant)
        return z3.BoolSort()


class _TBytes(T):
    key = 'Bytes'

    def _mk_sort(self):
        return z3.SeqSort(z3.IntSort())


class _TStr(T):
    '''Python str as an algebraic value: literal(id) | of_int(n) | opaque(k).
    Structural equality gives injectivity of str(int) and distinctness of
    literals for free; anything else (format results, EIDs) is opaque.'''
    key = 'Str'

    def _mk_sort(self):
        d = z3.Datatype('PyStr')
        d.declare('lit', ('lit_id', z3.IntSort()))
        d.declare('of_int', ('int_val', z3.IntSort()))
        d.declare('opaque', ('opq_id', z3.IntSort()))
        return d.create()


class _TFloat(T):
    key = 'Float'

    def _mk_sort(self):
        return z3.DeclareSort('PyFloat')


TInt = _TInt()
TBool = _TBool()
TNone = _TNone()
TBytes = _TBytes()
TStr = _TStr()
TFloat = _TFloat()


class TAny(T):
    '''Opaque external value (socket, certificate, datetime, ...).'''

    def __init__(self, name):
        self.name = name
        self.key = ('Any', name)

    def _mk_sort(self):
        return z3.DeclareSort('Any_' + self.name)


class TClass(T):
    '''A Python class object, encoded as an integer tag.'''
    key = 'Class'

    def _mk_sort(self):
        return z3.IntSort()


TClassT = TClass()


class TFunc(T):
    '''A callable (callback) value: integer tag.'''
    key = 'Func'

    def _mk_sort(self):
        return z3.IntSort()


TFuncT = TFunc()


class TRef(T):
    def __init__(self, cls):
        self.cls = cls
        self.key = ('Ref', cls)

    def _mk_sort(self):
        return z3.IntSort()


class TPkt(T):
    '''A scapy packet: reference to the first layer object, with the static
    list of layer classes.'''

    def __init__(self, layers):
        self.layers = tuple(layers)
        self.key = ('Pkt',) + self.layers

    def _mk_sort(self):
        return z3.IntSort()


def _tname(t):
    k = t.key
    if isinstance(k, tuple):
        return '_'.join(_tname_k(x) for x in k)
    return str(k)


def _tname_k(x):
    if isinstance(x, tuple):
        return '_'.join(_tname_k(y) for y in x)
    return str(x).replace(' ', '').replace('.', '_')


class TOpt(T):
    def __init__(self, inner):
        assert not isinstance(inner, TOpt) and inner is not TNone, inner
        self.inner = inner
        self.key = ('Opt', inner.key)

    def _mk_sort(self):
        n = _tname(self.inner)
        d = z3.Datatype('Opt_' + n)
        d.declare('none_' + n)
        d.declare('some_' + n, ('val_' + n, self.inner.sort()))
        return d.create()

    def none(self):
        return self.sort().constructor(0)()

    def some(self, z):
        return self.sort().constructor(1)(z)

    def is_none(self, z):
        return self.sort().recognizer(0)(z)

    def val(self, z):
        return self.sort().accessor(1, 0)(z)


class TUnion(T):
    '''Small tagged union of alternatives [(name, type)] — e.g. the tri-state
    None | False | value.'''

    def __init__(self, name, alts):
        self.name = name
        self.alts = tuple(alts)
        self.key = ('Union', name, tuple((n, t.key) for n, t in alts))

    def _mk_sort(self):
        d = z3.Datatype('U_' + self.name)
        for n, t in self.alts:
            if t is TNone:
                d.declare('%s_%s' % (self.name, n))
            else:
                d.declare('%s_%s' % (self.name, n), ('%s_v_%s' % (self.name, n), t.sort()))
        return d.create()

    def alt_index(self, name):
        for i, (n, _t) in enumerate(self.alts):
            if n == name:
                return i
        raise KeyError(name)

    def mk(self, name, z=None):
        c = self.sort().constructor(self.alt_index(name))
        return c() if z is None else c(z)

    def is_(self, name, z):
        return self.sort().recognizer(self.alt_index(name))(z)

    def get(self, name, z):
        return self.sort().accessor(self.alt_index(name), 0)(z)


class TList(T):
    def __init__(self, elem):
        self.elem = elem
        self.key = ('List', elem.key)

    def _mk_sort(self):
        # (length, array) pair in canonical form -- see lists.py
        n = 'List_' + _tname(self.elem)
        d = z3.Datatype(n)
        d.declare('mk_' + n, ('len_' + n, z3.IntSort()), ('arr_' + n, z3.ArraySort(z3.IntSort(), self.elem.sort())))
        return d.create()


class TSet(T):
    def __init__(self, elem):
        self.elem = elem
        self.key = ('Set', elem.key)

    def _mk_sort(self):
        return z3.ArraySort(self.elem.sort(), z3.BoolSort())

    def empty(self):
        return z3.K(self.elem.sort(), z3.BoolVal(False))


class TDict(T):
    def __init__(self, k, v):
        self.k = k
        self.v = v
        self.key = ('Dict', k.key, v.key)

    def _mk_sort(self):
        n = 'Dict_' + _tname(self.k) + '__' + _tname(self.v)
        d = z3.Datatype(n)
        d.declare('mk_' + n, ('dom_' + n, z3.ArraySort(self.k.sort(), z3.BoolSort())),
                  ('map_' + n, z3.ArraySort(self.k.sort(), self.v.sort())))
        return d.create()

    def dom(self, z):
        return self.sort().accessor(0, 0)(z)

    def map(self, z):
        return self.sort().accessor(0, 1)(z)

    def mk(self, dom, mp):
        return self.sort().constructor(0)(dom, mp)

    def empty_dom(self):
        return z3.K(self.k.sort(), z3.BoolVal(False))


class TTuple(T):
    def __init__(self, elems, names=None, name=None):
        self.elems = tuple(elems)
        self.names = tuple(names) if names else tuple('f%d' % i for i in range(len(self.elems)))
        self.name = name
        self.key = ('Tuple', name, tuple(e.key for e in self.elems), self.names)

    def _mk_sort(self):
        nm = self.name or ('Tup_' + '_'.join(_tname(e) for e in self.elems))
        d = z3.Datatype(nm)
        d.declare('mk_' + nm, *[(nm + '_' + n, e.sort()) for n, e in zip(self.names, self.elems)])
        return d.create()

    def mk(self, *zs):
        return self.sort().constructor(0)(*zs)

    def get(self, i, z):
        return self.sort().accessor(0, i)(z)

    def index_of(self, name):
        return self.names.index(name)


# ---------------------------------------------------------------------------
# type expression parser for contract schemas: "Opt[Ref[BundleItem]]" etc.

NAMED = {}


def register_named(name, t):
    NAMED[name] = t


def parse_type(s):
    s = s.strip()
    import ast
    node = ast.parse(s, mode='eval').body
    return _pt(node)


def _pt(n):
    import ast
    if isinstance(n, ast.Name):
        base = {'Int': TInt, 'Bool': TBool, 'None': TNone, 'Bytes': TBytes, 'Str': TStr,
                'Float': TFloat, 'Class': TClassT, 'Func': TFuncT}
        if n.id in base:
            return base[n.id]
        if n.id in NAMED:
            return NAMED[n.id]
        raise ValueError('unknown type ' + n.id)
    if isinstance(n, ast.Constant) and n.value is None:
        return TNone
    if isinstance(n, ast.Subscript):
        head = n.value.id
        arg = n.slice
        args = list(arg.elts) if isinstance(arg, ast.Tuple) else [arg]
        if head == 'Opt':
            return TOpt(_pt(args[0]))
        if head == 'List':
            return TList(_pt(args[0]))
        if head == 'Set':
            return TSet(_pt(args[0]))
        if head == 'Dict':
            return TDict(_pt(args[0]), _pt(args[1]))
        if head == 'Tuple':
            return TTuple([_pt(a) for a in args])
        if head == 'Ref':
            return TRef(_name(args[0]))
        if head == 'Pkt':
            return TPkt([_name(a) for a in args])
        if head == 'Any':
            return TAny(_name(args[0]))
        raise ValueError('unknown type constructor ' + head)
    raise ValueError('bad type expr')


def _name(n):
    import ast
    if isinstance(n, ast.Name):
        return n.id
    if isinstance(n, ast.Attribute):
        return _name(n.value) + '.' + n.attr
    if isinstance(n, ast.Constant):
        return str(n.value)
    raise ValueError('bad name')
