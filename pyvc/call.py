"""Call dispatch: repo functions (by contract or inlined), D-Bus signals,
packet constructors, exception constructors, externs."""
import ast
import os
import sys
import z3

from .sym import (V, Py, is_py, NONE, TPy, Unsupported, mk_int, mk_bool, fresh, fresh_name, truthy, coerce,
                  concrete_int, class_tag, func_tag, opt_wrap)
from .types import (TInt, TBool, TNone, TBytes, TStr, TRef, TPkt, TOpt, TList, TSet, TDict, TTuple, TAny,
                    TFuncT, TClassT, parse_type, NAMED)
from .core import PyExc, ExcVal, PathEnd, ReturnEx, BreakEx, ContinueEx, EXC_PARENT
from .program import const_eval


class Frame:
    def __init__(self, name, module, cls, fdef, fspec=None):
        self.name = name
        self.module = module
        self.cls = cls
        self.fdef = fdef
        self.fspec = fspec
        self.locals = {}
        self.loop_ord = 0
        self.loops_from = None     # frame whose contract numbers the loops (functions inlined for want of a contract)


LOG_NAMES = {'_logger', 'LOGGER', 'logger', '__logger', '_Messenger__logger'}
LOG_METHODS = {'debug', 'info', 'warning', 'error', 'exception', 'critical', 'log'}


class CallMixin:

    def is_logging_call(self, node):
        f = node.func
        if isinstance(f, ast.Attribute) and f.attr in LOG_METHODS:
            b = f.value
            if isinstance(b, ast.Name) and b.id in LOG_NAMES:
                return True
            if isinstance(b, ast.Attribute) and b.attr in LOG_NAMES:
                return True
        return False

    def eval_args(self, node):
        args = []
        kwargs = {}
        for a in node.args:
            if isinstance(a, ast.Starred):
                v = self.ev(a.value)
                args.extend(self.tuple_items(v))
            else:
                args.append(self.ev(a))
        for k in node.keywords:
            if k.arg is None:
                v = self.ev(k.value)
                if not is_py(v, 'kwdict'):
                    raise Unsupported('** of non-literal dict')
                kwargs.update(v.py[1])
            else:
                kwargs[k.arg] = self.ev(k.value)
        return args, kwargs

    def call(self, node):
        if self.is_logging_call(node):
            if not self.spec_mode:
                for a in node.args:
                    self.ev_soft(a)
            return NONE
        if self.spec_mode:
            r = self.spec_call(node)
            if r is not None:
                return r
        fv = self.ev(node.func)
        args, kwargs = self.eval_args(node)
        return self.apply(fv, args, kwargs, node)

    def apply(self, fv, args, kwargs, node=None):
        if fv.t is TPy:
            kind = fv.py[0]
            if kind == 'bound':
                _k, selfv, ci, fdef = fv.py
                return self.call_repo(ci.module, ci, fdef, [selfv] + args, kwargs, node)
            if kind == 'func':
                _k, module, ci, fdef = fv.py
                return self.call_repo(module, ci, fdef, args, kwargs, node)
            if kind == 'closure':
                _k, fdef, frame = fv.py
                return self.inline_call(frame.module, frame.cls, fdef, args, kwargs, closure=frame.locals)
            if kind == 'lambda':
                _k, lnode, closure, frame = fv.py
                return self.call_lambda(lnode, closure, frame, args)
            if kind == 'builtin':
                return self.call_builtin(fv.py[1], args, kwargs, node)
            if kind == 'boundbuiltin':
                return self.call_method_builtin(fv.py[1], fv.py[2], args, kwargs, node)
            if kind == 'class':
                return self.construct(fv, args, kwargs, node)
            if kind == 'excclass':
                return Py('exc', ExcVal(fv.py[1], args))
            if kind == 'pktmethod':
                return self.call_pkt_method(fv.py[1], fv.py[2], args, kwargs, node)
            if kind in ('ext', 'extmethod', 'anyattr', 'global', 'classattr'):
                return self.call_extern(fv, args, kwargs, node)
            if kind == 'namedtype':
                return self.construct_named(fv.py[1], args, kwargs)
            if kind == 'pktfields_m':
                pkt, meth = fv.py[1], fv.py[2]
                if meth == 'get' and args:
                    i, layer, fn = self.pkt_field_named(pkt, args[0], 'fields.get')
                    ft = self.pkt_schema(layer).fields[fn]
                    v = self.read_heap(self.pkt_layer_ref(pkt, i), ('pkt:' + layer, fn), ft)
                    if len(args) > 1 and args[1].t is not TNone:
                        raise Unsupported('fields.get with a default other than None')
                    return v
                raise Unsupported('packet fields method %s' % meth)
            if kind == 'extobj':
                hook = self.spec.callbacks.get('extobj_call')
                r = hook(self, fv, args, kwargs) if hook is not None else None
                if r is None:
                    raise Unsupported('call of %s' % (fv.py[1:],))
                return r
            raise Unsupported('call of %s' % kind)
        if isinstance(fv.t, TOpt) and fv.t.inner is TFuncT:
            self.need(z3.Not(fv.t.is_none(fv.z)), 'TypeError')
            return self.call_callback(V(TFuncT, fv.t.val(fv.z)), args, node)
        if fv.t is TFuncT:
            return self.call_callback(fv, args, node)
        if isinstance(fv.t, TRef):
            # an instance of a repository class with __call__
            sc = self.spec.schemas.get(fv.t.cls)
            if sc is not None and sc.pyclass is not None:
                found = self.prog.find_method(sc.pyclass[0], sc.pyclass[1], '__call__')
                if found is not None:
                    return self.call_repo(found[0].module, found[0], found[1], [fv] + args, kwargs, node)
        raise Unsupported('call of value of type %s' % fv.t)

    # -------------------------------------------------------------- repo code
    def func_key(self, module, ci, fdef):
        if ci is not None:
            return '%s:%s.%s' % (module.name, ci.qualname, fdef.name)
        return '%s:%s' % (module.name, fdef.name)

    def decorator_info(self, fdef):
        '''-> ('signal', sig) | ('method', in_sig, out_sig) | None'''
        for d in fdef.decorator_list:
            if isinstance(d, ast.Call):
                txt = ast.unparse(d.func)
                if txt.endswith('service.signal') or txt == 'signal':
                    sig = ''
                    for k in d.keywords:
                        if k.arg == 'signature':
                            sig = const_eval(k.value)
                    return ('signal', sig)
                if txt.endswith('service.method') or txt == 'method':
                    isig = osig = ''
                    for k in d.keywords:
                        if k.arg == 'in_signature':
                            isig = const_eval(k.value)
                        if k.arg == 'out_signature':
                            osig = const_eval(k.value)
                    return ('method', isig, osig)
        return None

    def call_repo(self, module, ci, fdef, args, kwargs, node):
        key = self.func_key(module, ci, fdef)
        dec = self.decorator_info(fdef)
        if dec is not None and dec[0] == 'signal':
            return self.emit_signal(module, ci, fdef, dec[1], args, kwargs)
        fs = self.spec.funcs.get(key)
        if self.spec_mode:
            raise Unsupported('call of program function %s in a specification' % key)
        if fs is not None and not (self.cur_fspec is not None and key in self.cur_fspec.inline_here) \
                and not (key == self.cur_key and self.depth == 0 and False):
            return self.call_contract(fs, module, ci, fdef, args, kwargs)
        if key in self.spec.inline or (self.cur_fspec is not None and key in self.cur_fspec.inline_here):
            return self.inline_call(module, ci, fdef, args, kwargs)
        if ci is not None and self.is_exception_class(ci) and fdef.name == '__init__':
            return self.inline_call(module, ci, fdef, args, kwargs)
        if fdef is not None and not self.is_generator(fdef) and self.depth < 4:
            # a repository function nobody wrote a contract for (typically a method extracted from a verified
            # one): its body is executed in place; loops inside it take the calling contract's loop entries in
            # execution order
            self.notes.append('inlined for want of a contract: %s' % key)
            return self.inline_call(module, ci, fdef, args, kwargs, loops_from=self.frame.loops_from or self.frame)
        raise Unsupported('call of %s: no contract and not listed INLINE' % key)

    def is_generator(self, fdef):
        for n in ast.walk(fdef):
            if isinstance(n, (ast.Yield, ast.YieldFrom)):
                return True
        return False

    def bind_params(self, fdef, args, kwargs, defaults_frame=None):
        a = fdef.args
        names = [x.arg for x in a.posonlyargs + a.args]
        bound = {}
        if len(args) > len(names) and a.vararg is None:
            self.py_raise('TypeError')
        for n, v in zip(names, args):
            bound[n] = v
        if a.vararg is not None:
            bound[a.vararg.arg] = Py('pytuple', tuple(args[len(names):]))
        for k, v in kwargs.items():
            if k in names or k in [x.arg for x in a.kwonlyargs]:
                if k in bound:
                    self.py_raise('TypeError')
                bound[k] = v
            elif a.kwarg is not None:
                bound.setdefault(a.kwarg.arg, Py('kwdict', {}))
                bound[a.kwarg.arg].py[1][k] = v
            else:
                self.py_raise('TypeError')
        if a.kwarg is not None and a.kwarg.arg not in bound:
            bound[a.kwarg.arg] = Py('kwdict', {})
        nd = len(a.defaults)
        for i, n in enumerate(names):
            if n not in bound:
                di = i - (len(names) - nd)
                if di < 0:
                    self.py_raise('TypeError')
                bound[n] = self.ev(a.defaults[di])
        for x, d in zip(a.kwonlyargs, a.kw_defaults):
            if x.arg not in bound:
                if d is None:
                    self.py_raise('TypeError')
                bound[x.arg] = self.ev(d)
        return bound

    def inline_call(self, module, ci, fdef, args, kwargs, closure=None, loops_from=None):
        if self.depth > 12:
            raise Unsupported('inline depth exceeded at %s' % fdef.name)
        bound = self.bind_params(fdef, args, kwargs)
        fr = Frame(fdef.name, module, ci, fdef, None)
        fr.loops_from = loops_from
        if closure:
            fr.locals.update(closure)
        fr.locals.update(bound)
        saved = self.frame
        self.frame = fr
        self.depth += 1
        try:
            try:
                self.exec_block(fdef.body)
                return NONE
            except ReturnEx as r:
                return r.value
        finally:
            self.frame = saved
            self.depth -= 1

    def call_lambda(self, lnode, closure, frame, args):
        fr = Frame('<lambda>', frame.module, frame.cls, None, None)
        fr.locals.update(closure)
        for p, v in zip([x.arg for x in lnode.args.args], args):
            fr.locals[p] = v
        saved = self.frame
        self.frame = fr
        try:
            return self.ev(lnode.body)
        finally:
            self.frame = saved

    # ------------------------------------------------------ contract at call
    def call_contract(self, fs, module, ci, fdef, args, kwargs):
        bound = self.bind_params(fdef, args, kwargs)
        # type the arguments as the callee declares them
        try:
            case = self.select_case(fs, fdef, bound)
        except Unsupported:
            fb = fs.d.get('fallback')
            if fb is None:
                raise
            # no typed case of the callee accepts these arguments (e.g. an opaque decoded value where the cases give
            # shapes): the contract's `fallback` -- an ASSUMED contract for all other shapes, listed as such -- is used
            from .spec import FuncSpec
            fs2 = getattr(fs, '_fallback_spec', None)
            if fs2 is None:
                d2 = dict(fb)
                d2.setdefault('self', fs.self_type)
                d2.setdefault('props', list(fs.props))
                fs2 = FuncSpec(fs.key, d2)
                fs._fallback_spec = fs2
            self.notes.append('assumed fallback contract used for a call of %s' % fs.key)
            fs = fs2
            case = None
        ptypes = self.param_types(fs, fdef, case=case)
        for n, t in ptypes.items():
            if isinstance(t, str):
                continue
            if n in bound and bound[n].t is not TPy:
                bv = bound[n]
                if isinstance(bv.t, TOpt) and not isinstance(t, (TOpt,)) and bv.t.inner == t:
                    # the contract wants a value: the caller must know it is not None
                    self.ob('call_pre', '%s@%s.arg_%s_not_None' % (self.short(fs.key), self.frame.name, n),
                            z3.Not(bv.t.is_none(bv.z)), props=fs.props, aux=not fs.props)
                    bound[n] = V(t, bv.t.val(bv.z))
                try:
                    bound[n] = coerce(bound[n], t)
                except Unsupported:
                    raise Unsupported('argument %s of %s: have %s, contract says %s' % (n, fs.key, bound[n].t, t))
        self.callee_keys.add(fs.key)
        if fs.d.get('mutates_live_view') and 'self' in bound:
            # the caller is iterating a live view (for x in recv.m(): ...) of an object this call restructures:
            # Python's list iterator would skip or repeat elements -- outside the value model of lists, so it is
            # an obligation that the receiver is not one being iterated
            for (recv, via) in getattr(self, 'live_views', []):
                self.ob('call_pre', '%s@%s.not_while_iterating_%s' % (self.short(fs.key), self.frame.name,
                                                                       via.rsplit('.', 1)[-1]),
                        bound['self'].z != recv.z, props=fs.props, aux=not fs.props)
        pre = self.st.copy()
        pre_locals = dict(bound)
        # requires
        env = dict(bound)
        for c in fs.requires:
            g = truthy(self.spec_eval(c.node, env, old_state=pre, old_locals=pre_locals))
            self.ob('call_pre', '%s@%s.%s' % (self.short(fs.key), self.frame.name, c.label), g,
                    props=c.props or fs.props, aux=not (c.props or fs.props))
        # a callee verified under the class invariant: the caller establishes it, and gets it back
        cinvs = []
        if fs.handler and 'self' in bound:
            sch = fs.inv_schema or self.spec.schema_of_type(bound['self'].t)
            cinvs = self.spec.all_invariants(sch) if sch else []
            for c in cinvs:
                g = truthy(self.spec_eval(c.node, env, old_state=pre, old_locals=pre_locals))
                self.ob('call_pre', '%s@%s.inv.%s' % (self.short(fs.key), self.frame.name, c.label), g,
                        props=c.props, aux=not c.props)
        # exceptional outcomes
        for exc, rs in fs.raises.items():
            if rs.when is not None:
                w = truthy(self.spec_eval(rs.when, env, old_state=pre, old_locals=pre_locals))
            else:
                w = z3.BoolVal(True)
            if rs.iff:
                take = self.branch(w)
            else:
                take = self.branch(z3.And(w, z3.Bool(fresh_name('raises_' + exc.replace('.', '_')))))
            if take:
                self.apply_modifies(rs.modifies if rs.modifies is not None else (case or {}).get('modifies', fs.modifies))
                for c in list(rs.ensures) + ([] if fs.no_inv_ensures else cinvs):
                    self.assume(truthy(self.spec_eval(c.node, env, old_state=pre, old_locals=pre_locals)))
                ev = ExcVal(exc)
                for an, anode in rs.attrs.items():
                    ev.attrs[an] = self.spec_eval(anode, env, old_state=pre, old_locals=pre_locals)
                raise PyExc(ev)
        # normal outcome
        if fs.d.get('modifies_self_only'):
            # make sure the arrays about to be havocked exist in the pre-state (they are created on first use)
            for m in (case or {}).get('modifies', fs.modifies):
                if not m.startswith('ghost.') and m != '*':
                    sch, fld = m.split('.', 1)
                    f = self.spec.field(sch, fld)
                    if f is not None:
                        self.heap_arr((f[0], fld), f[1])
        heap_before = dict(self.st.heap)
        self.apply_modifies((case or {}).get('modifies', fs.modifies))
        if fs.d.get('modifies_self_only') and 'self' in bound:
            # object-granular frame: of the fields named, only those of `self` may have changed
            sz = bound['self'].z
            for key, new in self.st.heap.items():
                old = heap_before.get(key)
                if old is None or new.eq(old):
                    continue
                r = z3.Int(fresh_name('fo'))
                self.assume(z3.ForAll([r], z3.Implies(r != sz, z3.Select(new, r) == z3.Select(old, r)),
                                      patterns=[z3.Select(new, r)]))
        rts = (case or {}).get('returns', fs.returns)
        rt = parse_type(rts) if rts else TNone
        result = fresh(rt, 'ret_' + fdef.name)
        if fs.d.get('live_view') and 'self' in bound and result.py is None:
            # the list returned is a live view of the receiver's internals: remembered with the value, so that a
            # loop over a local holding it is known to iterate the receiver's own list
            result.py = ('liveview', bound['self'], fs.key)
        env['result'] = result
        if rt is not TNone:
            self.assume_wf(result)
        extra = fs.case_ensures.get((case or {}).get('name'), [])
        for c in list(fs.ensures) + list(extra) + ([] if fs.no_inv_ensures else cinvs):
            self.assume(truthy(self.spec_eval(c.node, env, old_state=pre, old_locals=pre_locals)))
        return result

    def select_case(self, fs, fdef, bound):
        '''For contracts with typed cases: the first case whose parameter
        types accept the actual arguments.'''
        if len(fs.cases) <= 1 and not fs.cases[0].get('params'):
            return None
        for case in fs.cases:
            ok = True
            for n, ts in case.get('params', {}).items():
                if n not in bound:
                    continue
                v = bound[n]
                if ts.startswith('Ext['):
                    if not (is_py(v, 'ext') and v.py[1] == ts[4:-1]):
                        ok = False
                    continue
                if ts == 'AnyPkt':
                    continue
                if ts.startswith('Class['):
                    # a repository class passed as a value (e.g. a block data class used as an index key)
                    if not (is_py(v, 'class') and v.py[1] == ts[6:-1]):
                        ok = False
                    continue
                if ts.startswith('PyDict{'):
                    # a dict display with exactly the keys the case names
                    from .program import const_eval as _ce
                    want = sorted(_ce(k) for k in ast.parse(ts[6:], mode='eval').body.keys)
                    if not (is_py(v, 'pydict') and sorted(concrete_int(k.z) for k, _x in v.py[1]) == want):
                        ok = False
                    continue
                t = parse_type(ts)
                if isinstance(t, TPkt):
                    if not (isinstance(v.t, TPkt) and v.t.layers[:len(t.layers)] == t.layers):
                        ok = False
                    continue
                try:
                    coerce(v, t)
                except Unsupported:
                    ok = False
            if ok:
                return case
        raise Unsupported('no case of %s accepts the arguments' % fs.key)

    def apply_modifies(self, mods):
        for m in mods:
            if m.startswith('ghost.'):
                g = m[6:]
                if g in self.st.ghost:
                    self.st.ghost[g] = fresh(self.st.ghost[g].t, 'g_' + g)
                continue
            if m == '*':
                for sname, sc in self.spec.schemas.items():
                    for fn, ft in sc.fields.items():
                        self.heap_arr((sname, fn), ft)
                for key in list(self.st.heap.keys()):
                    self.st.heap[key] = z3.Const(fresh_name('H_%s_%s' % key), self.st.heap[key].sort())
                    self.written.add(key)
                for g in list(self.st.ghost.keys()):
                    self.st.ghost[g] = fresh(self.st.ghost[g].t, 'g_' + g)
                continue
            sch, fld = m.split('.', 1)
            f = self.spec.field(sch, fld)
            if f is None:
                raise Unsupported('modifies names unknown field %s' % m)
            key = (f[0], fld)
            arr = self.heap_arr(key, f[1])
            self.st.heap[key] = z3.Const(fresh_name('H_%s_%s' % key), arr.sort())
            self.written.add(key)
        # allocation inside the callee: anything it allocated is older than what we allocate next
        self.st.alloc_k += 1

    def short(self, key):
        return key.split(':', 1)[1]

    # ----------------------------------------------------------------- signals
    def emit_signal(self, module, ci, fdef, sig, args, kwargs):
        from .dbus_sig import split_signature, conforms
        bound = self.bind_params(fdef, args, kwargs)
        names = [x.arg for x in fdef.args.args][1:]
        parts = split_signature(sig)
        if len(parts) != len(names):
            raise Unsupported('signal %s: signature/arity mismatch' % fdef.name)
        ok = []
        for n, p in zip(names, parts):
            ok.append(conforms(self, bound[n], p))
        self.ob('dbus_signature', '%s@%s' % (fdef.name, self.frame.name), z3.And(*ok) if ok else z3.BoolVal(True),
                props=('C18',), assume_after=True)
        hook = self.spec.callbacks.get('signal')
        if hook is not None:
            hook(self, fdef.name, [bound[n] for n in names])
        # the signal body (usually pass / logging) runs too
        return self.inline_call(module, ci, fdef, [bound['self']] + [bound[n] for n in names], {})

    # ------------------------------------------------------------ constructors
    def is_exception_class(self, ci):
        name = self.register_exc_class(ci)
        return name is not None

    def register_exc_class(self, ci):
        q = ci.module.name + '.' + ci.qualname
        short = ci.qualname
        if short in EXC_PARENT:
            return short
        for b in ci.bases:
            base = b.split('.')[-1]
            full = b
            if full in EXC_PARENT or base in EXC_PARENT:
                EXC_PARENT[short] = full if full in EXC_PARENT else base
                return short
            r = self.prog.resolve_class_expr(ci.module, b)
            if r is not None:
                p = self.register_exc_class(r)
                if p is not None:
                    EXC_PARENT[short] = p
                    return short
        return None

    def make_exception(self, clsv, args, kwargs):
        ci = clsv.py[2]
        name = self.register_exc_class(ci)
        ev = ExcVal(name, args)
        selfv = Py('exc', ev)
        found = self.prog.find_method(ci.module.name, ci.qualname, '__init__')
        if found is not None:
            self.inline_call(found[0].module, found[0], found[1], [selfv] + args, kwargs)
        return selfv

    def construct(self, clsv, args, kwargs, node):
        ci = clsv.py[2]
        if self.is_exception_class(ci):
            return self.make_exception(clsv, args, kwargs)
        # scapy packet class?
        sc = self.spec.schemas.get('pkt:' + ci.qualname)
        if sc is not None:
            return self.construct_pkt(ci, sc, args, kwargs)
        sc = self.spec.schema_for_pyclass(ci.module.name, ci.qualname)
        if sc is not None:
            return self.construct_obj(ci, sc, args, kwargs)
        hook = self.spec.callbacks.get('construct')
        if hook is not None:
            r = hook(self, ci, args, kwargs)
            if r is not None:
                return r
        raise Unsupported('constructor of %s' % ci.qualname)

    def construct_obj(self, ci, sc, args, kwargs):
        ref = V(TRef(sc.name), self.new_ref())
        # dataclass-like schemas: fields from keywords / defaults
        found = self.prog.find_method(ci.module.name, ci.qualname, '__init__')
        if found is not None:
            key = self.func_key(found[0].module, found[0], found[1])
            fs = self.spec.funcs.get(key)
            if fs is not None:
                self.call_contract(fs, found[0].module, found[0], found[1], [ref] + args, kwargs)
            else:
                self.inline_call(found[0].module, found[0], found[1], [ref] + args, kwargs)
            return ref
        # dataclass: annotated class attributes in order
        names = [k for k in ci.assigns.keys()]
        vals = dict(zip(names, args))
        vals.update(kwargs)
        for fn in names:
            f = self.spec.field(sc.name, fn)
            if f is None:
                continue
            if fn in vals:
                v = vals[fn]
            elif ci.assigns.get(fn) is not None:
                v = self.ev(ci.assigns[fn])
            else:
                self.py_raise('TypeError')
            self.write_heap(ref, (f[0], fn), f[1], v)
        return ref

    def pkt_defaults(self, ci):
        '''Field names and default expressions from the real fields_desc.'''
        fd = ci.assigns.get('fields_desc')
        out = []
        if fd is None:
            mro, _ = self.prog.mro(ci.module.name, ci.qualname)
            for c in mro[1:]:
                if c.assigns.get('fields_desc') is not None:
                    fd = c.assigns['fields_desc']
                    ci = c
                    break
        if fd is None:
            return out
        for el in fd.elts:
            call = el
            # ConditionalField(fld, cond) / OptionalField(fld) wrappers
            while isinstance(call, ast.Call) and ast.unparse(call.func).split('.')[-1] in ('ConditionalField', 'OptionalField'):
                inner = None
                for k in call.keywords:
                    if k.arg == 'fld':
                        inner = k.value
                if inner is None:
                    inner = call.args[0]
                call = inner
            if not isinstance(call, ast.Call):
                raise Unsupported('fields_desc entry')
            name = const_eval(call.args[0]) if call.args else None
            default = call.args[1] if len(call.args) > 1 else None
            for k in call.keywords:
                if k.arg == 'name':
                    name = const_eval(k.value)
                if k.arg == 'default':
                    default = k.value
            out.append((name, default, ci))
        return out

    def construct_pkt(self, ci, sc, args, kwargs):
        if args:
            hook = self.spec.callbacks.get('dissect')
            if hook is not None:
                r = hook(self, ci, args)
                if r is not None:
                    return r
            raise Unsupported('packet dissection constructor %s(bytes) in verified code' % ci.qualname)
        ref = V(TPkt([ci.qualname]), self.new_ref())
        decl = self.pkt_defaults(ci)
        declared = {n for n, _d, _c in decl}
        for fn in sc.fields:
            if fn in ('payload',):
                continue
            if fn not in declared and not fn.startswith('_'):
                from .program import BindError
                raise BindError('packet schema pkt:%s names field %s not in fields_desc' % (ci.qualname, fn))
        for k in kwargs:
            if k not in declared:
                self.py_raise('AttributeError')
        for fn, default, owner in decl:
            if fn not in sc.fields:
                continue
            ft = sc.fields[fn]
            if fn in kwargs:
                v = kwargs[fn]
                if isinstance(v.t, TOpt) and not isinstance(ft, TOpt):
                    # scapy: a field given as None takes its default
                    if self.branch(v.t.is_none(v.z)):
                        # scapy stores None as it is given (the field then encodes as CBOR null); the contract declares
                        # this field non-optional, so the case cannot be represented: undecided, not guessed
                        raise Unsupported('None given for packet field %s.%s, which the contracts declare non-optional'
                                          % (ci.qualname, fn))
                    else:
                        v = V(v.t.inner, v.t.val(v.z))
                elif v.t is TNone and not isinstance(ft, TOpt):
                    raise Unsupported('None given for packet field %s.%s, which the contracts declare non-optional'
                                      % (ci.qualname, fn))
                elif isinstance(ft, TOpt) and isinstance(ft.inner, TAny) and v.t in (TBool, TInt, TStr, TBytes):
                    # scapy: any2i() converts a value of another Python type; what matters to the contracts of an
                    # opaque-valued field is that the stored internal value is present (any2i maps only None to None)
                    v = V(ft, ft.some(fresh(ft.inner, 'conv_' + fn).z))
            else:
                v = self.pkt_default_value(owner, fn, default, ft)
            self.write_heap(ref, ('pkt:' + ci.qualname, fn), ft, v)
        if 'payload' in sc.fields:
            self.write_heap(ref, ('pkt:' + ci.qualname, 'payload'), TInt, mk_int(0))
        for fn, ft in sc.fields.items():
            if fn.startswith('_'):
                self.write_heap(ref, ('pkt:' + ci.qualname, fn), ft, self.const_to_v(sc.defaults.get(fn, 0)))
        return ref

    def pkt_default_value(self, owner, fn, default, ft):
        if default is None:
            v = NONE
        else:
            saved = self.frame
            self.frame = Frame('<fields_desc>', owner.module, owner, None, None)
            try:
                try:
                    v = self.ev(default)
                except Unsupported:
                    v = fresh(ft, 'dflt_' + fn)
            finally:
                self.frame = saved
        try:
            return coerce(v, ft)
        except Unsupported:
            if isinstance(ft, TList):
                from . import lists as L
                return V(ft, L.l_empty(ft))
            if ft is TBytes and v.t is TStr:
                return V(TBytes, z3.Empty(TBytes.sort()))
            return fresh(ft, 'dflt_' + fn)

    def pkt_compose(self, a, b):
        '''scapy `a / b`: both operands are copied; the copy of b becomes the
        payload of the innermost layer of the copy of a.'''
        a2 = self.pkt_copy(a)
        b2 = self.pkt_copy(b)
        last = self.pkt_layer_ref(a2, len(a2.t.layers) - 1)
        self.write_heap(last, ('pkt:' + a2.t.layers[-1], 'payload'), TInt, mk_int(b2.z))
        if '_pcls' in self.pkt_schema(a2.t.layers[-1]).fields:
            self.write_heap(last, ('pkt:' + a2.t.layers[-1], '_pcls'), TInt, mk_int(class_tag(b2.t.layers[0])))
        return V(TPkt(a2.t.layers + b2.t.layers), a2.z)

    def pkt_copy(self, p):
        layers = p.t.layers
        new_refs = []
        for i, layer in enumerate(layers):
            src = self.pkt_layer_ref(p, i)
            dst = V(TPkt(layers[i:]), self.new_ref())
            sc = self.pkt_schema(layer)
            for fn, ft in sc.fields.items():
                if fn == 'payload':
                    continue
                val = V(ft, z3.Select(self.heap_arr(('pkt:' + layer, fn), ft), src.z)) if ft is not TNone else NONE
                self.write_heap(dst, ('pkt:' + layer, fn), ft, val)
            new_refs.append(dst)
        for i, dst in enumerate(new_refs):
            nxt = new_refs[i + 1].z if i + 1 < len(new_refs) else z3.IntVal(0)
            self.write_heap(dst, ('pkt:' + layers[i], 'payload'), TInt, mk_int(nxt))
        return new_refs[0]

    def construct_named(self, t, args, kwargs):
        if isinstance(t, TTuple):
            vals = list(args)
            for n in t.names[len(args):]:
                if n not in kwargs:
                    raise Unsupported('missing field %s' % n)
                vals.append(kwargs[n])
            zs = [coerce(v, et).z for v, et in zip(vals, t.elems)]
            return V(t, t.mk(*zs))
        raise Unsupported('constructor of named type')

    # ---------------------------------------------------------------- callbacks
    def call_callback(self, fv, args, node):
        hook = self.spec.callbacks.get('callback')
        if hook is not None:
            r = hook(self, fv, args)
            if r is not None:
                return r
        raise Unsupported('call of an unknown callback')

    def self_pyclass(self, selfv):
        sc = self.spec.schemas.get(self.spec.schema_of_type(selfv.t))
        if sc is None or sc.pyclass is None:
            raise Unsupported('no python class for %s' % selfv.t)
        return sc.pyclass
