"""Contract (sidecar specification) data structures and loader.

A contract module under /verif/contracts defines plain Python data:

  MODULES   = [repo modules it talks about]
  TYPES     = {name: ('tuple', [(field, type)...]) | ('union', [(alt, type)...])}
  SCHEMAS   = {schema: {'pyclass': (module, Class) | None, 'bases': [...],
                        'fields': {field: type}, 'pkt': bool}}
  GHOST     = {name: type}
  CONSTS    = {NAME: python int}             (spec-only symbolic names)
  INVARIANTS= {schema: [(label, expr, [props])]}
  INLINE    = ['module:Class.method', ...]
  FUNCS     = {'module:Class.method': {...}}  see FuncSpec
  SPECFUNCS = {name: (['a','b'], 'expr')}    pure spec functions (macros)
  CALLBACKS = {...}

Clause expressions are Python expressions in strings.
"""
import ast
import importlib.util
import os

from .types import parse_type, register_named, TTuple, TUnion, TNone, TRef, TPkt


class Clause:
    def __init__(self, label, expr, props=(), aux=False, src=None):
        self.label = label
        self.expr = expr
        self.props = tuple(props)
        self.aux = aux
        self.node = ast.parse(expr.strip(), mode='eval').body
        self.src = src


def _clauses(lst, default_props=()):
    out = []
    for item in lst or []:
        if isinstance(item, Clause):
            out.append(item)
            continue
        label, expr = item[0], item[1]
        props = item[2] if len(item) > 2 else default_props
        out.append(Clause(label, expr, props))
    return out


class RaiseSpec:
    def __init__(self, exc, d, default_props):
        self.exc = exc
        self.when = ast.parse(d['when'].strip(), mode='eval').body if d.get('when') else None
        self.when_src = d.get('when')
        self.iff = d.get('iff', False)
        self.ensures = _clauses(d.get('ensures'), default_props)
        self.modifies = d.get('modifies')  # None => same as function
        self.attrs = {k: ast.parse(v.strip(), mode='eval').body for k, v in (d.get('attrs') or {}).items()}


class LoopSpec:
    def __init__(self, d):
        self.invariant = _clauses(d.get('invariant'))
        self.decreases = ast.parse(d['decreases'], mode='eval').body if d.get('decreases') else None
        self.modifies = d.get('modifies')   # optional explicit write set
        self.unroll = d.get('unroll', False)
        # ghost code run at the beginning / end of every iteration (before the invariant is re-checked)
        self.ghost_begin = [ast.parse(s).body for s in d.get('ghost_begin', [])]
        self.ghost_end = [ast.parse(s).body for s in d.get('ghost_end', [])]


class Schema:
    def __init__(self, name, d):
        self.name = name
        self.pyclass = tuple(d['pyclass']) if d.get('pyclass') else None
        self.bases = list(d.get('bases', []))
        self.fields_src = dict(d.get('fields', {}))
        self.fields = {}
        self.pkt = d.get('pkt', False)
        self.defaults = d.get('defaults', {})
        self.extclass = d.get('extclass')     # record of a class outside the repository (e.g. scapy.packet.Raw)


class FuncSpec:
    def __init__(self, key, d):
        self.key = key
        self.module, self.qualname = key.split(':')
        self.d = d
        props = tuple(d.get('props', ()))
        self.props = props
        self.self_type = d.get('self')
        self.params = dict(d.get('params', {}))
        self.returns = d.get('returns')
        self.requires = _clauses(d.get('requires'))
        self.ensures = _clauses(d.get('ensures'), props)
        self.raises = {k: RaiseSpec(k, v, props) for k, v in (d.get('raises') or {}).items()}
        self.modifies = list(d.get('modifies', []))
        self.loops = {k: LoopSpec(v) for k, v in (d.get('loops') or {}).items()}
        self.handler = d.get('handler', False)
        self.inv_schema = d.get('inv_schema')
        self.cases = d.get('cases') or [{}]
        self.ghost_exit = [ast.parse(s).body for s in d.get('ghost_exit', [])]
        self.ghost_entry = [ast.parse(s).body for s in d.get('ghost_entry', [])]
        self.noraise_props = tuple(d.get('noraise_props', props))
        self.trusted = d.get('trusted', False)     # contract assumed, body not verified
        self.trusted_reason = d.get('trusted_reason', '')
        self.verify = d.get('verify', True) and not self.trusted
        self.inline_here = set(d.get('inline', []))
        self.no_inv_ensures = d.get('no_inv_ensures', False)
        self.timeout_ms = d.get('timeout_ms')
        self.hints = list(d.get('hints', []))
        # clauses that hold for one typed case only: {case name: [clauses]}
        self.case_ensures = {k: _clauses(v, props) for k, v in (d.get('case_ensures') or {}).items()}
        # named specification expressions (over the pre-state) evaluated in every counter-model
        self.probes = {k: ast.parse(v.strip(), mode='eval').body for k, v in (d.get('probes') or {}).items()}


class Spec:
    def __init__(self):
        self.modules = []
        self.schemas = {}
        self.ghost = {}
        self.consts = {}
        self.invariants = {}
        self.inline = set()
        self.funcs = {}
        self.specfuncs = {}
        self.externs = {}
        self.assumptions = []
        self.files = []
        self.notes = {}
        self.callbacks = {}
        self.specbuiltins = {}
        self.lemmas = {}

    def load(self, path):
        name = 'contract_' + os.path.basename(path)[:-3]
        import sys
        d = os.path.dirname(os.path.abspath(path))
        if d not in sys.path:
            sys.path.insert(0, d)
        sp = importlib.util.spec_from_file_location(name, path)
        mod = importlib.util.module_from_spec(sp)
        sp.loader.exec_module(mod)
        self.files.append(path)
        for tn, td in getattr(mod, 'TYPES', {}).items():
            if td[0] == 'tuple':
                register_named(tn, TTuple([parse_type(t) for _n, t in td[1]], [n for n, _t in td[1]], name=tn))
            elif td[0] == 'union':
                register_named(tn, TUnion(tn, [(n, parse_type(t)) for n, t in td[1]]))
            elif td[0] == 'alias':
                register_named(tn, parse_type(td[1]))
        for sn, sd in getattr(mod, 'SCHEMAS', {}).items():
            self.schemas[sn] = Schema(sn, sd)
        for sn, sd in getattr(mod, 'SCHEMAS', {}).items():
            sc = self.schemas[sn]
            for fn, ft in sc.fields_src.items():
                sc.fields[fn] = parse_type(ft)
        for g, t in getattr(mod, 'GHOST', {}).items():
            self.ghost[g] = parse_type(t)
        self.consts.update(getattr(mod, 'CONSTS', {}))
        for sn, lst in getattr(mod, 'INVARIANTS', {}).items():
            self.invariants.setdefault(sn, []).extend(_clauses(lst))
        self.inline.update(getattr(mod, 'INLINE', []))
        for k, d in getattr(mod, 'FUNCS', {}).items():
            self.funcs[k] = FuncSpec(k, d)
        for k, (params, expr) in getattr(mod, 'SPECFUNCS', {}).items():
            self.specfuncs[k] = (params, ast.parse(expr.strip(), mode='eval').body)
        self.externs.update(getattr(mod, 'EXTERNS', {}))
        self.assumptions.extend(getattr(mod, 'ASSUMPTIONS', []))
        self.callbacks.update(getattr(mod, 'CALLBACKS', {}))
        self.specbuiltins.update(getattr(mod, 'SPECBUILTINS', {}))
        self.lemmas.update(getattr(mod, 'LEMMAS', {}))
        for k, v in getattr(mod, 'NOTES', {}).items():
            self.notes[k] = v
        for m in getattr(mod, 'MODULES', []):
            if m not in self.modules:
                self.modules.append(m)
        return mod

    # ---- schema helpers -------------------------------------------------
    def schema_chain(self, name):
        out = []

        def walk(n):
            sc = self.schemas.get(n)
            if sc is None or sc in out:
                return
            out.append(sc)
            for b in sc.bases:
                walk(b)
        walk(name)
        return out

    def field(self, schema_name, fname):
        '''-> (declaring schema name, type) or None'''
        for sc in self.schema_chain(schema_name):
            if fname in sc.fields:
                return sc.name, sc.fields[fname]
        return None

    def schema_of_type(self, t):
        if isinstance(t, TRef):
            return t.cls
        if isinstance(t, TPkt):
            return 'pkt:' + t.layers[0]
        return None

    def schema_for_pyclass(self, module, clsname):
        for sc in self.schemas.values():
            if sc.pyclass == (module, clsname):
                return sc
        return None

    def all_invariants(self, schema_name):
        out = []
        for sc in reversed(self.schema_chain(schema_name)):
            out.extend(self.invariants.get(sc.name, []))
        return out
