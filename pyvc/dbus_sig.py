"""D-Bus signature conformance (assumed dbus-python contract, DESIGN §3):
emission succeeds iff every argument conforms to the declared type code."""
import z3

from .sym import V, is_py, Unsupported
from .types import TInt, TBool, TStr, TBytes, TNone, TOpt, TList, TDict, TUnion, TAny, TTuple

INT_RANGES = {'y': (0, 255), 'n': (-2 ** 15, 2 ** 15 - 1), 'q': (0, 2 ** 16 - 1), 'i': (-2 ** 31, 2 ** 31 - 1),
              'u': (0, 2 ** 32 - 1), 'x': (-2 ** 63, 2 ** 63 - 1), 't': (0, 2 ** 64 - 1)}


def split_signature(sig):
    out = []
    i = 0

    def one(i):
        c = sig[i]
        if c == 'a':
            j = one(i + 1)
            return j
        if c == '(':
            depth = 1
            j = i + 1
            while depth:
                if sig[j] == '(':
                    depth += 1
                elif sig[j] == ')':
                    depth -= 1
                j += 1
            return j
        if c == '{':
            depth = 1
            j = i + 1
            while depth:
                if sig[j] == '{':
                    depth += 1
                elif sig[j] == '}':
                    depth -= 1
                j += 1
            return j
        return i + 1
    while i < len(sig):
        j = one(i)
        out.append(sig[i:j])
        i = j
    return out


def conforms(eng, v, code):
    '''z3 Bool: value v can be marshalled as D-Bus type `code`.'''
    t = v.t
    if isinstance(t, TOpt):
        inner = conforms(eng, V(t.inner, t.val(v.z)), code)
        return z3.And(z3.Not(t.is_none(v.z)), inner)
    if t is TNone:
        return z3.BoolVal(False)
    if isinstance(t, TUnion):
        parts = []
        for n, at in t.alts:
            if at is TNone:
                if n in ('false', 'true') and code in ('v', 'b'):
                    parts.append(t.is_(n, v.z))   # the Python constants False / True marshal as boolean
                continue   # None cannot be marshalled
            parts.append(z3.And(t.is_(n, v.z), conforms(eng, V(at, t.get(n, v.z)), code)))
        return z3.Or(*parts) if parts else z3.BoolVal(False)
    if code in INT_RANGES:
        lo, hi = INT_RANGES[code]
        if t is TInt:
            return z3.And(v.z >= lo, v.z <= hi)
        if t is TBool:
            return z3.BoolVal(True)
        return z3.BoolVal(False)
    if code == 'b':
        # dbus-python converts any int/bool to boolean
        return z3.BoolVal(t in (TBool, TInt))
    if code in ('s', 'o'):
        return z3.BoolVal(t is TStr)
    if code == 'v':
        if t in (TStr, TBool, TBytes):
            return z3.BoolVal(True)
        if t is TInt:
            # variant guesses int32 for a Python int
            return z3.And(v.z >= -2 ** 31, v.z <= 2 ** 31 - 1)
        if isinstance(t, TAny):
            return z3.BoolVal(False)
        return z3.BoolVal(False)
    if code == 'ay':
        return z3.BoolVal(t is TBytes or (isinstance(t, TList) and t.elem is TInt))
    if code in ('as', 'ao'):
        return z3.BoolVal((isinstance(t, TList) and t.elem is TStr) or v.py == ('emptylist',))
    if code == 'a{sv}':
        if is_py(v, 'kwdict'):
            # a dict display with literal text keys: every value must marshal as a variant
            return z3.And(*[conforms(eng, x, 'v') for x in v.py[1].values()]) if v.py[1] else z3.BoolVal(True)
        if isinstance(t, TDict) and t.k is TStr:
            hook = eng.spec.callbacks.get('dict_values_conform')
            if hook is not None:
                return hook(eng, v, 'v')
            return z3.BoolVal(False)
        return z3.BoolVal(v.py == ('emptydict',))
    raise Unsupported('dbus signature code %s' % code)
