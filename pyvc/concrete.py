"""Concrete evaluation of contract clauses on real objects (replay).

The same clause strings the symbolic engine translates are evaluated with
Python's eval over the real objects: `old(e)` sub-expressions are evaluated on
a snapshot taken before the call, ghost values come from recorders installed
by the harness (events handed to send_message, D-Bus signals, GLib sources).
Anything a recorder cannot supply raises CannotEvaluate (never a verdict).
"""
import ast
import copy


class CannotEvaluate(Exception):
    pass


class Ghost(object):
    def __init__(self, values):
        self.__dict__['_v'] = dict(values)

    def __getattr__(self, k):
        v = self.__dict__['_v']
        if k not in v:
            raise CannotEvaluate('ghost.%s is not recorded in concrete replays' % k)
        return v[k]

    def __setattr__(self, k, val):
        self.__dict__['_v'][k] = val


class Rec(dict):
    '''record with attribute access (events, signals)'''
    def __getattr__(self, k):
        try:
            return self[k]
        except KeyError:
            raise AttributeError(k)


def _unwrap(x):
    return x


def _implies(a, b):
    return (not a) or bool(b)


def _flag(x, mask):
    return bool(x & mask)


def _contains(c, x):
    if isinstance(c, dict):
        return x in c
    return x in c


def _is_layer(pkt, name):
    p = pkt
    for _i in range(16):
        if p is None or type(p).__name__ == 'NoPayload':
            return False
        if type(p).__name__ == name:
            return True
        p = getattr(p, 'payload', None)
    return False


def _lookup(d, k):
    try:
        return d[k]
    except KeyError:
        raise CannotEvaluate('lookup of absent key %r' % (k,))


BASE = {
    'implies': _implies, 'iff': lambda a, b: bool(a) == bool(b), 'ite': lambda c, a, b: a if c else b,
    'length': len, 'unwrap': _unwrap, 'some': lambda x: x, 'is_none': lambda x: x is None,
    'flag': _flag, 'band': lambda x, m: x & m, 'contains': _contains, 'lookup': _lookup,
    'last': lambda s: s[-1], 'at': lambda s, i: s[i], 'slice': lambda s, lo, hi: s[lo:hi],
    'str_of': str, 'eqv': lambda a, b: a == b, 'dom': lambda d: set(d.keys()),
    'set_add': lambda s, x: set(s) | {x}, 'set_remove': lambda s, x: set(s) - {x},
    'is_empty_set': lambda s: len(s) == 0, 'no_dup': lambda s: len(set(map(id, s))) == len(s),
    'dict_put': lambda d, k, v: dict(list(d.items()) + [(k, v)]),
    'dict_del': lambda d, k: {a: b for a, b in d.items() if a != k},
    'is_int_str': lambda s: isinstance(s, str) and s.isdigit(), 'int_of_str': int,
    'is_layer': _is_layer, 'bool': bool,
    'min': min, 'max': max, 'len': len, 'str': str, 'int': int, 'True': True, 'False': False, 'None': None,
}


class _OldLifter(ast.NodeTransformer):
    '''Replace old(e) by a name bound to the value of e in the snapshot.'''

    def __init__(self, ev):
        self.ev = ev
        self.bind = {}

    def visit_Call(self, node):
        if isinstance(node.func, ast.Name) and node.func.id == 'old':
            name = '__old%d' % len(self.bind)
            self.bind[name] = self.ev.eval_node(node.args[0], self.ev.old_stack[-1])
            return ast.copy_location(ast.Name(id=name, ctx=ast.Load()), node)
        return self.generic_visit(node)


class _QuantLifter(ast.NodeTransformer):
    '''forall(i, lo, hi, body) -> all(body for i in range(lo, hi)); typed quantifiers over all
    integers / references cannot be enumerated.'''

    def visit_Call(self, node):
        node = self.generic_visit(node)
        if isinstance(node.func, ast.Name) and node.func.id == 'implies' and len(node.args) == 2:
            # lazy, as in the symbolic translation: the consequent is not evaluated when the premise is false
            return ast.copy_location(ast.BoolOp(op=ast.Or(), values=[
                ast.UnaryOp(op=ast.Not(), operand=node.args[0]),
                ast.Call(func=ast.Name(id='bool', ctx=ast.Load()), args=[node.args[1]], keywords=[])]), node)
        if isinstance(node.func, ast.Name) and node.func.id == 'ite' and len(node.args) == 3:
            return ast.copy_location(ast.IfExp(test=node.args[0], body=node.args[1], orelse=node.args[2]), node)
        if isinstance(node.func, ast.Name) and node.func.id in ('forall', 'exists') and len(node.args) == 4:
            var = node.args[0].id
            gen = ast.GeneratorExp(elt=node.args[3], generators=[ast.comprehension(
                target=ast.Name(id=var, ctx=ast.Store()),
                iter=ast.Call(func=ast.Name(id='range', ctx=ast.Load()), args=[node.args[1], node.args[2]], keywords=[]),
                ifs=[], is_async=0)])
            fn = 'all' if node.func.id == 'forall' else 'any'
            return ast.copy_location(ast.Call(func=ast.Name(id=fn, ctx=ast.Load()), args=[gen], keywords=[]), node)
        if isinstance(node.func, ast.Name) and node.func.id in ('forall', 'exists'):
            return ast.copy_location(ast.Call(func=ast.Name(id='__unbounded_quantifier', ctx=ast.Load()), args=[], keywords=[]), node)
        return node


def _unbounded():
    raise CannotEvaluate('quantifier over an unbounded domain')


class Evaluator(object):
    def __init__(self, specfuncs, consts, extra=None):
        self.specfuncs = specfuncs      # name -> (params, source text)
        self.consts = consts
        self.extra = extra or {}
        self.old_ns = None
        self.old_stack = []
        self.memo = {}     # id(current object) -> snapshot object
        self.ns = None

    def set_old(self, old_ns, memo):
        self.old_ns = old_ns
        self.old_stack = [old_ns]
        self.memo = memo

    def old_of(self, obj):
        return self.memo.get(id(obj), obj)

    def namespace(self, objs, ghost):
        ns = dict(BASE)
        ns.update(self.consts)
        ns.update(self.extra)
        ns.update(objs)
        ns['ghost'] = ghost
        ns['range'] = range
        ns['all'] = all
        ns['any'] = any
        ns['__unbounded_quantifier'] = _unbounded
        for name, (params, src) in self.specfuncs.items():
            ns[name] = self._macro(name, params, src, ns)
        return ns

    def _macro(self, name, params, src, ns):
        def f(*args):
            local = dict(ns)
            local.update(dict(zip(params, args)))
            if self.old_stack:
                old_local = dict(self.old_stack[-1])
                old_local.update({p: self.old_of(a) for p, a in zip(params, args)})
                self.old_stack.append(old_local)
                try:
                    return self.eval_src(src, local)
                finally:
                    self.old_stack.pop()
            return self.eval_src(src, local)
        return f

    def eval_node(self, node, ns):
        node = _QuantLifter().visit(copy.deepcopy(node))
        expr = ast.Expression(body=node)
        ast.fix_missing_locations(expr)
        try:
            return eval(compile(expr, '<clause>', 'eval'), ns)
        except CannotEvaluate:
            raise
        except Exception as err:
            raise CannotEvaluate('%s: %s' % (type(err).__name__, err))

    def eval_src(self, src, ns):
        node = ast.parse(src.strip(), mode='eval').body
        if self.old_stack:
            lifter = _OldLifter(self)
            node = lifter.visit(node)
            ns = dict(ns)
            ns.update(lifter.bind)
        return self.eval_node(node, ns)
