"""External solver processes (hard time limits) for queries the in-process z3
does not answer: cvc5 (good on sequences) and the z3 command line."""
import os
import subprocess
import tempfile

CVC5 = '/usr/bin/cvc5'
Z3CLI = '/usr/bin/z3' if not os.path.exists('/usr/local/bin/z3-new') else None


def _which(name):
    for d in os.environ.get('PATH', '').split(':'):
        p = os.path.join(d, name)
        if os.path.exists(p):
            return p
    return None


def smt2_of(assertions, extra=()):
    import z3
    s = z3.Solver()
    s.add(*assertions)
    for e in extra:
        s.add(e)
    return s.to_smt2()


def run_cli(text, timeout_ms, which=('cvc5', 'z3')):
    '''-> (verdict, backend) with verdict in unsat / sat / unknown'''
    fd, path = tempfile.mkstemp(suffix='.smt2', prefix='pyvc_')
    try:
        with os.fdopen(fd, 'w') as f:
            f.write(text)
        secs = max(1, int(timeout_ms / 1000))
        for w in which:
            if w == 'cvc5':
                exe = _which('cvc5')
                if exe is None:
                    continue
                cmd = [exe, '--strings-exp', '--tlimit=%d' % (secs * 1000), '-q', path]
            elif w == 'z3-4.8':
                # the Debian z3 (4.8.12): a different generation of the quantifier / array engines than the
                # z3-solver wheel used in process; decides some lambda / set problems the newer one leaves open
                exe = '/usr/bin/z3' if os.path.exists('/usr/bin/z3') else None
                if exe is None:
                    continue
                cmd = [exe, '-T:%d' % secs, path]
            else:
                exe = _which('z3-new') or _which('z3')
                if exe is None:
                    continue
                cmd = [exe, '-T:%d' % secs, path]
            try:
                out = subprocess.run(cmd, capture_output=True, text=True, timeout=secs + 5)
            except subprocess.TimeoutExpired:
                continue
            first = (out.stdout.strip().splitlines() or [''])[0].strip()
            if first in ('unsat', 'sat'):
                return first, w
        return 'unknown', None
    finally:
        try:
            os.unlink(path)
        except OSError:
            pass


def cvc5_check(solver, goal, timeout_ms):
    import z3
    text = smt2_of(solver.assertions(), [z3.Not(goal)])
    v, _w = run_cli(text, timeout_ms, which=('cvc5',))
    return v


def old_z3_check(solver, goal, timeout_ms):
    import z3
    text = smt2_of(solver.assertions(), [z3.Not(goal)])
    v, _w = run_cli(text, timeout_ms, which=('z3-4.8',))
    return v
