"""Symbolic values and the pure operations on them (no control flow here)."""
import z3
from .types import (T, TInt, TBool, TNone, TBytes, TStr, TFloat, TAny, TClassT, TFuncT, TRef, TPkt,
                    TOpt, TUnion, TList, TSet, TDict, TTuple)


from . import lists as L


class Unsupported(Exception):
    '''Construct outside the modelled Python subset -> function undecided.'''


class V:
    '''Symbolic value: static type + z3 term.  `lval` remembers where a
    container value was read from so that in-place mutation writes through.'''
    __slots__ = ('t', 'z', 'lval', 'py')

    def __init__(self, t, z=None, lval=None, py=None):
        self.t = t
        self.z = z
        self.lval = lval
        self.py = py

    def __repr__(self):
        if self.t is TPy:
            return 'Py(%r)' % (self.py,)
        return 'V(%s, %s)' % (self.t, self.z)


class _TPy(T):
    '''Concrete interpreter-side object (module, class, function, kwargs dict).'''
    key = 'Py'


TPy = _TPy()


def Py(kind, *data):
    return V(TPy, None, None, (kind,) + data)


def is_py(v, kind=None):
    return v.t is TPy and (kind is None or v.py[0] == kind)


NONE = V(TNone, z3.BoolVal(True))

# external objects without __bool__/__len__ (sockets, certificates, datetimes, addresses)
ALWAYS_TRUTHY = {'sock', 'ipaddr', 'datetime', 'cert', 'sslctx', 'ext', 'match', 'route', 'clagent', 'sender'}


def mk_int(n):
    return V(TInt, z3.IntVal(n) if isinstance(n, int) else n)


def mk_bool(b):
    return V(TBool, z3.BoolVal(b) if isinstance(b, bool) else b)


def mk_bytes_const(b):
    if len(b) == 0:
        return V(TBytes, z3.Empty(TBytes.sort()))
    units = [z3.Unit(z3.IntVal(x)) for x in b]
    return V(TBytes, units[0] if len(units) == 1 else z3.Concat(*units))


_STR_LITS = {}


def str_lit_id(s):
    if s not in _STR_LITS:
        _STR_LITS[s] = len(_STR_LITS) + 1
    return _STR_LITS[s]


def mk_str_const(s):
    S = TStr.sort()
    if s.isdigit() and (s == '0' or not s.startswith('0')):
        return V(TStr, S.of_int(z3.IntVal(int(s))), py=('strlit', s))
    return V(TStr, S.lit(z3.IntVal(str_lit_id(s))), py=('strlit', s))


_fresh_ctr = [0]


def fresh_name(prefix):
    _fresh_ctr[0] += 1
    return '%s!%d' % (prefix, _fresh_ctr[0])


def reset_fresh():
    _fresh_ctr[0] = 0


def fresh(t, prefix='v'):
    if t is TNone:
        return NONE
    return V(t, z3.Const(fresh_name(prefix), t.sort()))


# uninterpreted helpers
def _ufun(name, *sorts):
    return z3.Function(name, *sorts)


def str_len(z):
    return _ufun('str_len', TStr.sort(), z3.IntSort())(z)


def any_truthy(t, z):
    return _ufun('truthy_' + t.name, t.sort(), z3.BoolSort())(z)


def opt_wrap(v, topt):
    '''Coerce v to the Opt type topt.'''
    if v.t == topt:
        return v
    if v.t is TNone:
        return V(topt, topt.none())
    if v.t == topt.inner:
        return V(topt, topt.some(v.z))
    if isinstance(v.t, TPkt) and isinstance(topt.inner, TPkt):
        return V(topt, topt.some(v.z))
    raise Unsupported('cannot coerce %s to %s' % (v.t, topt))


def coerce(v, t):
    '''Coerce a value to a declared type (for stores into typed locations).'''
    if v.t == t:
        return v
    if isinstance(t, TOpt):
        if isinstance(v.t, TOpt):
            raise Unsupported('coerce %s -> %s' % (v.t, t))
        return opt_wrap(coerce(v, t.inner) if v.t is not TNone else v, t)
    if isinstance(t, TList) and isinstance(v.t, TList) and isinstance(t.elem, TPkt) and isinstance(v.t.elem, TPkt):
        return V(t, L.l_mk(t, L.l_len(v.t, v.z), L.l_arr(v.t, v.z)))
    if isinstance(t, TDict) and is_py(v, 'kwdict') and t.k is TStr:
        dom = t.empty_dom()
        mp = z3.Const(fresh_name('dmap'), z3.ArraySort(t.k.sort(), t.v.sort()))
        for k, item in v.py[1].items():
            kz = mk_str_const(k).z
            dom = z3.Store(dom, kz, True)
            mp = z3.Store(mp, kz, coerce(item, t.v).z)
        return V(t, t.mk(dom, mp))
    if isinstance(t, TUnion) and isinstance(v.t, TUnion):
        # map alternatives by name, payload by type
        expr = None
        for n, at in reversed(v.t.alts):
            if at is TNone:
                tgt = t.mk(n) if any(x == n for x, _ in t.alts) else None
            else:
                tgt = None
                for n2, at2 in t.alts:
                    if at2 == at:
                        tgt = t.mk(n2, v.t.get(n, v.z))
                        break
            if tgt is None:
                raise Unsupported('coerce %s -> %s' % (v.t, t))
            expr = tgt if expr is None else z3.If(v.t.is_(n, v.z), tgt, expr)
        return V(t, expr)
    if isinstance(t, TUnion):
        if isinstance(v.t, TOpt):
            inner = coerce(V(v.t.inner, v.t.val(v.z)), t)
            return V(t, z3.If(v.t.is_none(v.z), t.mk('none'), inner.z))
        if v.t is TNone:
            return V(t, t.mk('none'))
        for n, at in t.alts:
            if at == v.t:
                return V(t, t.mk(n, None if at is TNone else v.z))
        if v.t is TBool:
            # literal False/True alternatives
            for n, at in t.alts:
                if at is TNone and n in ('false', 'true') and z3.is_true(v.z) == (n == 'true') and (z3.is_true(v.z) or z3.is_false(v.z)):
                    return V(t, t.mk(n))
        raise Unsupported('coerce %s -> %s' % (v.t, t))
    if t is TInt and v.t is TBool:
        return V(TInt, z3.If(v.z, 1, 0))
    if t is TFloat and v.t is TInt:
        return V(TFloat, z3.Const(fresh_name('flt'), TFloat.sort()), py=('intfloat', v.z))
    if t is TInt and v.t is TFloat:
        # a float stored where the contract declares a number: float arithmetic is not modelled, the stored
        # number is arbitrary (stated assumption: "int(float) / float results are arbitrary numbers")
        if v.py and v.py[0] == 'intfloat':
            return V(TInt, v.py[1])
        return V(TInt, z3.Int(fresh_name('num_of_float')))
    if isinstance(t, TPkt) and isinstance(v.t, TPkt):
        return V(t, v.z)
    if isinstance(t, TRef) and isinstance(v.t, TPkt) and t.cls == 'pkt:' + v.t.layers[0]:
        return V(t, v.z)
    if isinstance(t, TList) and isinstance(v.t, TList) and v.py == ('emptylist',):
        return V(t, L.l_empty(t))
    if isinstance(t, TDict) and v.py == ('emptydict',):
        return V(t, t.mk(t.empty_dom(), z3.Const(fresh_name('dmap'), z3.ArraySort(t.k.sort(), t.v.sort()))))
    if isinstance(t, TSet) and v.py == ('emptyset',):
        return V(t, t.empty())
    if isinstance(t, TTuple) and isinstance(v.t, TTuple) and len(t.elems) == len(v.t.elems):
        # a tuple display stored where the contract declares a (named) tuple type: component-wise
        if v.py and v.py[0] == 'tupitems':
            items = list(v.py[1])
        else:
            items = [V(et, v.t.get(i, v.z)) for i, et in enumerate(v.t.elems)]
        return V(t, t.mk(*[coerce(it, et).z for it, et in zip(items, t.elems)]))
    if isinstance(t, TAny):
        raise Unsupported('coerce %s -> %s' % (v.t, t))
    raise Unsupported('coerce %s -> %s' % (v.t, t))


def truthy(v):
    '''z3 Bool for Python truthiness of v.'''
    t = v.t
    if t is TBool:
        return v.z
    if t is TInt:
        return v.z != 0
    if t is TNone:
        return z3.BoolVal(False)
    if isinstance(t, TList):
        return L.l_len(t, v.z) > 0
    if t is TBytes:
        return z3.Length(v.z) > 0
    if t is TStr:
        S = TStr.sort()
        if v.py and v.py[0] == 'strlit':
            return z3.BoolVal(len(v.py[1]) > 0)
        return z3.If(S.is_of_int(v.z), z3.BoolVal(True), str_len(v.z) > 0)
    if isinstance(t, TOpt):
        inner = V(t.inner, t.val(v.z))
        return z3.And(z3.Not(t.is_none(v.z)), truthy(inner))
    if isinstance(t, TSet):
        return v.z != t.empty()
    if isinstance(t, TDict):
        return t.dom(v.z) != t.empty_dom()
    if isinstance(t, (TRef, TPkt)) or t is TClassT or t is TFuncT:
        return z3.BoolVal(True)
    if isinstance(t, TTuple):
        return z3.BoolVal(len(t.elems) > 0)
    if isinstance(t, TUnion):
        parts = []
        for n, at in t.alts:
            if at is TNone:
                if n == 'true':
                    parts.append(t.is_(n, v.z))
                continue
            parts.append(z3.And(t.is_(n, v.z), truthy(V(at, t.get(n, v.z)))))
        return z3.Or(*parts) if parts else z3.BoolVal(False)
    if isinstance(t, TAny):
        if t.name in ALWAYS_TRUTHY:
            return z3.BoolVal(True)
        return any_truthy(t, v.z)
    if t is TPy:
        if v.py[0] == 'kwdict':
            return z3.BoolVal(len(v.py[1]) > 0)
        return z3.BoolVal(True)
    raise Unsupported('truthiness of %s' % t)


def py_len(v):
    t = v.t
    if isinstance(t, TList):
        return L.l_len(t, v.z)
    if t is TBytes:
        return z3.Length(v.z)
    if t is TStr:
        if v.py and v.py[0] == 'strlit':
            return z3.IntVal(len(v.py[1]))
        return str_len(v.z)
    if isinstance(t, TTuple):
        return z3.IntVal(len(t.elems))
    raise Unsupported('len of %s' % t)


# ---- integer bit operations on non-negative ints with constant masks -------

def _bits(mask):
    out = []
    k = 0
    while mask:
        if mask & 1:
            out.append(k)
        mask >>= 1
        k += 1
    return out


def int_and_const(x, mask):
    '''x & mask for x >= 0 (mathematical), mask constant >= 0.'''
    if mask == 0:
        return z3.IntVal(0)
    terms = [((x / (1 << k)) % 2) * (1 << k) for k in _bits(mask)]
    return terms[0] if len(terms) == 1 else z3.Sum(terms)


def concrete_int(z):
    z = z3.simplify(z)
    if z3.is_int_value(z):
        return z.as_long()
    return None


def eq(a, b):
    '''z3 Bool for Python ==.  Different kinds compare unequal.'''
    ta, tb = a.t, b.t
    if ta == tb:
        if ta is TNone:
            return z3.BoolVal(True)
        if ta is TPy:
            return z3.BoolVal(a.py == b.py)
        if ta is TFloat:
            return z3.Const(fresh_name('fcmp'), z3.BoolSort())
        return a.z == b.z
    if isinstance(ta, TOpt):
        if tb is TNone:
            return ta.is_none(a.z)
        if isinstance(tb, TOpt):
            # different inner types: equal only if both none
            return z3.And(ta.is_none(a.z), tb.is_none(b.z))
        return z3.And(z3.Not(ta.is_none(a.z)), eq(V(ta.inner, ta.val(a.z)), b))
    if isinstance(tb, TOpt):
        return eq(b, a)
    if isinstance(ta, TUnion):
        parts = []
        for n, at in ta.alts:
            if at is TNone:
                if tb is TNone and n == 'none':
                    parts.append(ta.is_(n, a.z))
                elif tb is TBool and n in ('false', 'true'):
                    parts.append(z3.And(ta.is_(n, a.z), b.z == (n == 'true')))
                continue
            if at == tb:
                parts.append(z3.And(ta.is_(n, a.z), ta.get(n, a.z) == b.z))
        return z3.Or(*parts) if parts else z3.BoolVal(False)
    if isinstance(tb, TUnion):
        return eq(b, a)
    if {ta, tb} == {TInt, TBool}:
        ai = a.z if ta is TInt else z3.If(a.z, 1, 0)
        bi = b.z if tb is TInt else z3.If(b.z, 1, 0)
        return ai == bi
    if isinstance(ta, (TPkt, TRef)) and isinstance(tb, (TPkt, TRef)):
        return a.z == b.z
    if ta is TClassT and is_py(b, 'class'):
        return a.z == class_tag(b.py[1])
    if tb is TClassT and is_py(a, 'class'):
        return eq(b, a)
    if ta is TNone or tb is TNone:
        return z3.BoolVal(False)
    kinds = (TInt, TBytes, TStr)
    if ta in kinds and tb in kinds:
        return z3.BoolVal(False)
    raise Unsupported('== between %s and %s' % (ta, tb))


_CLASS_TAGS = {}


def class_tag(name):
    if name not in _CLASS_TAGS:
        _CLASS_TAGS[name] = len(_CLASS_TAGS) + 1
    return z3.IntVal(_CLASS_TAGS[name])


_FUNC_TAGS = {}


def func_tag(name):
    if name not in _FUNC_TAGS:
        _FUNC_TAGS[name] = len(_FUNC_TAGS) + 1
    return z3.IntVal(_FUNC_TAGS[name])


def seq_slice(z, lo, hi):
    '''Python s[lo:hi] for lo, hi >= 0 (callers establish non-negativity).'''
    n = z3.Length(z)
    lo2 = z3.If(lo > n, n, lo)
    ln = z3.If(hi > lo2, hi - lo2, 0)
    return z3.Extract(z, lo2, ln)


def ite(c, a, b):
    if a.t != b.t:
        raise Unsupported('conditional with different types %s / %s' % (a.t, b.t))
    if a.t is TNone:
        return a
    return V(a.t, z3.If(c, a.z, b.z))
