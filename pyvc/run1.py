"""Debug helper: verify one function, print obligations."""
import sys, json
sys.path.insert(0, '/verif')
from pyvc.program import Program
from pyvc.spec import Spec
from pyvc.engine import Engine

def main():
    spec = Spec()
    for p in sys.argv[1].split(','):
        spec.load(p)
    prog = Program()
    keys = sys.argv[2:] or list(spec.funcs)
    for key in keys:
        fs = spec.funcs[key]
        for ci in range(len(fs.cases)):
            eng = Engine(prog, spec)
            res = eng.verify(fs, ci)
            print('==', res.unit_id, 'paths', res.paths, 'wall %.2fs solver %.2fs' % (res.wall_s, res.solver_s))
            if res.unsupported: print('  UNSUPPORTED:', res.unsupported)
            if res.error: print('  ERROR:', res.error)
            for o in res.obligations:
                print('  %-10s %s (%d paths) %s' % (o.status, o.id.split('/',1)[1], len(o.results), [r[2] for r in o.results if r[0]=='sat'][:1] if o.status=='failed' else ''))
            print('  covers:', res.covers)
            if res.soft_skips: print('  soft skips:', res.soft_skips)
main()
