"""Debug helper: verify one function, print obligations."""
import sys, json
sys.path.insert(0, '/verif')
from pyvc.program import Program
from pyvc.spec import Spec
from pyvc.engine import Engine

def main():
    spec = Spec()
    for p in sys.argv[1].split(','):
        spec.load(p)
    prog = Program()
    keys = sys.argv[2:] or list(spec.funcs)
    for key in keys:
        fs = spec.funcs[key]
        for ci in range(len(fs.cases)):
            eng = Engine(prog, spec)
            res = eng.verify(fs, ci)
            print('==', res.unit_id, 'paths', res.paths, 'wall %.2fs solver %.2fs' % (res.wall_s, res.solver_s))
            if res.unsupported: print('  UNSUPPORTED:', res.unsupported)
            if res.error: print('  ERROR:', res.error)
            for o in res.obligations:
                extra = ''
                if o.status == 'failed':
                    ms = [r[2] for r in o.results if r[0] == 'sat']
                    m = ms[0] or {}
                    extra = {k: v for k, v in m.items() if k.startswith('probe:') or k in ('exception', 'line')}
                    extra = '%d/%d paths fail %s' % (len(ms), len(o.results), extra)
                print('  %-10s %s (%d paths) %s' % (o.status, o.id.split('/',1)[1], len(o.results), extra))
            bad = {k: v for k, v in res.covers.items() if v != 'reachable'}
            if bad: print('  covers not reachable:', bad)
            if res.soft_skips: print('  soft skips:', res.soft_skips)
main()
