"""Property-level check: run the contract verification for the units a property
depends on, classify obligations, replay counterexamples, write evidence.

Exit codes: 0 held / 1 violation (VIOLATION line) / 2 undecided / 3 checker problem.
"""
import argparse
import json
import os
import re
import sys
import time

ROOT = os.path.dirname(os.path.dirname(os.path.abspath(__file__)))
sys.path.insert(0, ROOT)

from pyvc import driver  # noqa: E402

# property -> suites whose contracts carry clauses tagged with it
PROP_SUITES = {
    'C01': ['tcpcl'], 'C04': ['tcpcl'], 'C07': ['tcpcl'], 'C09': ['tcpcl', 'tagent'], 'C14': ['tcpcl'], 'C15': ['tcpcl'],
    'C17': ['tcpcl'], 'C18': ['tcpcl', 'udpcl', 'tagent'],
    'C02': ['bp'], 'C05': ['bp'], 'C06': ['bp'], 'C08': ['bp'], 'C10': ['bp'], 'C11': ['bp'], 'C12': ['bp'], 'C19': ['bp'],
    'C13': ['udpcl'], 'C20': ['btpu'],
}

GENERAL_ASSUMPTIONS = [
    'pyvc (the verification-condition generator written for this task) is itself trusted; mitigations: seeded-fault '
    'self-test, concrete replay of counterexamples',
    'Python int is mathematical (true in CPython); float arithmetic is not modelled (int(float) is an arbitrary integer)',
    'single-threaded GLib event loop: every handler runs to completion (no threads are started by the code)',
    'logging calls have no effect and raise nothing; constructs outside the modelled subset inside logging arguments are skipped',
    'scapy packets of the declarative classes behave as records of their fields_desc (+ payload link); bytes(pkt) is a '
    'function of the packet object',
    'registered callbacks (_on_close, _in_sess_func, _in_term_func, _on_state_change) do not touch the handler state and do not raise',
    'no in-memory buffer holds 2^62 octets or more',
    'termination is not proved (no decreases clauses except where stated)',
]


def load_known(path=None):
    path = path or os.path.join(ROOT, 'known_findings.json')
    if not os.path.exists(path):
        return []
    with open(path) as f:
        return json.load(f).get('findings', [])


def match_known(known, prop, ob_id):
    for k in known:
        if k.get('status', 'open') != 'open':
            continue
        # (a finding recorded under another property is still the same recorded finding when the
        # function is part of this property's dependency closure)
        if k.get('obligation') and re.fullmatch(k['obligation'], ob_id):
            return k
    return None


def load_baseline(suites):
    """Obligation ids that were discharged on the unchanged tree (committed under baseline/, written only by
    --write-baseline at development time).  An obligation listed there that now has a solver model against it
    is reported as a violation even when the model does not replay (line ends no-failing-input-found)."""
    ids = set()
    for s in suites:
        p = os.path.join(ROOT, 'baseline', s + '.json')
        if os.path.exists(p):
            with open(p) as f:
                ids |= set(json.load(f).get('discharged', []))
    return ids


def repo_src_hash(src=None):
    '''Hash over the repository's Python sources (tests excluded): tells the tree the baseline was written on
    from a changed one.'''
    import hashlib
    base = src or os.environ.get('PYVC_REPO_SRC') or '/repo/src'
    h = hashlib.sha256()
    files = []
    for root, _dirs, names in os.walk(base):
        if '/test' in root or '__pycache__' in root:
            continue
        files.extend(os.path.join(root, n) for n in names if n.endswith('.py'))
    for f in sorted(files):
        h.update(os.path.relpath(f, base).encode())
        with open(f, 'rb') as fh:
            h.update(hashlib.sha256(fh.read()).digest())
    return h.hexdigest()[:24]


def baseline_tree_hashes(suites):
    hs = set()
    for s in suites:
        p = os.path.join(ROOT, 'baseline', s + '.json')
        if os.path.exists(p):
            with open(p) as f:
                h = json.load(f).get('repo_src_hash')
            if h:
                hs.add(h)
    return hs


def write_baseline(suite, src=None):
    out = driver.run([suite], timeout_ms=10000, src=src, quiet=False, unit_limit_s=900)
    broken = ['%s (%s)' % (r['unit'], str(r.get('error') or r.get('timeout') or r.get('unsupported'))[:200])
              for r in out['results'] if r.get('error') or r.get('timeout') or r.get('unsupported')]
    if broken:
        # a baseline records what is provable on the unchanged tree: a unit that crashed or timed out would silently
        # drop its obligations from it
        print('baseline %s NOT written: unit(s) without a result: %s' % (suite, ', '.join(broken)))
        return 3
    ids = sorted({o['id'] for r in out['results'] for o in r['obligations'] if o['status'] == 'discharged'})
    bad = sorted({o['id'] for r in out['results'] for o in r['obligations'] if o['status'] != 'discharged'})
    os.makedirs(os.path.join(ROOT, 'baseline'), exist_ok=True)
    import subprocess
    head = subprocess.run(['git', '-C', '/repo', 'rev-parse', 'HEAD'], capture_output=True, text=True).stdout.strip()
    with open(os.path.join(ROOT, 'baseline', suite + '.json'), 'w') as f:
        json.dump({'repo_head': head, 'repo_src_hash': repo_src_hash(src), 'discharged': ids, 'not_discharged': bad}, f, indent=0)
    print('baseline %s: %d discharged, %d not' % (suite, len(ids), len(bad)))
    for b in bad:
        print('  not discharged:', b)
    return 0


# bounded stand-ins (labelled bounded in the evidence, never counted as proved): property -> script
PROP_BOUNDED = {
    'C07': 'harness/c07_bounded.py',
    'C05': 'harness/c05_bounded.py',
    'C06': 'harness/c06_bounded.py',
    'C08': 'harness/c08_bounded.py',
    'C09': 'harness/c09_drain.py',
    'C18': 'harness/c18_agent.py',
    'C10': 'harness/bp_scenarios.py --prop C10',
    'C11': 'harness/bp_scenarios.py --prop C11',
    'C12': 'harness/bp_scenarios.py --prop C12',
    'C19': 'harness/bp_scenarios.py --prop C19',
    'C13': 'harness/c13_bounded.py',
    'C20': 'harness/c20_bounded.py',
}


def run_bounded(prop, tier, src=None):
    '''-> (info dict for the evidence | None, [violation lines], [problems]): the property's bounded stand-in (if it has
    one) and the scenario battery of its stored demonstrations (harness/demo_battery.py), both labelled bounded'''
    import glob
    scripts = []
    if PROP_BOUNDED.get(prop):
        scripts.append(PROP_BOUNDED[prop])
    if glob.glob(os.path.join(ROOT, 'seeded', prop + '_*', 'demo*.py')):
        scripts.append('harness/demo_battery.py --prop ' + prop)
    main_info, lines, problems = None, [], []
    for script in scripts:
        info, ls, ps = _run_bounded_one(prop, script, tier, src, len(lines))
        lines.extend(ls)
        problems.extend(ps)
        if info is None:
            continue
        if main_info is None:
            main_info = info
        else:
            main_info.setdefault('also', []).append({k: v for k, v in info.items() if k != 'failures'})
            main_info['failures'] = main_info.get('failures', []) + info.get('failures', [])
    return main_info, lines, problems


def _run_bounded_one(prop, script, tier, src, n_before):
    import subprocess
    py = os.path.join(ROOT, '.venv', 'bin', 'python')
    env = dict(os.environ)
    if src:
        env['PYVC_REPO_SRC'] = src
    t0 = time.time()
    try:
        parts = script.split()
        p = subprocess.run([py, os.path.join(ROOT, parts[0])] + parts[1:] + ['--tier', tier], cwd=ROOT, capture_output=True,
                           text=True, timeout=3000, env=env)
    except subprocess.TimeoutExpired:
        return None, [], ['bounded stand-in %s timed out' % script]
    try:
        info = json.loads(p.stdout.strip().splitlines()[-1])
    except Exception:
        return None, [], ['bounded stand-in %s crashed: %s' % (script, (p.stderr or p.stdout)[-300:])]
    info['wall_s'] = round(time.time() - t0, 2)
    info['script'] = script
    lines = []
    os.makedirs(os.path.join(ROOT, 'replays'), exist_ok=True)
    seen = set()
    known = [k for k in load_known() if k.get('status', 'open') == 'open' and k.get('bounded_check')
             and k.get('property') == prop]
    known_hits = {}

    def is_known(f):
        # a recorded finding (known_findings.json) is identified by the failing check AND the failing inputs it lists
        # ('cases': the case records of the stand-in); another input failing the same check is a new violation
        for k in known:
            if re.fullmatch(k['bounded_check'], str(f.get('check'))) and f.get('case') in k.get('cases', []):
                return k
        return None
    for f in info.get('failures', []):
        kf = is_known(f)
        if kf is not None:
            known_hits.setdefault(kf['what'], []).append(f.get('case'))
            continue
        key = (f.get('check'), json.dumps(f.get('message'), sort_keys=True), f.get('stream'))
        if key in seen:
            continue
        seen.add(key)
        name = '%s-bounded-%s-%d.json' % (prop, re.sub(r'[^A-Za-z0-9]+', '_', str(f.get('check'))), n_before + len(lines))
        path = os.path.join(ROOT, 'replays', name)
        with open(path, 'w') as fh:
            json.dump({'property': prop, 'bounded': script, 'obligation': 'bounded stand-in %s: %s' % (script, f.get('check')),
                       'failure': f, 'repo_src': src or os.environ.get('PYVC_REPO_SRC') or '/repo/src'}, fh, indent=1)
        lines.append('VIOLATION property=%s replay=%s' % (prop, path))
        if len(lines) >= 5:
            break
    for what, cases in known_hits.items():
        print('KNOWN-FINDING: property=%s %s [bounded stand-in %s: %d input(s), e.g. %s]' % (
            prop, what, script, len(cases), json.dumps(cases[0])[:120]))
    info['known_findings_seen'] = [{'what': w, 'inputs': len(c)} for w, c in known_hits.items()]
    info['failures'] = [f for f in info.get('failures', []) if is_known(f) is None]
    return info, lines, []


def ob_relevant(o, prop, unit):
    '''Is this obligation part of the argument for `prop`?'''
    if prop in o['props']:
        return 'property'
    return 'aux'


def main(argv=None):
    ap = argparse.ArgumentParser()
    ap.add_argument('prop')
    ap.add_argument('--tier', default=os.environ.get('VERIF_TIER', 'quick'))
    ap.add_argument('--replay')
    ap.add_argument('--src', default=os.environ.get('PYVC_REPO_SRC'))
    ap.add_argument('--no-evidence', action='store_true')
    ap.add_argument('--write-baseline', action='store_true')
    a = ap.parse_args(argv)
    prop = a.prop
    if a.write_baseline:
        return write_baseline(prop, a.src)
    seed = int(os.environ.get('VERIF_SEED', '0') or 0)
    if a.replay:
        from pyvc import replay
        return replay.run_file(a.replay)
    t0 = time.time()
    suites = [s for s in PROP_SUITES.get(prop, []) if any(
        os.path.exists(os.path.join(ROOT, 'contracts', stem + '.py')) for stem in driver.SUITES[s])]
    if not suites:
        print('no contracts for %s' % prop)
        return 3
    timeout_ms = 10000 if a.tier == 'quick' else 60000
    out = driver.run(suites, props=[prop], timeout_ms=timeout_ms, src=a.src, quiet=True,
                     unit_limit_s=600 if a.tier == 'quick' else 3600)
    # modularity: a caller was checked against its callees' contracts, so the callees' own proofs
    # belong to the argument -- add the transitive closure of callees-by-contract
    results = list(out['results'])
    have = {r['function'] for r in results}
    for _i in range(6):
        need = set()
        for r in results:
            for k in r.get('callees_by_contract', []):
                if k not in have:
                    need.add(k)
        if not need:
            break
        more = driver.run(suites, keys=sorted(need), timeout_ms=timeout_ms, src=a.src, quiet=True,
                          unit_limit_s=600 if a.tier == 'quick' else 3600)
        have |= need
        results.extend(more['results'])
        for t in more['trusted']:
            if t not in out['trusted']:
                out['trusted'].append(t)
    seen_units = set()
    results = [r for r in results if not (r['unit'] in seen_units or seen_units.add(r['unit']))]
    # second opinion before anything is reported: a unit with an open obligation is run again on its own
    # (no reuse, fewer processes, twice the solver budget) so that a time-out under load is not mistaken
    # for a failed proof
    known = load_known()
    shaky = sorted({r['function'] for r in results if r.get('timeout') or r.get('error') or any(
        o['status'] != 'discharged' and match_known(known, prop, o['id']) is None for o in r['obligations'])})
    retried = []
    if shaky:
        again = driver.run(suites, keys=shaky, timeout_ms=timeout_ms * 2, src=a.src, quiet=True, procs=6,
                           unit_limit_s=900 if a.tier == 'quick' else 3600, no_cache=True)
        fresh = {r['unit']: r for r in again['results']}
        for i, r in enumerate(results):
            r2 = fresh.get(r['unit'])
            if r2 is None or r2.get('error'):
                continue
            st1 = {o['id']: o for o in r['obligations']}
            # per obligation: discharged in either run counts (each run is a proof attempt of the same VC)
            for o in r2['obligations']:
                o1 = st1.get(o['id'])
                if o['status'] != 'discharged' and o1 is not None and o1['status'] == 'discharged':
                    o.update(status='discharged', models=[], backends=o1['backends'])
            if r2.get('timeout') and not r.get('timeout'):
                continue
            results[i] = r2
            retried.append(r['unit'])
    baseline = load_baseline(suites)
    base_units = {b.split('/')[0] for b in baseline}
    base_trees = baseline_tree_hashes(suites)
    tree_changed = bool(base_trees) and repo_src_hash(a.src) not in base_trees
    lost = []
    violations = []
    undecided = []
    problems = []
    known_seen = []
    n_ob = n_dis = 0
    by_backend = {}
    samples = []
    functions = []
    solver_s = 0.0
    covers_bad = []
    for r in results:
        solver_s += r['solver_s']
        functions.append({'function': r['function'], 'unit': r['unit'], 'file': r['file'], 'lines': r['lines'],
                          'src_hash': r['src_hash'], 'stmts': r['stmts'], 'paths': r['paths'],
                          'solver_s': r['solver_s'], 'callees_by_contract': r['callees_by_contract'],
                          'soft_skips': r['soft_skips']})
        if r.get('error'):
            problems.append('%s: %s' % (r['unit'], r['error'][:300]))
            continue
        if r.get('timeout'):
            undecided.append('%s: %s' % (r['unit'], r['timeout']))
            continue
        if r.get('unsupported'):
            undecided.append('%s: outside the modelled subset: %s' % (r['unit'], r['unsupported']))
        if not r['obligations'] and not r.get('unsupported'):
            problems.append('%s: zero obligations generated (vacuous unit)' % r['unit'])
        for lab, st in r['covers'].items():
            if lab.endswith('/requires') and not str(st).startswith('reachable'):
                covers_bad.append('%s: %s' % (lab, st))
        for o in r['obligations']:
            n_ob += 1
            for b in o['backends']:
                by_backend[b] = by_backend.get(b, 0) + 1
            if o['status'] == 'discharged':
                n_dis += 1
                if len(samples) < 6 and prop in o['props']:
                    samples.append({'obligation': o['id'], 'status': 'discharged', 'paths': o['paths'],
                                    'solver_s': o['solver_s'], 'backends': o['backends']})
                continue
            kind = ob_relevant(o, prop, r)
            kf = match_known(known, prop, o['id'])
            if kf is not None:
                # a recorded finding: reported separately, not part of the obligations claimed discharged
                n_ob -= 1
                known_seen.append((kf, o))
                continue
            if o['status'] in ('failed', 'candidate'):
                # the solver has a model against the clause: a clause of the property itself, or an
                # auxiliary one (frame, callee precondition, loop invariant) the property's proof rests on
                violations.append((r, o, kind))
            elif tree_changed and o['id'] in baseline:
                # proved on the unchanged tree, not provable on this one (after the second run with twice the
                # budget), and the solver has no model either: reported as the failed obligation it is,
                # without a failing input
                lost.append((r, o, kind))
            else:
                undecided.append('%s: %s (%s clause)' % (o['id'], o['status'], kind))
    for msg in covers_bad:
        problems.append('vacuity guard: %s' % msg)
    # replay counterexamples
    vio_lines = []
    vio_notes = []
    if violations:
        from pyvc import replay
        violations.sort(key=lambda v: 0 if v[2] == 'property' else 1)
        for r, o, kind in violations:
            path, reproduced = replay.make_and_run(prop, r, o, a.src)
            # ("no undeclared exception escapes" exists as an obligation only when some path raises: on the
            # unchanged tree it is discharged by absence, so it is in the baseline whenever its unit is)
            in_base = o['id'] in baseline or (o['kind'] == 'no_exception' and o['id'].split('/')[0] in base_units)
            if not reproduced and o['status'] == 'candidate' and not in_base:
                # a candidate model (quantified hypotheses ignored) that does not replay, for an obligation
                # never seen discharged on the unchanged tree: no ground to call it a violation
                undecided.append('%s: candidate counterexample did not reproduce on the real code and the '
                                 'obligation is not in the baseline of discharged obligations' % o['id'])
                continue
            line = 'VIOLATION property=%s replay=%s' % (prop, path)
            note = 'failed obligation: %s (%s clause; solver: %s; %s)' % (
                o['id'], kind, o['status'], 'counterexample reproduced on the real code' if reproduced else
                'discharged on the unchanged tree, now refuted; the model did not replay')
            vio_notes.append(note)
            if not reproduced:
                line += ' no-failing-input-found'
            vio_lines.append(line)
    for r, o, kind in lost:
        from pyvc import replay
        path = replay.write_unproved(prop, r, o, a.src)
        vio_notes.append('failed obligation: %s (%s clause; discharged on the unchanged tree, not provable on this tree: '
                         'solver answers unknown within twice the budget, no counter-model)' % (o['id'], kind))
        vio_lines.append('VIOLATION property=%s replay=%s no-failing-input-found' % (prop, path))
    bounded, b_lines, b_problems = run_bounded(prop, a.tier, a.src)
    for line in b_lines:
        vio_notes.append('bounded stand-in found a failing input on the real code (see the replay file)')
    vio_lines.extend(b_lines)
    problems.extend(b_problems)
    for kf, o in known_seen:
        if kf['property'] == prop:
            print('KNOWN-FINDING: property=%s %s [%s]' % (prop, kf['what'], o['id']))
    for note in vio_notes:
        print(note)
    for line in vio_lines:
        print(line)
    wall = time.time() - t0
    trusted = ['%s (assumed contract: %s)' % (t['function'], t['reason']) for t in out['trusted']]
    spec_assumptions = []
    for s in suites:
        spec_assumptions.extend(out['specs'][s].assumptions)
    ev = {
        'property_id': prop, 'tier': a.tier, 'seed': seed, 'level': 'proof',
        'coverage': {
            'obligations': n_ob, 'discharged': n_dis,
            'checker_cmd': './check %s --tier %s  (pyvc: AST -> verification conditions; z3 %s in-process, cvc5 / z3 '
                           'command line for sequence queries)' % (prop, a.tier, _z3_version()),
            'trusted_base': trusted + ['z3 / cvc5 SMT solvers', 'pyvc VC generator'],
            'functions_under_contract': functions,
            'by_backend': by_backend, 'solver_s': round(solver_s, 2),
            'units': len(results),
            'units_reused': sum(1 for r in results if r.get('from_cache')),
            'units_reused_note': 'a unit result is reused only when the hash over the repository sources, all contract '
                                 'files, the engine and the solver budget is identical (several property checks of one '
                                 'tree state share most units); PYVC_NO_CACHE=1 disables reuse',
            'undecided': undecided, 'checker_problems': problems, 'units_run_twice': retried,
            'known_findings_seen': [{'what': kf['what'], 'obligation': o['id']} for kf, o in known_seen],
            'violations': vio_lines, 'failed_obligations': vio_notes,
            'bounded': ({k: v for k, v in bounded.items() if k != 'failures'} if bounded else None),
            'bounded_note': 'coverage.bounded is a BOUNDED stand-in for an assumed contract (stated there); it is not '
                            'part of obligations/discharged and is never counted as proved',
            'samples': samples,
            'explanation': 'obligations are contract clauses (ensures / raises / invariants / callee preconditions / '
                           'frame / D-Bus signature conformance) of the functions listed, generated from the current '
                           'source text and discharged per execution path; counts include auxiliary clauses of the '
                           'same units',
        },
        'assumptions': GENERAL_ASSUMPTIONS + spec_assumptions,
        'wall_s': round(wall, 2), 'violations': len(vio_lines),
    }
    if not a.no_evidence:
        os.makedirs(os.path.join(ROOT, 'evidence'), exist_ok=True)
        with open(os.path.join(ROOT, 'evidence', '%s.json' % prop), 'w') as f:
            json.dump(ev, f, indent=1, default=str)
    print('%s: %d obligations, %d discharged, %d known findings, %d violations, %d undecided, %d checker problems (%.0fs)'
          % (prop, n_ob, n_dis, len(known_seen) + len((bounded or {}).get('known_findings_seen', [])), len(vio_lines),
             len(undecided), len(problems), wall))
    for u in undecided[:20]:
        print('  undecided:', u)
    for p in problems[:20]:
        print('  problem:', p)
    if vio_lines:
        return 1
    if problems:
        return 3
    if undecided:
        return 2
    return 0


def _z3_version():
    try:
        import z3
        return z3.get_version_string()
    except Exception:
        return '?'


if __name__ == '__main__':
    try:
        rc = main()
    except SystemExit:
        raise
    except BaseException as err:  # noqa
        # a crash of the checker is a checker problem (exit 3), never a verdict
        import traceback
        print('problem: checker crashed: %r' % (err,))
        print(traceback.format_exc()[-1500:])
        rc = 3
    sys.exit(rc)
