"""Expression evaluation (code mode and spec mode)."""
import ast
import z3

from .sym import (V, Py, is_py, NONE, TPy, Unsupported, mk_int, mk_bool, mk_bytes_const, mk_str_const,
                  fresh, fresh_name, truthy, py_len, eq, ite, coerce, opt_wrap, int_and_const,
                  concrete_int, seq_slice, class_tag, func_tag)
from .types import (TInt, TBool, TNone, TBytes, TStr, TFloat, TAny, TClassT, TFuncT, TRef, TPkt, TOpt,
                    TUnion, TList, TSet, TDict, TTuple, NAMED)
from .core import PyExc, ExcVal, PathEnd
from .program import const_eval, BindError
from . import lists as L


class ExprMixin:

    # ------------------------------------------------------------------ raise
    def py_raise(self, cls, *args):
        if self.spec_mode:
            raise Unsupported('exception %s in specification expression' % cls)
        raise PyExc(ExcVal(cls, args))

    def need(self, cond, exc_cls, *args):
        '''Continue only where cond holds; otherwise the Python exception.'''
        if self.spec_mode:
            return
        if not self.branch(cond):
            self.py_raise(exc_cls, *args)

    def key_of(self, v, kt):
        '''A value used as key of a typed dict.  An Optional key must be provably
        not None here (None keys are outside the dict model).'''
        if isinstance(v.t, TOpt) and not isinstance(kt, TOpt):
            if not self.spec_mode:
                if not self.entails(z3.Not(v.t.is_none(v.z))):
                    raise Unsupported('possibly None used as key / element of a typed container')
            v = V(v.t.inner, v.t.val(v.z))
        return coerce(v, kt)

    def unopt(self, v, exc='TypeError'):
        """Use of an Optional value where a concrete one is required."""
        if isinstance(v.t, TOpt):
            if not self.spec_mode:
                self.need(z3.Not(v.t.is_none(v.z)), exc)
            return V(v.t.inner, v.t.val(v.z))
        if v.t is TNone and not self.spec_mode:
            self.py_raise(exc)
        return v

    # ------------------------------------------------------------------ entry
    def ev(self, node):
        m = getattr(self, 'ev_' + type(node).__name__, None)
        if m is None:
            raise Unsupported('expression %s' % type(node).__name__)
        return m(node)

    def ev_bool(self, node):
        '''Evaluate for truthiness -> z3 Bool (may branch inside in code mode).'''
        return truthy(self.ev(node))

    def test(self, node):
        '''Python-level decision on a condition (code mode).'''
        return self.branch(self.ev_bool(node))

    # --------------------------------------------------------------- literals
    def ev_Constant(self, node):
        v = node.value
        if v is None:
            return NONE
        if isinstance(v, bool):
            return mk_bool(v)
        if isinstance(v, int):
            return mk_int(v)
        if isinstance(v, bytes):
            r = mk_bytes_const(v)
            r.py = ('byteslit', v)
            return r
        if isinstance(v, str):
            return mk_str_const(v)
        if isinstance(v, float):
            return V(TFloat, z3.Const(fresh_name('flt'), TFloat.sort()), py=('floatlit', v))
        raise Unsupported('constant %r' % (v,))

    def ev_JoinedStr(self, node):
        for part in node.values:
            if isinstance(part, ast.FormattedValue):
                self.ev_soft(part.value)
        return self.opaque_str()

    def opaque_str(self):
        S = TStr.sort()
        return V(TStr, S.opaque(z3.Int(fresh_name('opq'))))

    def ev_soft(self, node):
        '''Evaluate for definedness; constructs outside the subset are skipped
        (used for logging / message formatting arguments only).'''
        try:
            return self.ev(node)
        except Unsupported as err:
            self.soft_skips.add(str(err))
            return None

    def ev_Tuple(self, node):
        items = [self.ev(e) for e in node.elts]
        return self.mk_tuple(items)

    def mk_tuple(self, items):
        if any(i.t is TPy for i in items):
            return Py('pytuple', tuple(items))
        tt = TTuple([i.t for i in items])
        return V(tt, tt.mk(*[(i.z if i.t is not TNone else z3.BoolVal(True)) for i in items]), py=('tupitems', tuple(items)))

    def tuple_items(self, v):
        if is_py(v, 'pytuple') or is_py(v, 'pylist'):
            return list(v.py[1])
        if isinstance(v.t, TTuple):
            if v.py and v.py[0] == 'tupitems':
                return list(v.py[1])
            return [V(t, v.t.get(i, v.z)) if t is not TNone else NONE for i, t in enumerate(v.t.elems)]
        raise Unsupported('not a tuple: %s' % v.t)

    def ev_List(self, node):
        items = [self.ev(e) for e in node.elts]
        return self.mk_list(items)

    def mk_list(self, items, elem_t=None):
        if not items:
            if elem_t is not None:
                lt = TList(elem_t)
                return V(lt, L.l_empty(lt))
            lt = TList(TInt)
            return V(lt, L.l_empty(lt), py=('emptylist',))
        et = elem_t or items[0].t
        lt = TList(et)
        try:
            zs = [coerce(i, et).z for i in items]
        except Unsupported:
            if elem_t is not None or et is TPy:
                raise
            # a list display of values of different kinds (e.g. [id, length, offset, data]): kept as written
            return Py('pylist', tuple(items))
        return V(lt, L.l_from_items(lt, zs), py=('listlit', tuple(zs)))

    def ev_Dict(self, node):
        if not node.keys:
            dt = TDict(TInt, TInt)
            return V(dt, None, py=('emptydict',))
        if all(isinstance(k, ast.Constant) and isinstance(k.value, str) for k in node.keys):
            return Py('kwdict', {k.value: self.ev(v) for k, v in zip(node.keys, node.values)})
        if all(k is not None for k in node.keys):
            keys = [self.ev(k) for k in node.keys]
            if all(k.t is TInt and concrete_int(k.z) is not None for k in keys):
                # a dict display with constant integer keys (e.g. enum members): kept as written
                return Py('pydict', tuple((k, self.ev(v)) for k, v in zip(keys, node.values)))
        raise Unsupported('dict display')

    def ev_Set(self, node):
        items = [self.ev(e) for e in node.elts]
        if items and all(i.t is TInt for i in items):
            # a set display of numbers
            t = TSet(TInt)
            z = t.empty()
            for i in items:
                z = z3.Store(z, i.z, True)
            return V(t, z)
        raise Unsupported('set display')

    # ------------------------------------------------------------------ names
    def ev_Name(self, node):
        name = node.id
        fr = self.frame
        if name in fr.locals:
            v = fr.locals[name]
            if v.lval is not None and v.lval[0] == 'field':
                # alias of a container held in a field: reference semantics
                _k, ref, key = v.lval
                return self.read_heap(ref, key, v.t)
            return v
        if self.spec_mode:
            r = self.spec_name(name)
            if r is not None:
                return r
        return self.resolve_global(name, fr.module)

    def resolve_global(self, name, module):
        if name in ('True', 'False'):
            return mk_bool(name == 'True')
        if name in module.functions:
            return Py('func', module, None, module.functions[name])
        if name in module.classes:
            return Py('class', module.classes[name].qualname, module.classes[name])
        if name in module.assigns:
            try:
                return self.const_to_v(const_eval(module.assigns[name]))
            except ValueError:
                return Py('global', module.name, name)
        imp = module.imports.get(name)
        if imp is not None:
            return self.resolve_import(imp)
        if name in BUILTIN_NAMES:
            return Py('builtin', name)
        if name in BUILTIN_EXC or name in ('Exception', 'BaseException'):
            return Py('excclass', name)
        raise Unsupported('unknown name %s' % name)

    def resolve_import(self, imp):
        if imp[0] == 'module':
            dotted = imp[1]
            if self.prog.has_module(dotted):
                return Py('module', dotted)
            return Py('extmodule', dotted)
        _f, base, attr = imp
        if base == 'builtins':
            return Py('builtin', attr)
        sub = base + '.' + attr if base else attr
        if self.prog.has_module(sub):
            return Py('module', sub)
        if base and self.prog.has_module(base):
            return self.module_attr(self.prog.module(base), attr)
        return Py('ext', sub)

    def module_attr(self, m, attr):
        if attr in m.classes:
            return Py('class', m.classes[attr].qualname, m.classes[attr])
        if attr in m.functions:
            return Py('func', m, None, m.functions[attr])
        if attr in m.assigns:
            try:
                return self.const_to_v(const_eval(m.assigns[attr]))
            except ValueError:
                return Py('global', m.name, attr)
        imp = m.imports.get(attr)
        if imp is not None:
            return self.resolve_import(imp)
        for sm in getattr(m, 'star_imports', ()):
            if self.prog.has_module(sm):
                try:
                    return self.module_attr(self.prog.module(sm), attr)
                except BindError:
                    continue
        raise BindError('%s has no attribute %s' % (m.name, attr))

    def const_to_v(self, c):
        if c is None:
            return NONE
        if isinstance(c, bool):
            return mk_bool(c)
        if isinstance(c, int):
            return mk_int(c)
        if isinstance(c, bytes):
            r = mk_bytes_const(c)
            r.py = ('byteslit', c)
            return r
        if isinstance(c, str):
            return mk_str_const(c)
        if isinstance(c, float):
            return V(TFloat, z3.Const(fresh_name('flt'), TFloat.sort()), py=('floatlit', c))
        raise Unsupported('constant %r' % (c,))

    # ------------------------------------------------------------- attributes
    def ev_Attribute(self, node):
        base = self.ev(node.value)
        return self.get_attr(base, node.attr, node)

    def mangle(self, attr):
        if attr.startswith('__') and not attr.endswith('__') and self.frame.cls is not None:
            return '_%s%s' % (self.frame.cls.name.lstrip('_'), attr)
        return attr

    def class_attr(self, ci, attr):
        '''Attribute of a repo class object: constant, enum member, inner class, method.'''
        mro, _ext = self.prog.mro(ci.module.name, ci.qualname)
        for c in mro:
            if attr in c.inner:
                return Py('class', c.inner[attr].qualname, c.inner[attr])
            if attr in c.assigns and c.assigns[attr] is not None:
                try:
                    env = {}
                    for k, a in c.assigns.items():
                        if k != attr and a is not None:
                            try:
                                env[k] = const_eval(a)
                            except ValueError:
                                pass
                    return self.const_to_v(const_eval(c.assigns[attr], env))
                except ValueError:
                    return Py('classattr', c.qualname, attr)
            if attr in c.methods:
                return Py('func', c.module, c, c.methods[attr])
        return None

    def get_attr(self, base, attr, node=None):
        t = base.t
        if t is TPy:
            kind = base.py[0]
            if kind == 'module':
                return self.module_attr(self.prog.module(base.py[1]), attr)
            if kind in ('extmodule', 'ext'):
                dotted = base.py[1] + '.' + attr
                if dotted in EXT_CONSTS:
                    return mk_int(EXT_CONSTS[dotted])
                return Py('ext', dotted)
            if kind == 'class':
                r = self.class_attr(base.py[2], attr)
                if r is None:
                    raise Unsupported('class attribute %s.%s' % (base.py[1], attr))
                return r
            if kind == 'exc':
                ev = base.py[1]
                if attr in ev.attrs:
                    return ev.attrs[attr]
                if attr == 'args':
                    return self.mk_tuple(ev.args)
                raise Unsupported('exception attribute %s' % attr)
            if kind == 'ghost':
                if attr not in self.st.ghost:
                    raise Unsupported('ghost.%s not declared' % attr)
                return self.st.ghost[attr]
            if kind in ('kwdict', 'pydict'):
                return Py('boundbuiltin', base, attr)
            if kind == 'pktfields':
                return Py('pktfields_m', base.py[1], attr)
            if kind == 'dynpayload':
                hook = self.spec.callbacks.get('dynpayload_attr')
                r = hook(self, base.py[1], attr) if hook is not None else None
                if r is not None:
                    return r
                return Py('extobj', 'dynpayload_m', base.py[1], attr)
            if kind == 'extobj':
                hook = self.spec.callbacks.get('extobj_attr')
                r = hook(self, base, attr) if hook is not None else None
                if r is None:
                    raise Unsupported('attribute %s of %s' % (attr, base.py[1]))
                return r
            if kind == 'super':
                _k, ci, selfv = base.py
                found = self.prog.find_method(self.self_pyclass(selfv)[0], self.self_pyclass(selfv)[1], attr, after=ci)
                if found is None:
                    return Py('extmethod', selfv, attr)
                return Py('bound', selfv, found[0], found[1])
            if kind == 'excclass':
                return Py('ext', base.py[1] + '.' + attr)
            if kind == 'anyattr':
                return Py('anyattr', base.py[1], base.py[2] + '.' + attr)
            if kind == 'global':
                # attribute of a module-level object the engine cannot evaluate (e.g. an API object made by a library
                # call): an external function named module.name.attr, modelled by the contracts or unsupported
                return Py('ext', '%s.%s.%s' % (base.py[1], base.py[2], attr))
            raise Unsupported('attribute %s of %s' % (attr, kind))
        if isinstance(t, TOpt):
            if self.spec_mode:
                return self.get_attr(V(t.inner, t.val(base.z)), attr, node)
            self.need(z3.Not(t.is_none(base.z)), 'AttributeError')
            return self.get_attr(V(t.inner, t.val(base.z), lval=None), attr, node)
        if t is TNone:
            self.py_raise('AttributeError')
        if isinstance(t, TRef):
            return self.obj_attr(base, t.cls, attr)
        if isinstance(t, TPkt):
            return self.pkt_attr(base, attr)
        if isinstance(t, TTuple) and attr in t.names:
            i = t.index_of(attr)
            return V(t.elems[i], t.get(i, base.z))
        if isinstance(t, (TList, TSet, TDict)) or t in (TBytes, TStr) or (t is TInt and attr == 'to_bytes'):
            return Py('boundbuiltin', base, attr)
        if isinstance(t, TAny):
            return Py('anyattr', base, attr)
        if isinstance(t, TUnion):
            raise Unsupported('attribute on union')
        raise Unsupported('attribute %s on %s' % (attr, t))

    def obj_attr(self, base, schema, attr):
        attr = self.mangle(attr)
        f = self.spec.field(schema, attr)
        if f is not None:
            decl, ft = f
            return self.read_heap(base, (decl, attr), ft)
        # method or class constant
        sc = self.spec.schemas.get(schema)
        if sc is not None and sc.pyclass is not None:
            mod, cls = sc.pyclass
            found = self.prog.find_method(mod, cls, attr)
            if found is None and attr.startswith('_') and '__' in attr[1:]:
                # name-mangled private method: stored under its source name
                found = self.prog.find_method(mod, cls, '__' + attr.split('__', 1)[1])
            if found is not None:
                if any(isinstance(d, ast.Name) and d.id == 'property' for d in found[1].decorator_list) \
                        and not self.spec_mode:
                    # a read of a @property: the getter is called
                    return self.call_repo(found[0].module, found[0], found[1], [base], {}, None)
                return Py('bound', base, found[0], found[1])
            r = self.class_attr(self.prog.cls(mod, cls), attr)
            if r is not None:
                return r
            return Py('extmethod', base, attr)
        bm = ('objmethod', schema, attr)
        return Py('boundbuiltin', base, attr)

    def read_heap(self, ref, key, ft):
        arr = self.heap_arr(key, ft)
        if ft is TNone:
            return NONE
        v = V(ft, z3.Select(arr, ref.z))
        if isinstance(ft, (TList, TSet, TDict)) and not self.spec_mode:
            # mutable containers held in a field have reference semantics (bytes are immutable;
            # a bytearray field is always mutated through its attribute expression)
            v.lval = ('field', ref, key)
        if not self.spec_mode:
            self.assume_wf(v)
        return v

    def heap_arr(self, key, ft):
        arr = self.st.heap.get(key)
        if arr is None:
            arr = z3.Const('H_%s_%s' % key + fresh_name(''), z3.ArraySort(z3.IntSort(), ft.sort()))
            self.st.heap[key] = arr
            if self.old is not None and key not in self.old.heap:
                self.old.heap[key] = arr
        return arr

    def write_heap(self, ref, key, ft, val):
        arr = self.heap_arr(key, ft)
        v = coerce(val, ft)
        z = v.z if ft is not TNone else z3.BoolVal(True)
        self.st.heap[key] = z3.Store(arr, ref.z, z)
        self.written.add(key)

    # packets -------------------------------------------------------------
    def pkt_schema(self, layer):
        sc = self.spec.schemas.get('pkt:' + layer)
        if sc is None:
            raise Unsupported('no packet schema for %s' % layer)
        return sc

    def pkt_layer_ref(self, base, idx):
        '''Reference of layer idx of packet value base (walk payload links).'''
        ref = base
        layers = base.t.layers
        for i in range(idx):
            z = z3.Select(self.heap_arr(('pkt:' + layers[i], 'payload'), TInt), ref.z)
            ref = V(TPkt(layers[i + 1:]), z)
        return ref

    def pkt_attr(self, base, attr):
        layers = base.t.layers
        if attr in ('fields', 'overloaded_fields'):
            # scapy's per-instance value dicts: modelled as a view of the packet record, sound for fields whose
            # declared default is None (unset and None are then the same reading); checked at each access
            return Py('pktfields', base, attr)
        if attr == 'payload':
            if len(layers) < 2 and '_pcls' in self.pkt_schema(layers[0]).fields and not self.spec_mode:
                # the class of the payload is not known statically: a dynamic payload handle
                return Py('dynpayload', base)
            if len(layers) < 2:
                return Py('nopayload')
            return self.pkt_layer_ref(base, 1)
        for i, layer in enumerate(layers):
            sc = self.pkt_schema(layer)
            if attr in sc.fields:
                ref = self.pkt_layer_ref(base, i)
                return self.read_heap(ref, ('pkt:' + layer, attr), sc.fields[attr])
        # method?
        sc = self.pkt_schema(layers[0])
        if sc.pyclass is not None:
            found = self.prog.find_method(sc.pyclass[0], sc.pyclass[1], attr)
            if found is not None:
                return Py('bound', base, found[0], found[1])
            # class-level constant of the packet class (e.g. AbstractBlock.crc_type_name)
            r = self.class_attr(self.prog.cls(*sc.pyclass), attr)
            if r is not None:
                return r
        if attr in PKT_METHODS:
            return Py('pktmethod', base, attr)
        # scapy: attribute not declared by any layer
        self.py_raise('AttributeError')

    # ------------------------------------------------------------- subscripts
    def ev_Subscript(self, node):
        base = self.ev(node.value)
        if isinstance(node.slice, ast.Slice):
            return self.do_slice(base, node.slice)
        idx = self.ev(node.slice)
        return self.get_item(base, idx)

    def nonneg_or_unsupported(self, z, what):
        if self.spec_mode:
            return
        if not self.entails(z >= 0):
            # once more with the obligation budget (the fact may need instantiations of quantified invariants)
            saved = self.branch_timeout_ms
            self.branch_timeout_ms = self.check_timeout_ms
            try:
                ok = self.entails(z >= 0)
            finally:
                self.branch_timeout_ms = saved
            if not ok:
                raise Unsupported('possibly negative %s' % what)

    def do_slice(self, base, sl):
        if sl.step is not None:
            raise Unsupported('slice step')
        t = base.t
        if isinstance(t, TOpt):
            if not self.spec_mode:
                self.need(z3.Not(t.is_none(base.z)), 'TypeError')
            return self.do_slice(V(t.inner, t.val(base.z)), sl)
        if isinstance(t, TTuple):
            items = self.tuple_items(base)
            lo = const_eval(sl.lower) if sl.lower is not None else None
            hi = const_eval(sl.upper) if sl.upper is not None else None
            return self.mk_tuple(items[lo:hi])
        if isinstance(t, TAny):
            lo = const_eval(sl.lower) if sl.lower is not None else None
            hi = const_eval(sl.upper) if sl.upper is not None else None
            r = self.any_op('slice', [base, lo, hi])
            if r is not None:
                return r
        if not (t is TBytes or isinstance(t, TList)):
            raise Unsupported('slice of %s' % t)
        n = py_len(base)
        lo = self.ev(sl.lower).z if sl.lower is not None else z3.IntVal(0)
        hi = self.ev(sl.upper).z if sl.upper is not None else n
        self.nonneg_or_unsupported(lo, 'slice bound')
        self.nonneg_or_unsupported(hi, 'slice bound')
        if isinstance(t, TList):
            return V(t, L.l_slice(t, base.z, lo, hi))
        return V(t, z3.simplify(seq_slice(base.z, lo, hi)))

    def pkt_field_named(self, pkt, name_v, what):
        '''(layer index, layer, field) of the packet field a pkt.fields access names; the view is valid only
        for a field whose declared default is None'''
        if not (name_v.py and name_v.py[0] == 'strlit'):
            raise Unsupported('%s with a symbolic field name' % what)
        fn = name_v.py[1]
        for i, layer in enumerate(pkt.t.layers):
            sc = self.pkt_schema(layer)
            if fn in sc.fields:
                if sc.pyclass is not None:
                    ci = self.prog.cls(*sc.pyclass)
                    for dn, default, _o in self.pkt_defaults(ci):
                        if dn == fn and default is not None and not (isinstance(default, ast.Constant) and default.value is None):
                            raise Unsupported('%s of field %s whose default is not None' % (what, fn))
                return i, layer, fn
        raise Unsupported('%s of unknown field %s' % (what, fn))

    def get_item(self, base, idx):
        t = base.t
        if is_py(base, 'pktfields'):
            i, layer, fn = self.pkt_field_named(base.py[1], idx, 'fields[...]')
            ft = self.pkt_schema(layer).fields[fn]
            v = self.read_heap(self.pkt_layer_ref(base.py[1], i), ('pkt:' + layer, fn), ft)
            if isinstance(ft, TOpt):
                self.need(z3.Not(ft.is_none(v.z)), 'KeyError')
            return v
        if is_py(base, 'classattr') or is_py(base, 'extobj'):
            hook = self.spec.callbacks.get('extobj_item')
            r = hook(self, base, idx) if hook is not None else None
            if r is None:
                raise Unsupported('subscript of %s' % (base.py[1:],))
            return r
        if is_py(base, 'kwdict') and idx.t is TStr:
            # a dict display with literal text keys, indexed by a text value: one branch per key
            if idx.py and idx.py[0] == 'strlit':
                if idx.py[1] in base.py[1]:
                    return base.py[1][idx.py[1]]
                self.py_raise('KeyError')
            for k, v in base.py[1].items():
                if self.branch(eq(idx, mk_str_const(k))):
                    return v
            self.py_raise('KeyError')
        if isinstance(t, TOpt):
            self.need(z3.Not(t.is_none(base.z)), 'TypeError')
            return self.get_item(V(t.inner, t.val(base.z)), idx)
        if isinstance(t, TAny) and idx.t is TInt and concrete_int(idx.z) is not None:
            r = self.any_op('index', [base, concrete_int(idx.z)])
            if r is not None:
                return r
        if isinstance(t, TDict):
            k = self.key_of(idx, t.k)
            self.need(z3.Select(t.dom(base.z), k.z), 'KeyError')
            v = V(t.v, z3.Select(t.map(base.z), k.z))
            if not self.spec_mode:
                self.assume_wf(v)
            return v
        if isinstance(t, TList) or t is TBytes:
            if idx.t is not TInt:
                raise Unsupported('index type %s' % idx.t)
            n = py_len(base)
            nth = (lambda k: L.l_get(t, base.z, k)) if isinstance(t, TList) else (lambda k: base.z[k])
            ci = concrete_int(idx.z)
            if ci is not None and ci < 0:
                self.need(n >= -ci, 'IndexError')
                z = nth(n + ci)
            else:
                self.nonneg_or_unsupported(idx.z, 'index')
                self.need(idx.z < n, 'IndexError')
                z = nth(idx.z)
            et = TInt if t is TBytes else t.elem
            v = V(et, z)
            if not self.spec_mode:
                self.assume_wf(v)
            return v
        if isinstance(t, TTuple) or is_py(base, 'pytuple') or is_py(base, 'pylist'):
            ci = concrete_int(idx.z)
            if ci is None:
                raise Unsupported('symbolic tuple index')
            items = self.tuple_items(base)
            if not (-len(items) <= ci < len(items)):
                self.py_raise('IndexError')
            return items[ci]
        if is_py(base, 'pydict'):
            # a dict display with concrete integer keys
            ci = concrete_int(idx.z) if idx.t is TInt else None
            if ci is None:
                raise Unsupported('dict display indexed by a symbolic key')
            for k, v in base.py[1]:
                if concrete_int(k.z) == ci:
                    return v
            self.py_raise('KeyError')
        if is_py(base, 'kwdict'):
            if idx.py and idx.py[0] == 'strlit':
                d = base.py[1]
                if idx.py[1] not in d:
                    self.py_raise('KeyError')
                return d[idx.py[1]]
        if isinstance(t, TAny):
            return self.any_item(base, idx)
        raise Unsupported('subscript of %s' % t)

    # -------------------------------------------------------------- operators
    def ev_UnaryOp(self, node):
        if isinstance(node.op, ast.Not):
            return mk_bool(z3.Not(self.ev_bool(node.operand)))
        v = self.ev(node.operand)
        if isinstance(node.op, ast.USub) and v.t is TInt:
            return mk_int(-v.z)
        if isinstance(node.op, ast.Invert) and v.t is TInt:
            c = concrete_int(v.z)
            if c is not None:
                return V(TInt, z3.IntVal(~c), py=('invmask', c))
        raise Unsupported('unary op')

    def ev_BoolOp(self, node):
        if self.spec_mode:
            is_and = isinstance(node.op, ast.And)
            zs = []
            for vnode in node.values:
                zb = truthy(self.ev(vnode))
                zs.append(zb)
                sb = z3.simplify(zb)
                # static short-circuit (later operands may be ill-typed for this case)
                if is_and and z3.is_false(sb):
                    return mk_bool(False)
                if not is_and and z3.is_true(sb):
                    return mk_bool(True)
            return mk_bool(z3.And(*zs) if is_and else z3.Or(*zs))
        is_and = isinstance(node.op, ast.And)
        cur = self.ev(node.values[0])
        for nxt in node.values[1:]:
            c = truthy(cur)
            go_on = self.branch(c) if is_and else not self.branch(c)
            if not go_on:
                return cur
            cur = self.ev(nxt)
        return cur

    def ev_IfExp(self, node):
        if self.spec_mode:
            c = self.ev_bool(node.test)
            a = self.ev(node.body)
            b = self.ev(node.orelse)
            if a.t != b.t:
                if isinstance(a.t, TOpt) or isinstance(b.t, TOpt) or a.t is TNone or b.t is TNone:
                    tt = a.t if isinstance(a.t, TOpt) else (b.t if isinstance(b.t, TOpt) else TOpt(a.t if a.t is not TNone else b.t))
                    a, b = opt_wrap(a, tt), opt_wrap(b, tt)
            return ite(c, a, b)
        if self.test(node.test):
            return self.ev(node.body)
        return self.ev(node.orelse)

    def as_int(self, v):
        if v.t is TInt:
            return v.z
        if v.t is TBool:
            return z3.If(v.z, 1, 0)
        raise Unsupported('integer expected, got %s' % v.t)

    def ev_BinOp(self, node):
        a = self.ev(node.left)
        b = self.ev(node.right)
        return self.binop(node.op, a, b)

    def any_op(self, op, args):
        '''operations on opaque values: the contract suite may give them a meaning (callback 'any_op')'''
        hook = self.spec.callbacks.get('any_op')
        return hook(self, op, args) if hook is not None else None

    def binop(self, op, a, b):
        ta, tb = a.t, b.t
        if isinstance(op, ast.Add) and isinstance(ta, TAny):
            r = self.any_op('add', [a, b])
            if r is not None:
                return r
        if isinstance(op, ast.Div) and isinstance(ta, TPkt) and isinstance(tb, TPkt):
            return self.pkt_compose(a, b)
        if isinstance(op, ast.Div) and isinstance(ta, TPkt) and is_py(b, 'nopayload'):
            return a
        if isinstance(ta, TOpt) and not self.spec_mode:
            self.need(z3.Not(ta.is_none(a.z)), 'TypeError')
            return self.binop(op, V(ta.inner, ta.val(a.z)), b)
        if isinstance(tb, TOpt) and not self.spec_mode:
            self.need(z3.Not(tb.is_none(b.z)), 'TypeError')
            return self.binop(op, a, V(tb.inner, tb.val(b.z)))
        if isinstance(ta, TOpt) and self.spec_mode:
            return self.binop(op, V(ta.inner, ta.val(a.z)), b)
        if isinstance(tb, TOpt) and self.spec_mode:
            return self.binop(op, a, V(tb.inner, tb.val(b.z)))
        if ta is TFloat or tb is TFloat:
            # exact only for int * integral float literal (e.g. x * 1e3)
            if isinstance(op, ast.Mult):
                for x, y in ((a, b), (b, a)):
                    if y.py and y.py[0] == 'floatlit' and float(y.py[1]).is_integer() and x.t is TInt:
                        return V(TFloat, z3.Const(fresh_name('flt'), TFloat.sort()), py=('intfloat', x.z * int(y.py[1])))
            if isinstance(op, ast.Div) and not self.spec_mode:
                self.float_div_check(b)
            return V(TFloat, z3.Const(fresh_name('flt'), TFloat.sort()))
        if ta in (TInt, TBool) and tb in (TInt, TBool):
            x, y = self.as_int(a), self.as_int(b)
            if isinstance(op, ast.Add):
                return mk_int(x + y)
            if isinstance(op, ast.Sub):
                return mk_int(x - y)
            if isinstance(op, ast.Mult):
                return mk_int(x * y)
            if isinstance(op, (ast.FloorDiv, ast.Mod)):
                self.need(y != 0, 'ZeroDivisionError')
                cy = concrete_int(y)
                if cy is None or cy <= 0:
                    # z3 div/mod are euclidean; equal to floor semantics for positive divisor
                    self.nonneg_or_unsupported(y, 'divisor (floor semantics modelled for positive divisors)')
                return mk_int(x / y if isinstance(op, ast.FloorDiv) else x % y)
            if isinstance(op, ast.Div):
                self.need(y != 0, 'ZeroDivisionError')
                return V(TFloat, z3.Const(fresh_name('flt'), TFloat.sort()))
            if isinstance(op, ast.BitAnd):
                cb, ca = concrete_int(y), concrete_int(x)
                if b.py and b.py[0] == 'invmask':
                    self.nonneg_or_unsupported(x, 'operand of &')
                    return mk_int(x - int_and_const(x, b.py[1]))
                if cb is not None and cb >= 0:
                    self.nonneg_or_unsupported(x, 'operand of &')
                    return mk_int(int_and_const(x, cb))
                if ca is not None and ca >= 0:
                    self.nonneg_or_unsupported(y, 'operand of &')
                    return mk_int(int_and_const(y, ca))
                raise Unsupported('& with two symbolic operands')
            if isinstance(op, ast.BitOr):
                cb, ca = concrete_int(y), concrete_int(x)
                if cb is None and ca is not None:
                    x, y, cb = y, x, ca
                if cb is not None and cb >= 0:
                    self.nonneg_or_unsupported(x, 'operand of |')
                    return mk_int(x + cb - int_and_const(x, cb))
                raise Unsupported('| with two symbolic operands')
            if isinstance(op, ast.Pow):
                ca, cb = concrete_int(x), concrete_int(y)
                if ca is not None and cb is not None and cb >= 0:
                    return mk_int(ca ** cb)
                raise Unsupported('symbolic **')
            if isinstance(op, ast.LShift):
                cb = concrete_int(y)
                if cb is not None and cb >= 0:
                    return mk_int(x * (1 << cb))
            if isinstance(op, ast.RShift):
                cb = concrete_int(y)
                if cb is not None and cb >= 0:
                    # x >> k is floor(x / 2^k) for Python integers of either sign (z3 integer division by a positive
                    # constant rounds towards minus infinity as well)
                    return mk_int(x / (1 << cb))
            raise Unsupported('int operator %s' % type(op).__name__)
        if isinstance(op, ast.Add):
            if ta is TBytes and tb is TBytes:
                return V(TBytes, z3.Concat(a.z, b.z))
            if isinstance(ta, TList) and isinstance(tb, TList):
                if a.py == ('emptylist',):
                    return b
                if b.py == ('emptylist',):
                    return a
                if ta == tb:
                    if b.py and b.py[0] == 'listlit':
                        # xs + [a, b]: the same term an append would build
                        z = a.z
                        for x in b.py[1]:
                            z = L.l_append(ta, z, x)
                        return V(ta, z)
                    return V(ta, L.l_concat(ta, a.z, b.z))
            if ta is TStr and tb is TStr:
                return self.opaque_str()
            if isinstance(ta, TTuple) and isinstance(tb, TTuple):
                return self.mk_tuple(self.tuple_items(a) + self.tuple_items(b))
        if isinstance(op, ast.Mod) and ta is TStr:
            return self.opaque_str()
        if isinstance(op, ast.Sub) and isinstance(ta, TAny) and ta == tb:
            return V(TAny(ta.name + '_delta'), z3.Const(fresh_name('delta'), TAny(ta.name + '_delta').sort()))
        if isinstance(op, ast.BitOr) and isinstance(ta, TSet) and ta == tb:
            x = z3.Const(fresh_name('u'), ta.elem.sort())
            return V(ta, z3.Lambda([x], z3.Or(a.z[x], b.z[x])))
        raise Unsupported('operator %s on %s, %s' % (type(op).__name__, ta, tb))

    def float_div_check(self, b):
        if b.t is TFloat:
            zero = z3.Bool(fresh_name('float_is_zero'))
            self.need(z3.Not(zero), 'ZeroDivisionError')

    # ------------------------------------------------------------ comparisons
    def ev_Compare(self, node):
        left = self.ev(node.left)
        result = None
        for op, rn in zip(node.ops, node.comparators):
            right = self.ev(rn)
            c = self.compare(op, left, right)
            if result is None:
                result = c
            else:
                result = z3.And(result, c)
            left = right
        return mk_bool(result)

    def compare(self, op, a, b):
        if isinstance(op, ast.Eq):
            return eq(a, b)
        if isinstance(op, ast.NotEq):
            return z3.Not(eq(a, b))
        if isinstance(op, (ast.Is, ast.IsNot)):
            r = self.is_(a, b)
            return r if isinstance(op, ast.Is) else z3.Not(r)
        if isinstance(op, (ast.In, ast.NotIn)):
            r = self.contains(b, a)
            return r if isinstance(op, ast.In) else z3.Not(r)
        if isinstance(a.t, TOpt):
            if not self.spec_mode:
                self.need(z3.Not(a.t.is_none(a.z)), 'TypeError')
            a = V(a.t.inner, a.t.val(a.z))
        if isinstance(b.t, TOpt):
            if not self.spec_mode:
                self.need(z3.Not(b.t.is_none(b.z)), 'TypeError')
            b = V(b.t.inner, b.t.val(b.z))
        if a.t is TNone or b.t is TNone:
            self.py_raise('TypeError')
        if a.t is TFloat or b.t is TFloat or isinstance(a.t, TAny):
            return z3.Bool(fresh_name('cmp'))
        x, y = self.as_int(a), self.as_int(b)
        if isinstance(op, ast.Lt):
            return x < y
        if isinstance(op, ast.LtE):
            return x <= y
        if isinstance(op, ast.Gt):
            return x > y
        if isinstance(op, ast.GtE):
            return x >= y
        raise Unsupported('comparison')

    def is_(self, a, b):
        if b.t is TNone:
            if isinstance(a.t, TOpt):
                return a.t.is_none(a.z)
            if isinstance(a.t, TUnion):
                return a.t.is_('none', a.z) if any(n == 'none' for n, _ in a.t.alts) else z3.BoolVal(False)
            return z3.BoolVal(a.t is TNone)
        if a.t is TNone:
            return self.is_(b, a)
        if b.t is TBool and (z3.is_true(b.z) or z3.is_false(b.z)):
            if a.t is TBool:
                return a.z == b.z
            if isinstance(a.t, TUnion):
                n = 'true' if z3.is_true(b.z) else 'false'
                return a.t.is_(n, a.z) if any(x == n for x, _ in a.t.alts) else z3.BoolVal(False)
            if isinstance(a.t, TOpt) and a.t.inner is TBool:
                return z3.And(z3.Not(a.t.is_none(a.z)), a.t.val(a.z) == b.z)
            return z3.BoolVal(False)
        if isinstance(a.t, (TRef, TPkt)) and isinstance(b.t, (TRef, TPkt)):
            return a.z == b.z
        if isinstance(a.t, TOpt) and isinstance(a.t.inner, (TRef, TPkt)):
            if isinstance(b.t, TOpt):
                return a.z == b.z
            return z3.And(z3.Not(a.t.is_none(a.z)), a.t.val(a.z) == b.z)
        if isinstance(b.t, TOpt):
            return self.is_(b, a)
        return eq(a, b)

    def contains(self, cont, item):
        t = cont.t
        if isinstance(t, TSet):
            return z3.Select(cont.z, coerce(item, t.elem).z)
        if isinstance(t, TDict):
            if item.t != t.k and not (isinstance(t.k, TOpt)):
                return z3.BoolVal(False) if item.t in (TInt, TStr, TBytes) and t.k in (TInt, TStr, TBytes) else z3.Select(t.dom(cont.z), coerce(item, t.k).z)
            return z3.Select(t.dom(cont.z), coerce(item, t.k).z)
        if isinstance(t, TList):
            if cont.py == ('emptylist',):
                return z3.BoolVal(False)
            if isinstance(item.t, TOpt) and item.t.inner == t.elem:
                return z3.And(z3.Not(item.t.is_none(item.z)), L.l_contains(t, cont.z, item.t.val(item.z)))
            if item.t is TNone:
                return z3.BoolVal(False)
            return L.l_contains(t, cont.z, coerce(item, t.elem).z)
        if isinstance(t, TTuple) or is_py(cont, 'pytuple'):
            return z3.Or(*[eq(x, item) for x in self.tuple_items(cont)])
        if is_py(cont, 'kwdict'):
            if item.py and item.py[0] == 'strlit':
                return z3.BoolVal(item.py[1] in cont.py[1])
        if is_py(cont, 'pydict') and item.t is TInt:
            ci = concrete_int(item.z)
            if ci is not None:
                return z3.BoolVal(any(concrete_int(k.z) == ci for k, _v in cont.py[1]))
            return z3.Or(*[item.z == k.z for k, _v in cont.py[1]])
        if isinstance(t, TOpt) and not self.spec_mode:
            self.need(z3.Not(t.is_none(cont.z)), 'TypeError')
            return self.contains(V(t.inner, t.val(cont.z)), item)
        raise Unsupported('membership in %s' % t)

    # ---------------------------------------------------------- comprehensions
    def ev_ListComp(self, node):
        return self.comprehension(node)

    def ev_GeneratorExp(self, node):
        return self.comprehension(node)

    def comprehension(self, node):
        '''Only maps that the model can express: result is an opaque list with
        the length relation (filter-free) — enough for str()/bytes() conversions.'''
        if len(node.generators) != 1:
            raise Unsupported('nested comprehension')
        g = node.generators[0]
        src = self.ev(g.iter)
        hook = self.spec.notes.get('comprehension_hook')
        if hook is not None:
            r = hook(self, node, src)
            if r is not None:
                return r
        raise Unsupported('comprehension over %s' % src.t)

    def ev_Lambda(self, node):
        return Py('lambda', node, dict(self.frame.locals), self.frame)

    def ev_Starred(self, node):
        raise Unsupported('starred expression')

    def ev_Call(self, node):
        return self.call(node)


EXT_CONSTS = {'os.SEEK_SET': 0, 'os.SEEK_CUR': 1, 'os.SEEK_END': 2, 'socket.SHUT_RD': 0, 'socket.SHUT_WR': 1,
              'socket.SHUT_RDWR': 2}
BUILTIN_NAMES = {'len', 'min', 'max', 'int', 'str', 'bool', 'bytes', 'bytearray', 'tuple', 'list', 'set', 'dict',
                 'sorted', 'enumerate', 'range', 'isinstance', 'repr', 'super', 'type', 'open', 'getattr',
                 'hasattr', 'abs', 'sum', 'any', 'all', 'zip', 'id', 'print', 'iter', 'next', 'reversed', 'map'}
BUILTIN_EXC = {'KeyError', 'IndexError', 'ValueError', 'TypeError', 'AttributeError', 'RuntimeError',
               'NotImplementedError', 'ZeroDivisionError', 'OSError', 'IOError', 'LookupError', 'StopIteration',
               'ArithmeticError', 'AssertionError', 'UnicodeDecodeError'}
PKT_METHODS = {'getfieldval', 'setfieldval', 'delfieldval', 'copy', 'guess_payload_class', 'build', 'add_payload',
               'remove_payload', 'getfield_and_val', 'show', 'do_build'}
