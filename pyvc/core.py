"""Engine core: per-path state, decision replay (DFS over branch decisions),
obligation recording and discharge with the path's incremental z3 solver."""
import time
import z3

# a query that makes the solver's memory grow without bound (seen on one seeded change: 15 GB and rising) is answered
# 'unknown' at this size instead of exhausting the machine; ordinary queries stay far below it
try:
    z3.set_param('memory_max_size', 8000)
except Exception:      # noqa
    pass

from .sym import V, Unsupported, fresh_name, NONE
from .types import TRef, TPkt, TOpt, TList, TSet, TDict, TInt


class PathEnd(Exception):
    '''Stop exploring the current path (cut point or infeasible).'''


class ReturnEx(Exception):
    def __init__(self, value):
        self.value = value


class BreakEx(Exception):
    pass


class ContinueEx(Exception):
    pass


class ExcVal:
    '''A Python exception object in the interpreted program.'''

    def __init__(self, cls, args=()):
        self.cls = cls            # canonical class name
        self.args = list(args)
        self.attrs = {}

    def __repr__(self):
        return 'Exc(%s)' % self.cls


class PyExc(Exception):
    def __init__(self, exc):
        self.exc = exc


EXC_PARENT = {
    'BaseException': None, 'Exception': 'BaseException', 'LookupError': 'Exception',
    'KeyError': 'LookupError', 'IndexError': 'LookupError', 'ValueError': 'Exception',
    'TypeError': 'Exception', 'AttributeError': 'Exception', 'RuntimeError': 'Exception',
    'NotImplementedError': 'RuntimeError', 'ArithmeticError': 'Exception',
    'ZeroDivisionError': 'ArithmeticError', 'OSError': 'Exception', 'ssl.SSLError': 'OSError',
    'ssl.SSLWantReadError': 'ssl.SSLError', 'ssl.CertificateError': 'ssl.SSLError',
    'struct.error': 'Exception', 'StopIteration': 'Exception', 'UnicodeDecodeError': 'ValueError',
    'cryptography.x509.ExtensionNotFound': 'Exception', 'AssertionError': 'Exception',
    'dbus.DBusException': 'Exception', 'cbor2.CBORDecodeError': 'Exception',
}
EXC_ALIAS = {'socket.error': 'OSError', 'IOError': 'OSError', 'EnvironmentError': 'OSError'}


def exc_is_subclass(cls, parent):
    cls = EXC_ALIAS.get(cls, cls)
    parent = EXC_ALIAS.get(parent, parent)
    seen = 0
    while cls is not None and seen < 20:
        if cls == parent:
            return True
        cls = EXC_PARENT.get(cls)
        seen += 1
    return False


_HQ = {}


def hard_check(solver, *assumptions, limit_ms=12000):
    '''solver.check() under a watchdog: z3's own timeout is not honoured by every theory
    (the sequence solver can spin); the watchdog interrupts the context.  Interrupted or
    failed checks are `unknown`, never a verdict.'''
    import threading
    ctx = solver.ctx
    timer = threading.Timer(limit_ms / 1000.0 + 0.5, ctx.interrupt)
    timer.daemon = True
    timer.start()
    try:
        return solver.check(*assumptions)
    except z3.Z3Exception:
        return z3.unknown
    finally:
        timer.cancel()


_SEQ_OPS = None


def mentions_seq_ops(e, _seen=None):
    '''Does the formula use sequence concatenation / extraction / search (where the
    in-process z3 may spin past its timeout)?'''
    global _SEQ_OPS
    if _SEQ_OPS is None:
        _SEQ_OPS = {z3.Z3_OP_SEQ_CONCAT, z3.Z3_OP_SEQ_EXTRACT, z3.Z3_OP_SEQ_AT, z3.Z3_OP_SEQ_NTH,
                    z3.Z3_OP_SEQ_INDEX, z3.Z3_OP_SEQ_CONTAINS, z3.Z3_OP_SEQ_PREFIX, z3.Z3_OP_SEQ_SUFFIX}
    seen = _seen if _seen is not None else set()
    k = e.get_id()
    if k in seen:
        return False
    seen.add(k)
    if z3.is_quantifier(e):
        return mentions_seq_ops(e.body(), seen)
    if z3.is_app(e):
        if e.decl().kind() in _SEQ_OPS:
            if e.decl().kind() == z3.Z3_OP_SEQ_CONCAT and _is_seq_literal(e):
                return False     # a constant octet string
            return True
        return any(mentions_seq_ops(c, seen) for c in e.children())
    return False


def _is_seq_literal(e):
    if e.decl().kind() == z3.Z3_OP_SEQ_UNIT:
        return z3.is_int_value(e.children()[0])
    if e.decl().kind() == z3.Z3_OP_SEQ_CONCAT:
        return all(_is_seq_literal(c) for c in e.children())
    return False


def has_quantifier(e, _seen=None):
    # (no cross-call cache: z3 recycles AST ids after garbage collection)
    seen = _seen if _seen is not None else set()
    k = e.get_id()
    if k in seen:
        return False
    seen.add(k)
    if z3.is_quantifier(e):
        return True
    if z3.is_app(e):
        return any(has_quantifier(c, seen) for c in e.children())
    return False


_PAT_KINDS = None


def _pattern_ok(e):
    '''Only uninterpreted / select / datatype-accessor terms over variables and constants.'''
    global _PAT_KINDS
    if _PAT_KINDS is None:
        _PAT_KINDS = {z3.Z3_OP_SELECT, z3.Z3_OP_UNINTERPRETED, z3.Z3_OP_DT_ACCESSOR, z3.Z3_OP_DT_CONSTRUCTOR,
                      z3.Z3_OP_ANUM}
    if z3.is_var(e) or z3.is_const(e):
        return True
    if not z3.is_app(e):
        return False
    if e.decl().kind() not in _PAT_KINDS:
        return False
    return all(_pattern_ok(c) for c in e.children())


def auto_patterns(var, body):
    """Triggers for a quantifier: the seq-nth / array-select / function terms of the body
    that mention the bound variable directly (E-matching instead of model-based search)."""
    pats = []
    seen = set()

    def walk(e):
        if e.get_id() in seen or not z3.is_app(e):
            return
        seen.add(e.get_id())
        k = e.decl().kind()
        ch = e.children()
        if k in (z3.Z3_OP_SELECT, z3.Z3_OP_UNINTERPRETED) and any(c.eq(var) for c in ch) and _pattern_ok(e):
            if not any(p.eq(e) for p in pats):
                pats.append(e)
        for c in ch:
            walk(c)
    walk(body)
    return pats[:4]


class ObRec:
    def __init__(self, oid, kind, label, props, aux):
        self.id = oid
        self.kind = kind
        self.label = label
        self.props = tuple(props)
        self.aux = aux
        self.results = []     # (status, secs, model, path_no)

    @property
    def status(self):
        sts = [r[0] for r in self.results]
        if 'sat' in sts:
            return 'failed'
        if 'candidate' in sts:
            return 'candidate'     # undecided, with a candidate counterexample for the replay
        if 'unknown' in sts:
            return 'undecided'
        return 'discharged'

    def to_json(self):
        return {'id': self.id, 'kind': self.kind, 'label': self.label, 'props': list(self.props),
                'aux': self.aux, 'status': self.status, 'paths': len(self.results),
                'solver_s': round(sum(r[1] for r in self.results), 4),
                'models': [r[2] for r in self.results if r[0] in ('sat', 'candidate')][:2],
                'backends': sorted(set(r[4] for r in self.results if len(r) > 4))}


class State:
    def __init__(self):
        self.heap = {}
        self.ghost = {}
        self.alloc_k = 0
        self.alloc0 = z3.Int(fresh_name('alloc0'))

    def copy(self):
        s = State.__new__(State)
        s.heap = dict(self.heap)
        s.ghost = dict(self.ghost)
        s.alloc_k = self.alloc_k
        s.alloc0 = self.alloc0
        return s


class CoreMixin:
    '''Path bookkeeping shared by the interpreter.'''

    def init_core(self, check_timeout_ms=10000, branch_timeout_ms=2000):
        self.check_timeout_ms = check_timeout_ms
        self.branch_timeout_ms = branch_timeout_ms
        self.obs = {}
        self.ob_order = []
        self.covers = {}
        self.paths_run = 0
        self.solver_s = 0.0
        self.notes = []
        self.queries = 0
        self.route_hint = {}

    # ---- path lifecycle ---------------------------------------------------
    def begin_path(self, prefix):
        self.decisions = list(prefix)
        self.dec_both = [False] * len(prefix)
        self.dec_i = 0
        self.solver = z3.Solver()
        self.solver.set('timeout', self.check_timeout_ms)
        self.light = z3.Solver()
        self.light.set('timeout', self.branch_timeout_ms)
        self.st = State()
        self.pc_n = 0
        self.pc_has_quant = False
        self.seq_risky = False
        self.assumed = {}
        self.noseq = []
        self.noquant = []
        self.wf_seen = set()
        self.wf_keep = []
        from . import lists as L
        L.reset_axioms()
        self.path_no = self.paths_run
        self.paths_run += 1

    def assume(self, zbool):
        if z3.is_true(zbool):
            return
        if z3.is_and(zbool) and has_quantifier(zbool):
            # conjuncts separately: the quantifier-free ones reach the light solver
            self.assumed.setdefault(zbool.hash(), []).append(zbool)
            for c in zbool.children():
                self.assume(c)
            return
        self.solver.add(zbool)
        self.assumed.setdefault(zbool.hash(), []).append(zbool)
        # branch feasibility is decided on the quantifier-free, sequence-operation-free part of
        # the path condition (weaker: may keep an infeasible path alive, never drops a feasible one)
        q = has_quantifier(zbool)
        sq = mentions_seq_ops(zbool)
        if sq:
            self.seq_risky = True
        else:
            self.noseq.append(zbool)
        if q:
            self.pc_has_quant = True
        else:
            self.noquant.append(zbool)
        if not q and not sq:
            self.light.add(zbool)
        self.pc_n += 1

    def entails(self, fact):
        """Is `fact` implied by the path condition?  (True only on a definite answer.)"""
        if self.seq_risky or mentions_seq_ops(fact):
            from . import backend
            v, _w = backend.run_cli(backend.smt2_of(self.solver.assertions(), [z3.Not(fact)]), self.branch_timeout_ms)
            return v == 'unsat'
        if self._check_light(z3.Not(fact)) == z3.unsat:
            return True
        if self.pc_has_quant:
            s2 = z3.Solver()
            s2.set('timeout', self.branch_timeout_ms)
            s2.add(self.solver.assertions())
            s2.add(z3.Not(fact))
            if hard_check(s2, limit_ms=self.branch_timeout_ms) == z3.unsat:
                return True
            s3 = z3.Solver()
            s3.set('timeout', self.branch_timeout_ms)
            s3.set('smt.mbqi', False)
            s3.add(self.solver.assertions())
            s3.add(z3.Not(fact))
            return hard_check(s3, limit_ms=self.branch_timeout_ms) == z3.unsat
        r, _ = self._check(z3.Not(fact), timeout=self.branch_timeout_ms)
        return r == z3.unsat

    def _check_light(self, *assumptions):
        t0 = time.time()
        r = hard_check(self.light, *assumptions, limit_ms=self.branch_timeout_ms)
        self.solver_s += time.time() - t0
        self.queries += 1
        return r

    def _check(self, *assumptions, timeout=None):
        t0 = time.time()
        if timeout is not None:
            self.solver.set('timeout', timeout)
        r = hard_check(self.solver, *assumptions, limit_ms=timeout or self.check_timeout_ms)
        if timeout is not None:
            self.solver.set('timeout', self.check_timeout_ms)
        dt = time.time() - t0
        self.solver_s += dt
        self.queries += 1
        if dt > 0.3:
            import os
            if os.environ.get('PYVC_SLOW'):
                print('    [slow %.2fs %s] line %s, %d assertions' % (dt, r, getattr(self, 'cur_line', None), len(self.solver.assertions())))
        return r, dt

    def branch(self, cond):
        '''Decide a symbolic condition; replays recorded decisions, otherwise
        checks feasibility of both sides and schedules the alternative.'''
        cond = z3.simplify(cond)
        if z3.is_true(cond):
            return True
        if z3.is_false(cond):
            return False
        if self.dec_i < len(self.decisions):
            d = self.decisions[self.dec_i]
            self.dec_i += 1
            self.assume(cond if d else z3.Not(cond))
            return d
        if mentions_seq_ops(cond):
            rt = rf = z3.unknown     # not decided here: both sides are explored
        else:
            rt = self._check_light(cond)
            rf = self._check_light(z3.Not(cond))
        can_t = rt != z3.unsat
        can_f = rf != z3.unsat
        if not can_t and not can_f:
            raise PathEnd()
        d = can_t
        self.decisions.append(d)
        self.dec_both.append(can_t and can_f)
        self.dec_i += 1
        self.assume(cond if d else z3.Not(cond))
        return d

    def choose(self, n):
        '''Non-deterministic choice among n alternatives (all explored).'''
        for i in range(n - 1):
            b = z3.Bool(fresh_name('choice'))
            if self.branch(b):
                return i
        return n - 1

    # ---- obligations --------------------------------------------------------
    def ob(self, kind, label, goal, props=(), aux=False, assume_after=True):
        oid = '%s/%s/%s' % (self.unit_id, kind, label)
        rec = self.obs.get(oid)
        if rec is None:
            rec = ObRec(oid, kind, label, props, aux)
            self.obs[oid] = rec
            self.ob_order.append(oid)
        raw_goal = goal
        if any(raw_goal.eq(a) for a in self.assumed.get(raw_goal.hash(), ())):
            # literally one of the hypotheses (e.g. an invariant clause nothing has touched)
            rec.results.append(('unsat', 0.0, None, self.path_no, 'identity'))
            return
        goal = z3.simplify(goal)
        if z3.is_true(goal):
            rec.results.append(('unsat', 0.0, None, self.path_no, 'simplifier'))
            return
        self.flush_axioms()
        if self.seq_risky and not has_quantifier(goal) and not mentions_seq_ops(goal):
            # the part of the hypotheses without quantifiers and sequence operations may suffice
            t0 = time.time()
            self.light.push()
            try:
                self.light.add(z3.Not(goal))
                rl = hard_check(self.light, limit_ms=self.branch_timeout_ms)
            finally:
                self.light.pop()
            dtl = time.time() - t0
            self.solver_s += dtl
            self.queries += 1
            if rl == z3.unsat:
                rec.results.append(('unsat', dtl, None, self.path_no, 'z3-qf'))
                if assume_after:
                    self.assume(goal)
                return
        if any(r[0] != 'unsat' for r in rec.results):
            # this clause is already open on an earlier path: the verdict cannot improve, so the
            # expensive attempts are not repeated on every further path
            rec.results.append(('unknown', 0.0, None, self.path_no, 'skipped'))
            if assume_after:
                self.assume(goal)
            return
        hint = self.route_hint.get(oid)
        if self.seq_risky and not mentions_seq_ops(goal) and hint != 'cli':
            # ... or the hypotheses without sequence operations (quantified ones included)
            t0 = time.time()
            s3 = z3.Solver()
            lim3 = min(self.check_timeout_ms, 4000)
            s3.set('timeout', lim3)
            s3.add(self.noseq)
            s3.add(z3.Not(goal))
            r3 = hard_check(s3, limit_ms=lim3)
            d3 = time.time() - t0
            self.solver_s += d3
            self.queries += 1
            if r3 == z3.unsat:
                rec.results.append(('unsat', d3, None, self.path_no, 'z3-noseq'))
                if assume_after:
                    self.assume(goal)
                return
        if self.seq_risky or mentions_seq_ops(goal):
            # sequence operations: external solver processes with hard time limits
            # (cvc5 first, then the z3 command line); no model is extracted
            from . import backend
            t0 = time.time()
            verdict, who = 'unknown', None
            sub_sat = None
            if self.pc_has_quant and not has_quantifier(goal):
                # first without the quantified hypotheses (a subset: sound, and much easier for the solvers)
                verdict, who = backend.run_cli(backend.smt2_of(self.noquant, [z3.Not(goal)]),
                                               min(self.check_timeout_ms, 5000))
                if verdict != 'unsat':
                    sub_sat = who if verdict == 'sat' else None
                    verdict, who = 'unknown', None
            if verdict != 'unsat':
                verdict, who = backend.run_cli(backend.smt2_of(self.solver.assertions(), [z3.Not(goal)]),
                                               self.check_timeout_ms)
            dt = time.time() - t0
            self.solver_s += dt
            self.queries += 1
            if verdict == 'unsat':
                self.route_hint[oid] = 'cli'    # same clause on later paths: go to the external solver directly
                rec.results.append(('unsat', dt, None, self.path_no, who))
            elif verdict == 'sat':
                rec.results.append(('sat', dt, {'__no_model__': 'external solver %s answered sat' % who}, self.path_no, who))
            else:
                cand = self.candidate_model(goal)
                import os
                if os.environ.get('PYVC_DUMP'):
                    fn = os.path.join(os.environ['PYVC_DUMP'], '%s_%d_seq.smt2' % (
                        oid.replace('/', '_').replace(':', '_'), self.path_no))
                    with open(fn, 'w') as f:
                        f.write(backend.smt2_of(self.noquant, [z3.Not(goal)]))
                if cand is None and not sub_sat and not has_quantifier(goal):
                    # open clause: give the search for a counter-model of the quantifier-free part more time
                    t1 = time.time()
                    v2, who2 = backend.run_cli(backend.smt2_of(self.noquant, [z3.Not(goal)]),
                                               int(self.check_timeout_ms * 2), which=('cvc5',))
                    self.solver_s += time.time() - t1
                    if v2 == 'sat':
                        sub_sat = who2
                    elif v2 == 'unsat':
                        rec.results.append(('unsat', dt, None, self.path_no, who2))
                        if assume_after:
                            self.assume(goal)
                        return
                if cand is None and sub_sat:
                    # sequence goal: the external solver found the negated clause satisfiable together with
                    # the quantifier-free hypotheses -- a candidate, not a verdict (no model is extracted)
                    cand = {'__no_model__': '%s finds the negated clause satisfiable with the quantifier-free '
                                            'hypotheses (sequence model not extracted)' % sub_sat,
                            '__candidate__': 'quantified hypotheses not used'}
                if cand is not None:
                    rec.results.append(('candidate', dt, cand, self.path_no, 'z3'))
                else:
                    rec.results.append(('unknown', dt, None, self.path_no, 'cvc5+z3'))
            if assume_after:
                self.assume(goal)
            return
        if (self.pc_has_quant or has_quantifier(goal)) and not has_quantifier(goal):
            # a subset of the hypotheses (the quantifier-free ones) may already suffice
            t0 = time.time()
            self.light.push()
            try:
                self.light.add(z3.Not(goal))
                rl = hard_check(self.light, limit_ms=self.branch_timeout_ms)
            finally:
                self.light.pop()
            dtl = time.time() - t0
            self.solver_s += dtl
            self.queries += 1
            if rl == z3.unsat:
                rec.results.append(('unsat', dtl, None, self.path_no, 'z3-qf'))
                if assume_after:
                    self.assume(goal)
                return
        if getattr(self, 'cli_first', False) and (self.pc_has_quant or has_quantifier(goal)):
            # contract flag solver_route='cli': obligations of this function are known to be decided by the
            # command-line solvers on the SMT-LIB text (set / lambda reasoning) and to stall in process
            from . import backend
            t0 = time.time()
            text = backend.smt2_of(self.solver.assertions(), [z3.Not(goal)])
            v, who = backend.run_cli(text, min(self.check_timeout_ms, 8000), which=('z3-4.8', 'z3'))
            dcl = time.time() - t0
            self.solver_s += dcl
            self.queries += 1
            if v == 'unsat':
                rec.results.append(('unsat', dcl, None, self.path_no, who + '-cli'))
                if assume_after:
                    self.assume(goal)
                return
        if self.pc_has_quant or has_quantifier(goal):
            r, dt = z3.unknown, 0.0
        else:
            r, dt = self._check(z3.Not(goal), timeout=min(1500, self.check_timeout_ms))
        if r == z3.unknown:
            # the incremental core is weak on quantifiers: retry as a one-shot query
            t0 = time.time()
            s2 = z3.Solver()
            s2.set('timeout', self.check_timeout_ms)
            s2.add(self.solver.assertions())
            s2.add(z3.Not(goal))
            r = hard_check(s2, limit_ms=self.check_timeout_ms)
            if r == z3.unknown:
                # z3's model-based quantifier instantiation gives up at once on some array / lambda
                # problems ("incomplete (theory array)") that pure E-matching refutes: second attempt without it
                s2b = z3.Solver()
                s2b.set('timeout', self.check_timeout_ms)
                s2b.set('smt.mbqi', False)
                s2b.add(self.solver.assertions())
                s2b.add(z3.Not(goal))
                rb = hard_check(s2b, limit_ms=self.check_timeout_ms)
                if rb == z3.unsat:
                    r = rb
            d2 = time.time() - t0
            self.solver_s += d2
            dt += d2
            self.queries += 1
            if r == z3.sat:
                self._model_solver = s2
        if r == z3.unsat:
            rec.results.append(('unsat', dt, None, self.path_no, 'z3'))
        elif r == z3.sat:
            rec.results.append(('sat', dt, self.capture_model(), self.path_no, 'z3'))
        else:
            import os
            if os.environ.get('PYVC_DUMP'):
                fn = os.path.join(os.environ['PYVC_DUMP'], '%s_%d.smt2' % (oid.replace('/', '_').replace(':', '_'), self.path_no))
                s2 = z3.Solver()
                s2.add(self.solver.assertions())
                s2.add(z3.Not(goal))
                with open(fn, 'w') as f:
                    f.write(s2.to_smt2())
            r2 = self.second_opinion(goal)
            r3 = 'unknown'
            if r2 != 'unsat':
                try:
                    from . import backend
                    t0 = time.time()
                    r3 = backend.old_z3_check(self.solver, goal, self.check_timeout_ms)
                    if r3 != 'unsat':
                        # ... and the current z3 on the SMT-LIB text (term order differs from the in-process run)
                        r3, _w = backend.run_cli(backend.smt2_of(self.solver.assertions(), [z3.Not(goal)]),
                                                 self.check_timeout_ms, which=('z3',))
                        if r3 != 'unsat':
                            r3 = 'unknown'
                    self.solver_s += time.time() - t0
                    self.queries += 1
                except Exception as err:  # noqa
                    self.notes.append('z3 4.8 command line unavailable: %r' % (err,))
            if r2 == 'unsat':
                rec.results.append(('unsat', dt, None, self.path_no, 'cvc5'))
            elif r3 == 'unsat':
                rec.results.append(('unsat', dt, None, self.path_no, 'z3-4.8-cli'))
            else:
                # Satisfiability under universally quantified hypotheses is out of the solver's
                # reach.  Look for a *candidate* counterexample: a model of the quantifier-free
                # hypotheses and the negated goal.  It is not a verdict: the replay on the real
                # code (which also evaluates the class invariant on the concrete pre-state)
                # decides whether it is a violation.
                t0 = time.time()
                cand = self.candidate_model(goal)
                self.solver_s += time.time() - t0
                if cand is not None:
                    rec.results.append(('candidate', dt, cand, self.path_no, 'z3'))
                else:
                    rec.results.append(('unknown', dt, None, self.path_no, 'z3'))
        if assume_after:
            self.assume(goal)

    def candidate_model(self, goal):
        '''A model of the quantifier-free, sequence-operation-free hypotheses and the negated
        goal: a candidate counterexample for the replay, not a verdict.'''
        if mentions_seq_ops(goal):
            # abstract every outermost sequence operation of the goal by a fresh constant of its sort (lengths by
            # non-negative integers): weaker still, but enough to tell "no counter-model in sight" from "there is one"
            goal = self._abstract_seq_ops(goal)
            if goal is None or mentions_seq_ops(goal):
                return None
        cand = None
        pushed = 0
        try:
            self.light.push()
            self.light.add(z3.Not(goal))
            rl = hard_check(self.light, limit_ms=self.branch_timeout_ms)
            if rl == z3.sat:
                # prefer a small pre-state (empty queues, sets, maps): the quantified class invariants
                # that the light solver does not see hold trivially on empty collections, so a small
                # model is far more often a reachable state that the replay can rebuild
                prefs = []
                try:
                    prefs = list(self.minimize_terms())[:60]
                except Exception:  # noqa
                    prefs = []
                t_end = time.time() + 8.0
                for p in prefs:
                    if time.time() > t_end:
                        break
                    self.light.push()
                    pushed += 1
                    self.light.add(p)
                    if hard_check(self.light, limit_ms=700) != z3.sat:
                        self.light.pop()
                        pushed -= 1
                if pushed and hard_check(self.light, limit_ms=self.branch_timeout_ms) != z3.sat:
                    while pushed:
                        self.light.pop()
                        pushed -= 1
                    hard_check(self.light, limit_ms=self.branch_timeout_ms)
                self._model_solver = self.light
                cand = self.capture_model() or {}
                cand['__candidate__'] = 'quantified / sequence hypotheses not used'
            self._model_solver = None
        finally:
            while pushed:
                self.light.pop()
                pushed -= 1
            self.light.pop()
        return cand

    def _abstract_seq_ops(self, goal):
        subs = []
        extra = []
        seen = {}

        def walk(e):
            if z3.is_quantifier(e):
                walk(e.body())
                return
            if not z3.is_app(e):
                return
            k = e.decl().kind()
            if k == z3.Z3_OP_SEQ_LENGTH or (k in _SEQ_OPS and not (k == z3.Z3_OP_SEQ_CONCAT and _is_seq_literal(e))):
                key = e.get_id()
                if key not in seen:
                    c = z3.Const(fresh_name('abs_seq'), e.sort())
                    seen[key] = c
                    subs.append((e, c))
                    if k == z3.Z3_OP_SEQ_LENGTH:
                        extra.append(c >= 0)
                return
            for ch in e.children():
                walk(ch)
        try:
            mentions_seq_ops(goal)     # initialises _SEQ_OPS
            walk(goal)
            if not subs:
                return None
            g2 = z3.substitute(goal, *subs)
            # the goal is to be refuted: the side conditions restrict the counter-model, so they go in negatively
            return z3.Implies(z3.And(*extra), g2) if extra else g2
        except z3.Z3Exception:
            return None

    def second_opinion(self, goal):
        '''Ask cvc5 about an obligation z3 left open (SMT-LIB2 dump).'''
        try:
            from . import backend
            return backend.cvc5_check(self.solver, goal, self.check_timeout_ms)
        except Exception as err:  # noqa
            self.notes.append('cvc5 second opinion unavailable: %r' % (err,))
            return 'unknown'

    def flush_axioms(self):
        '''Definitional axioms of the list-membership witness functions (lists.py).'''
        from . import lists as L
        for ax in L.pending_axioms():
            self.solver.add(ax)
            self.pc_has_quant = True

    def cover(self, label, extra=None):
        '''Vacuity guard: is this point reachable under the assumptions?'''
        if str(self.covers.get(label, '')).startswith('reachable'):
            return
        self.flush_axioms()
        if self.seq_risky:
            rl = self._check_light(*([extra] if extra is not None and not mentions_seq_ops(extra) else []))
            if rl == z3.sat:
                self.covers[label] = 'reachable(part without sequence operations)'
            elif rl == z3.unsat:
                self.covers.setdefault(label, 'unreachable')
            else:
                self.covers.setdefault(label, 'unknown')
            return
        if self.pc_has_quant:
            s2 = z3.Solver()
            s2.set('timeout', self.branch_timeout_ms)
            s2.add(self.solver.assertions())
            if extra is not None:
                s2.add(extra)
            t0 = time.time()
            r = hard_check(s2, limit_ms=self.branch_timeout_ms)
            self.solver_s += time.time() - t0
            if r == z3.unknown:
                # satisfiability with quantified hypotheses is often out of reach: fall back to
                # the quantifier-free part (recorded as such)
                rl = self._check_light(*([extra] if extra is not None else []))
                if rl == z3.unsat:
                    r = z3.unsat
                elif rl == z3.sat and self.covers.get(label) != 'reachable':
                    self.covers[label] = 'reachable(quantifier-free part)'
                    return
        else:
            r, _ = self._check(*( [extra] if extra is not None else []), timeout=self.branch_timeout_ms)
        if r == z3.sat:
            self.covers[label] = 'reachable'
        elif r == z3.unknown and self.covers.get(label) != 'reachable':
            self.covers.setdefault(label, 'unknown')
        else:
            self.covers.setdefault(label, 'unreachable')

    def capture_model(self):
        try:
            ms = getattr(self, '_model_solver', None)
            self._model_solver = None
            m = (ms or self.solver).model()
        except z3.Z3Exception:
            return None
        out = {}
        fs = getattr(self, 'cur_fspec', None)
        if fs is not None and getattr(fs, 'probes', None):
            for pname, pnode in fs.probes.items():
                try:
                    pv = self.old_eval(pnode)
                    if pv.z is not None:
                        out['probe:' + pname] = str(m.eval(pv.z, model_completion=True))[:300]
                        try:
                            from . import modelval
                            out.setdefault('__probes__', {})[pname] = modelval.decode(pv.t, pv.z, m)
                        except Exception:
                            pass
                except Exception as err:  # noqa
                    out['probe:' + pname] = '<not evaluable: %s>' % (str(err)[:60],)
        for name, v in self.model_watch:
            try:
                if v.z is None:
                    continue
                out[name] = str(m.eval(v.z, model_completion=True))[:400]
            except Exception:
                pass
        sm = getattr(self, 'structured_model', None)
        if sm is not None:
            try:
                out['__state__'] = sm(m)
            except Exception as err:  # noqa
                out['__state__'] = {'error': str(err)[:200]}
        return out

    # ---- well-formedness of references read from the heap -----------------
    def alloc_counter(self):
        return self.st.alloc0 + self.st.alloc_k

    def assume_wf(self, v):
        '''Every reference reachable now was allocated earlier: 0 < r < counter.'''
        t = v.t
        if v.z is None:
            return
        key = (v.z.get_id(), self.st.alloc_k)
        if key in self.wf_seen:
            return
        self.wf_keep.append(v.z)   # keep the term alive: AST ids are recycled
        c = self.alloc_counter()
        if isinstance(t, (TRef, TPkt)):
            self.wf_seen.add(key)
            self.assume(z3.And(v.z > 0, v.z < c))
        elif isinstance(t, TOpt) and isinstance(t.inner, (TRef, TPkt)):
            self.wf_seen.add(key)
            r = t.val(v.z)
            self.assume(z3.Or(t.is_none(v.z), z3.And(r > 0, r < c)))
        elif isinstance(t, TList):
            from . import lists as L
            self.wf_seen.add(key)
            self.assume(L.canon(t, v.z))
            if isinstance(t.elem, (TRef, TPkt)):
                i = z3.Int('wf_i')
                sel = L.l_get(t, v.z, i)
                self.assume(L.forall([i], z3.Implies(z3.And(i >= 0, i < L.l_len(t, v.z)),
                                                     z3.And(sel > 0, sel < c)), patterns=[sel]))
        elif isinstance(t, TSet) and isinstance(t.elem, (TRef, TPkt)):
            self.wf_seen.add(key)
            x = z3.Int(fresh_name('wf_x'))
            from . import lists as L
            self.assume(L.forall([x], z3.Implies(v.z[x], z3.And(x > 0, x < c)), patterns=[v.z[x]]))
        elif isinstance(t, TDict) and isinstance(t.v, (TRef, TPkt)):
            self.wf_seen.add(key)
            k = z3.Const(fresh_name('wf_k'), t.k.sort())
            mp = t.map(v.z)
            from . import lists as L
            self.assume(L.forall([k], z3.Implies(t.dom(v.z)[k], z3.And(mp[k] > 0, mp[k] < c)),
                                 patterns=[mp[k]]))

    def new_ref(self):
        r = self.alloc_counter()
        self.st.alloc_k += 1
        return z3.simplify(r)
