"""Assumed contracts of external libraries (DESIGN §3) as executable models."""
import z3

from .sym import (V, Py, is_py, NONE, Unsupported, mk_int, mk_bool, fresh, fresh_name, truthy, coerce, func_tag,
                  mk_str_const)
from .types import TInt, TBool, TNone, TBytes, TStr, TOpt, TAny, TFuncT, TDict, TSet, NAMED


def cb_tag_of(fv):
    if is_py(fv, 'bound'):
        return func_tag(fv.py[3].name)
    if is_py(fv, 'func'):
        return func_tag(fv.py[3].name)
    if fv.t is TFuncT:
        return fv.z
    return func_tag('<callable>')


def _add_source(eng, delay, cb):
    g = eng.st.ghost
    if 'src_armed' not in g:
        return mk_int(z3.Int(fresh_name('srcid')))
    sid = z3.Int(fresh_name('srcid'))
    armed = g['src_armed']
    eng.assume(z3.And(sid > 0, z3.Not(z3.Select(armed.z, sid))))
    old = getattr(eng, 'old', None)
    if old is not None and 'src_armed' in old.ghost:
        # GLib source ids grow: a new source never gets the id of one that was armed when this handler began
        # (even if that one has been removed since)
        eng.assume(z3.Not(z3.Select(old.ghost['src_armed'].z, sid)))
    g['src_armed'] = V(armed.t, z3.Store(armed.z, sid, True))
    d = g['src_delay']
    g['src_delay'] = V(d.t, d.t.mk(z3.Store(d.t.dom(d.z), sid, True), z3.Store(d.t.map(d.z), sid, delay)))
    c = g['src_cb']
    g['src_cb'] = V(c.t, c.t.mk(z3.Store(c.t.dom(c.z), sid, True), z3.Store(c.t.map(c.z), sid, cb_tag_of(cb))))
    return mk_int(sid)


def glib_timeout_add(eng, args, kwargs):
    ms = eng.bi_int([args[0]], {}, None)
    return _add_source(eng, ms.z, args[1])


def glib_idle_add(eng, args, kwargs):
    return _add_source(eng, z3.IntVal(0), args[0])


def glib_io_add_watch(eng, args, kwargs):
    return _add_source(eng, z3.IntVal(-1), args[2])


def glib_source_remove(eng, args, kwargs):
    g = eng.st.ghost
    sid = eng.unopt(args[0])
    if 'src_armed' in g:
        armed = g['src_armed']
        g['src_armed'] = V(armed.t, z3.Store(armed.z, sid.z, False))
    return mk_bool(True)


GLIB = {
    'gi.repository.GLib.timeout_add': glib_timeout_add,
    'gi.repository.GLib.idle_add': glib_idle_add,
    'gi.repository.GLib.io_add_watch': glib_io_add_watch,
    'gi.repository.GLib.source_remove': glib_source_remove,
}


def dt_now(eng, args, kwargs):
    return fresh(TAny('datetime'), 'now')


def hexlify(eng, args, kwargs):
    return fresh(TBytes, 'hex')


def dbus_identity(eng, args, kwargs):
    return args[0] if args else mk_str_const('')


def get_logger(eng, args, kwargs):
    return Py('ext', 'logging.Logger')


MISC = {
    'logging.getLogger': get_logger,
    'datetime.datetime.now': dt_now,
    'binascii.hexlify': hexlify,
    'dbus.String': dbus_identity,
    'dbus.Array': dbus_identity,
    'dbus.Dictionary': dbus_identity,
    'dbus.ObjectPath': dbus_identity,
    'dbus.ByteArray': dbus_identity,
}
