"""Run verification units in parallel and aggregate results per property."""
import json
import multiprocessing as mp
import os
import sys
import time

ROOT = os.path.dirname(os.path.dirname(os.path.abspath(__file__)))
sys.path.insert(0, ROOT)

SUITES = {
    'tcpcl': ['tcpcl_types', 'tcpcl_models', 'tcpcl_models2', 'tcpcl_models3', 'tcpcl_messenger', 'tcpcl_send',
              'tcpcl_recv', 'tcpcl_handler', 'tcpcl_handler2', 'tcpcl_handler3', 'tcpcl_pump', 'tcpcl_msg',
              'tcpcl_models4', 'tcpcl_raw', 'tcpcl_modulate', 'tcpcl_agent', 'tcpcl_init'],
    'bp': ['bp_types', 'bp_models', 'bp_blocks', 'bp_agent', 'bp_report', 'bp_fwd', 'bp_apps', 'bp_sec'],
    'udpcl': ['udpcl_types', 'udpcl_agent', 'udpcl_send', 'udpcl_range'],
    'btpu': ['btpu_types', 'btpu_agent'],
    'tagent': ['tagent'],
}


def load_spec(suite):
    from pyvc.spec import Spec
    spec = Spec()
    for stem in SUITES[suite]:
        p = os.path.join(ROOT, 'contracts', stem + '.py')
        if os.path.exists(p):
            spec.load(p)
    return spec


def _run_unit(job):
    suite, key, case_idx, timeout_ms, src = job
    if src:
        os.environ['PYVC_REPO_SRC'] = src
    from pyvc.program import Program
    from pyvc.engine import Engine
    import pyvc.program as P
    if src:
        P.REPO_SRC = src
    spec = load_spec(suite)
    fs = spec.funcs[key]
    eng = Engine(Program(src) if src else Program(), spec, check_timeout_ms=timeout_ms)
    res = eng.verify(fs, case_idx)
    out = res.to_json()
    out['suite'] = suite
    out['trusted'] = False
    return out


def _tree_key(suite, timeout_ms, src):
    '''Hash of everything a unit result depends on: the repository sources the suite names, all
    contract files, the engine, the solver budget.  Results are reused only under an identical key
    (several property checks of one tree state share most of their units).'''
    import hashlib
    h = hashlib.sha256()
    h.update(('%s|%d' % (suite, timeout_ms)).encode())
    base = src or os.environ.get('PYVC_REPO_SRC') or '/repo/src'
    files = []
    for top in sorted(os.listdir(base)):
        d = os.path.join(base, top)
        if os.path.isdir(d):
            for root, _dirs, names in os.walk(d):
                if '/test' in root or '__pycache__' in root:
                    continue
                for n in names:
                    if n.endswith('.py'):
                        files.append(os.path.join(root, n))
    for stem in SUITES[suite]:
        p = os.path.join(ROOT, 'contracts', stem + '.py')
        if os.path.exists(p):
            files.append(p)
    d = os.path.join(ROOT, 'pyvc')
    for n in sorted(os.listdir(d)):
        if n.endswith('.py'):
            files.append(os.path.join(d, n))
    for f in sorted(files):
        h.update(f.encode())
        with open(f, 'rb') as fh:
            h.update(hashlib.sha256(fh.read()).digest())
    return h.hexdigest()[:24]


def _cache_path(tree_key, job):
    import hashlib
    d = os.path.join(ROOT, '.cache', tree_key)
    os.makedirs(d, exist_ok=True)
    return os.path.join(d, hashlib.sha256(('%s#%d' % (job[1], job[2])).encode()).hexdigest()[:24] + '.json')


def _child(job, conn):
    try:
        r = _run_unit(job)
    except BaseException as err:  # noqa
        r = _dead_unit(job, 'crash in worker: %r' % (err,))
    conn.send(r)
    conn.close()


def _retry_in_fresh_interpreter(job, attempt):
    '''A worker that died (segfault inside libz3: seen to depend on the order in which terms are built, i.e. on
    the interpreter's string-hash seed, which forked workers share with their parent) is run again in a new
    interpreter under another hash seed.  -> unit result dict or None'''
    import subprocess
    env = dict(os.environ)
    env['PYTHONHASHSEED'] = str(1000 + attempt)
    try:
        p = subprocess.run([sys.executable, '-m', 'pyvc.driver', '--unit', json.dumps(list(job))], cwd=ROOT, env=env,
                           capture_output=True, text=True, timeout=max(600, 60 * job[3] / 1000.0))
    except subprocess.TimeoutExpired:
        return None
    if os.environ.get('PYVC_DEBUG_RETRY'):
        sys.stderr.write('retry %s attempt %d: exit %s, %d octets of output, stderr %s\n' % (
            job[1], attempt, p.returncode, len(p.stdout), p.stderr[-300:]))
    for line in reversed(p.stdout.strip().splitlines()):
        if line.startswith('{'):
            try:
                return json.loads(line)
            except Exception:  # noqa
                return None
    return None


def _dead_unit(job, why, wall=0.0):
    suite, key, ci = job[0], job[1], job[2]
    return {'unit': '%s#%d' % (key, ci), 'function': key, 'file': None, 'lines': None, 'src_hash': None, 'stmts': 0,
            'paths': 0, 'queries': 0, 'solver_s': 0.0, 'wall_s': wall, 'unsupported': None, 'error': None,
            'timeout': why, 'covers': {}, 'callees_by_contract': [], 'soft_skips': [], 'notes': [], 'obligations': [],
            'suite': suite, 'trusted': False}


_ENG = {}


def _touched_invariant_tags(spec, fs, src):
    from pyvc.program import Program
    from pyvc.engine import Engine
    from pyvc.call import Frame
    from pyvc.sym import Unsupported
    key = id(spec)
    eng = _ENG.get(key)
    if eng is None:
        eng = Engine(Program(src) if src else Program(), spec)
        _ENG[key] = eng
    tags = set()
    try:
        module, ci, fdef = eng.locate(fs)
        eng.frame = Frame(fdef.name, module, ci, fdef, fs)
        _l, wfields, wghosts = eng.write_set(fdef.body, None)
    except Exception:
        wfields, wghosts = {'*'}, set()
    wnames = set(wfields) | {'ghost.' + g for g in wghosts}
    for lst in spec.invariants.values():
        for c in lst:
            if '*' in wfields or (eng.clause_reads(c.node) & wnames):
                tags |= set(c.props)
    return tags


def units_for(suite, props=None, keys=None, src=None):
    spec = load_spec(suite)
    jobs = []
    trusted = []
    for key, fs in spec.funcs.items():
        if keys and key not in keys:
            continue
        if fs.d.get('wip') and not keys:
            # a contract still being worked on: neither verified nor assumed by any claimed check
            continue
        if props:
            tags = set(fs.props)
            for c in fs.ensures:
                tags |= set(c.props)
            for c in fs.requires:
                tags |= set(c.props)
            for rs in fs.raises.values():
                for c in rs.ensures:
                    tags |= set(c.props)
            if fs.handler and not (tags & set(props)):
                # a handler must preserve the class invariant; the clauses tagged with the property
                # matter for it only if the handler writes something they read
                tags |= _touched_invariant_tags(spec, fs, src)
            if not (tags & set(props)):
                continue
        if not fs.verify:
            trusted.append({'function': key, 'reason': fs.trusted_reason})
            continue
        for ci in range(len(fs.cases)):
            jobs.append((suite, key, ci))
    return spec, jobs, trusted


def run(suites, props=None, keys=None, timeout_ms=10000, procs=None, src=None, quiet=False, unit_limit_s=None,
        no_cache=False):
    t0 = time.time()
    all_jobs = []
    trusted = []
    specs = {}
    for s in suites:
        spec, jobs, tr = units_for(s, props, keys, src)
        specs[s] = spec
        all_jobs.extend(jobs)
        trusted.extend(tr)
    jobs = [(s, k, ci, timeout_ms, src) for (s, k, ci) in all_jobs]
    procs = procs or 16
    results = []
    unit_limit = unit_limit_s or max(120, 40 * timeout_ms / 1000.0)

    def report(r):
        results.append(r)
        if not quiet:
            bad = [o for o in r['obligations'] if o['status'] != 'discharged']
            st = 'ok' if not bad and not r['unsupported'] and not r['error'] and not r.get('timeout') else 'ATTN'
            print('  [%s] %-70s %3d obligations %5.1fs %s' % (
                st, r['unit'][-70:], len(r['obligations']), r['wall_s'],
                (r['unsupported'] or r['error'] or r.get('timeout') or '')[:100]), flush=True)

    # own process management: a unit whose solver spins past every timeout is killed and
    # reported as undecided (never as a verdict)
    ctx = mp.get_context('fork')
    use_cache = os.environ.get('PYVC_NO_CACHE') != '1' and not no_cache
    keys_by_suite = {}
    pending = []
    for job in jobs:
        if use_cache:
            tk = keys_by_suite.get(job[0])
            if tk is None:
                tk = keys_by_suite[job[0]] = _tree_key(job[0], timeout_ms, src)
            cp = _cache_path(tk, job)
            if os.path.exists(cp):
                try:
                    with open(cp) as f:
                        r = json.load(f)
                    r['from_cache'] = tk
                    report(r)
                    continue
                except Exception:
                    pass
        pending.append(job)
    running = []   # (proc, conn, job, t_start)
    retries = {}
    while pending or running:
        while pending and len(running) < procs:
            job = pending.pop(0)
            parent, child = ctx.Pipe(duplex=False)
            p = ctx.Process(target=_child, args=(job, child), daemon=True)
            p.start()
            child.close()
            running.append((p, parent, job, time.time()))
        still = []
        for p, conn, job, t_start in running:
            if conn.poll(0.02):
                try:
                    r = conn.recv()
                except EOFError:
                    # the solver library occasionally crashes a worker (segfault in libz3): not a verdict;
                    # the unit is started again, up to two more times
                    p.join(5)
                    r = None
                    for attempt in range(1, 4):
                        retries[job[:3]] = retries.get(job[:3], 0) + 1
                        r = _retry_in_fresh_interpreter(job, attempt)
                        if r is not None:
                            break
                    if r is None:
                        r = _dead_unit(job, 'worker died (%d attempts, fresh interpreters)' % (retries[job[:3]] + 1))
                p.join(5)
                if use_cache and not r.get('timeout') and not r.get('error'):
                    try:
                        with open(_cache_path(keys_by_suite[job[0]], job), 'w') as f:
                            json.dump(r, f, default=str)
                    except Exception:
                        pass
                report(r)
            elif not p.is_alive():
                r = None
                for attempt in range(1, 4):
                    retries[job[:3]] = retries.get(job[:3], 0) + 1
                    r = _retry_in_fresh_interpreter(job, attempt)
                    if r is not None:
                        break
                if r is None:
                    r = _dead_unit(job, 'worker exited without a result (%d attempts, fresh interpreters)' % (retries[job[:3]] + 1))
                elif use_cache and not r.get('timeout') and not r.get('error'):
                    try:
                        with open(_cache_path(keys_by_suite[job[0]], job), 'w') as f:
                            json.dump(r, f, default=str)
                    except Exception:
                        pass
                report(r)
            elif time.time() - t_start > unit_limit:
                p.kill()
                p.join(5)
                report(_dead_unit(job, 'unit exceeded %ds wall (solver not responding to its timeout)' % unit_limit,
                                  wall=time.time() - t_start))
            else:
                still.append((p, conn, job, t_start))
        running = still
    results.sort(key=lambda r: r['unit'])
    return {'results': results, 'trusted': trusted, 'wall_s': time.time() - t0, 'specs': specs}


if __name__ == '__main__' and len(sys.argv) > 2 and sys.argv[1] == '--unit':
    # one unit in this (fresh) interpreter; result as one JSON line on stdout
    _job = tuple(json.loads(sys.argv[2]))
    print(json.dumps(_run_unit(_job), default=str))
    sys.exit(0)

if __name__ == '__main__':
    import argparse
    ap = argparse.ArgumentParser()
    ap.add_argument('suites')
    ap.add_argument('--props')
    ap.add_argument('--keys')
    ap.add_argument('--src')
    ap.add_argument('--timeout', type=int, default=10000)
    a = ap.parse_args()
    out = run(a.suites.split(','), a.props.split(',') if a.props else None, a.keys.split(',') if a.keys else None,
              a.timeout, src=a.src)
    for r in out['results']:
        for o in r['obligations']:
            if o['status'] != 'discharged':
                m = (o['models'] or [{}])[0] or {}
                probe = {k: v for k, v in m.items() if k.startswith('probe:') or k in ('exception', 'line')}
                print('%-10s %s %s' % (o['status'], o['id'], probe))
    print('units %d, wall %.1fs' % (len(out['results']), out['wall_s']))
