"""Run verification units in parallel and aggregate results per property."""
import json
import multiprocessing as mp
import os
import sys
import time

ROOT = os.path.dirname(os.path.dirname(os.path.abspath(__file__)))
sys.path.insert(0, ROOT)

SUITES = {
    'tcpcl': ['tcpcl_types', 'tcpcl_models', 'tcpcl_models2', 'tcpcl_models3', 'tcpcl_messenger', 'tcpcl_send',
              'tcpcl_recv', 'tcpcl_handler', 'tcpcl_handler2', 'tcpcl_handler3', 'tcpcl_pump', 'tcpcl_msg',
              'tcpcl_agent'],
    'bp': ['bp_types', 'bp_models', 'bp_blocks', 'bp_agent', 'bp_apps'],
    'udpcl': ['udpcl_types', 'udpcl_agent'],
    'btpu': ['btpu_types', 'btpu_agent'],
}


def load_spec(suite):
    from pyvc.spec import Spec
    spec = Spec()
    for stem in SUITES[suite]:
        p = os.path.join(ROOT, 'contracts', stem + '.py')
        if os.path.exists(p):
            spec.load(p)
    return spec


def _run_unit(job):
    suite, key, case_idx, timeout_ms, src = job
    if src:
        os.environ['PYVC_REPO_SRC'] = src
    from pyvc.program import Program
    from pyvc.engine import Engine
    import pyvc.program as P
    if src:
        P.REPO_SRC = src
    spec = load_spec(suite)
    fs = spec.funcs[key]
    eng = Engine(Program(src) if src else Program(), spec, check_timeout_ms=timeout_ms)
    res = eng.verify(fs, case_idx)
    out = res.to_json()
    out['suite'] = suite
    out['trusted'] = False
    return out


def _child(job, conn):
    try:
        r = _run_unit(job)
    except BaseException as err:  # noqa
        r = _dead_unit(job, 'crash in worker: %r' % (err,))
    conn.send(r)
    conn.close()


def _dead_unit(job, why, wall=0.0):
    suite, key, ci = job[0], job[1], job[2]
    return {'unit': '%s#%d' % (key, ci), 'function': key, 'file': None, 'lines': None, 'src_hash': None, 'stmts': 0,
            'paths': 0, 'queries': 0, 'solver_s': 0.0, 'wall_s': wall, 'unsupported': None, 'error': None,
            'timeout': why, 'covers': {}, 'callees_by_contract': [], 'soft_skips': [], 'notes': [], 'obligations': [],
            'suite': suite, 'trusted': False}


def units_for(suite, props=None, keys=None):
    spec = load_spec(suite)
    jobs = []
    trusted = []
    for key, fs in spec.funcs.items():
        if keys and key not in keys:
            continue
        if props:
            tags = set(fs.props)
            for c in fs.ensures:
                tags |= set(c.props)
            for c in fs.requires:
                tags |= set(c.props)
            for rs in fs.raises.values():
                for c in rs.ensures:
                    tags |= set(c.props)
            if fs.handler:
                # every handler carries the class invariant, whose clauses are tagged too
                sch = fs.inv_schema
                for lst in spec.invariants.values():
                    for c in lst:
                        tags |= set(c.props)
            if not (tags & set(props)):
                continue
        if not fs.verify:
            trusted.append({'function': key, 'reason': fs.trusted_reason})
            continue
        for ci in range(len(fs.cases)):
            jobs.append((suite, key, ci))
    return spec, jobs, trusted


def run(suites, props=None, keys=None, timeout_ms=10000, procs=None, src=None, quiet=False, unit_limit_s=None):
    t0 = time.time()
    all_jobs = []
    trusted = []
    specs = {}
    for s in suites:
        spec, jobs, tr = units_for(s, props, keys)
        specs[s] = spec
        all_jobs.extend(jobs)
        trusted.extend(tr)
    jobs = [(s, k, ci, timeout_ms, src) for (s, k, ci) in all_jobs]
    procs = procs or 16
    results = []
    unit_limit = unit_limit_s or max(120, 40 * timeout_ms / 1000.0)

    def report(r):
        results.append(r)
        if not quiet:
            bad = [o for o in r['obligations'] if o['status'] != 'discharged']
            st = 'ok' if not bad and not r['unsupported'] and not r['error'] and not r.get('timeout') else 'ATTN'
            print('  [%s] %-70s %3d obligations %5.1fs %s' % (
                st, r['unit'][-70:], len(r['obligations']), r['wall_s'],
                (r['unsupported'] or r['error'] or r.get('timeout') or '')[:100]), flush=True)

    # own process management: a unit whose solver spins past every timeout is killed and
    # reported as undecided (never as a verdict)
    ctx = mp.get_context('fork')
    pending = list(jobs)
    running = []   # (proc, conn, job, t_start)
    while pending or running:
        while pending and len(running) < procs:
            job = pending.pop(0)
            parent, child = ctx.Pipe(duplex=False)
            p = ctx.Process(target=_child, args=(job, child), daemon=True)
            p.start()
            child.close()
            running.append((p, parent, job, time.time()))
        still = []
        for p, conn, job, t_start in running:
            if conn.poll(0.02):
                try:
                    r = conn.recv()
                except EOFError:
                    r = _dead_unit(job, 'worker died')
                p.join(5)
                report(r)
            elif not p.is_alive():
                report(_dead_unit(job, 'worker exited without a result'))
            elif time.time() - t_start > unit_limit:
                p.kill()
                p.join(5)
                report(_dead_unit(job, 'unit exceeded %ds wall (solver not responding to its timeout)' % unit_limit,
                                  wall=time.time() - t_start))
            else:
                still.append((p, conn, job, t_start))
        running = still
    results.sort(key=lambda r: r['unit'])
    return {'results': results, 'trusted': trusted, 'wall_s': time.time() - t0, 'specs': specs}


if __name__ == '__main__':
    import argparse
    ap = argparse.ArgumentParser()
    ap.add_argument('suites')
    ap.add_argument('--props')
    ap.add_argument('--keys')
    ap.add_argument('--src')
    ap.add_argument('--timeout', type=int, default=10000)
    a = ap.parse_args()
    out = run(a.suites.split(','), a.props.split(',') if a.props else None, a.keys.split(',') if a.keys else None,
              a.timeout, src=a.src)
    for r in out['results']:
        for o in r['obligations']:
            if o['status'] != 'discharged':
                m = (o['models'] or [{}])[0] or {}
                probe = {k: v for k, v in m.items() if k.startswith('probe:') or k in ('exception', 'line')}
                print('%-10s %s %s' % (o['status'], o['id'], probe))
    print('units %d, wall %.1fs' % (len(out['results']), out['wall_s']))
