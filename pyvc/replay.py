"""Replay of counterexamples on the real code.

make_and_run() writes a self-contained replay file (obligation, clause text,
solver model as plain data, solver output) and runs it: the real object is
built through its constructor under the stub environment, the pre-state of the
model is injected, the real function is called and the failed clause is
evaluated concretely (pyvc.concrete).  The result is
  True   the clause fails on the real code with this input      (violation reproduced)
  False  it does not (or cannot be evaluated) for a definite solver model
  None   a *candidate* model (quantified hypotheses ignored) that does not reproduce
"""
import json
import os
import re
import subprocess
import sys

ROOT = os.path.dirname(os.path.dirname(os.path.abspath(__file__)))


def _spec_payload(spec, fs):
    sf = {}
    for name, (params, node) in spec.specfuncs.items():
        import ast
        sf[name] = [params, ast.unparse(node)]
    return {'specfuncs': sf, 'consts': {k: v for k, v in spec.consts.items() if isinstance(v, (int, str))}}


def clause_source(spec, fs, ob):
    '''Text of the clause behind an obligation id (for concrete evaluation).'''
    kind, label = ob['kind'], ob['label']
    if kind == 'ensures':
        for c in fs.ensures:
            if c.label == label:
                return c.expr
    if kind in ('invariant', 'invariant_on_raise'):
        lab = label.split('.', 1)[1] if kind == 'invariant_on_raise' else label
        for lst in spec.invariants.values():
            for c in lst:
                if c.label == lab:
                    return c.expr
    if kind == 'raises_iff' or kind == 'raises_when':
        rs = fs.raises.get(label)
        if rs is not None:
            return rs.when_src
    if kind == 'raises_ensures':
        exc, lab = label.rsplit('.', 1)
        rs = fs.raises.get(exc)
        if rs:
            for c in rs.ensures:
                if c.label == lab:
                    return c.expr
    return None


def _hypotheses(spec, fs, case):
    '''Pre-state assumptions of the unit (requires, case requires, class invariants for handlers): a
    solver model that violates one of them concretely is spurious and is not replayed as a finding.'''
    out = [['requires:' + c.label, c.expr] for c in fs.requires]
    if case:
        for c in (case.get('requires') or []):
            out.append(['case-requires:' + str(c[0]), c[1]])
    if fs.handler or fs.d.get('inv_use'):
        for lst in spec.invariants.values():
            for c in lst:
                out.append(['invariant:' + c.label, c.expr])
    return out


def make_and_run(prop, unit, ob, src=None):
    from pyvc import driver
    from pyvc import sym
    spec = driver.load_spec(unit['suite'])
    fs = spec.funcs[unit['function']]
    model = (ob['models'] or [None])[0] or {}
    case = None
    m = re.search(r'\[(.+)\]$', unit['unit'])
    if m:
        for c in fs.cases:
            if c.get('name') == m.group(1):
                case = c
    data = {
        'property': prop, 'obligation': ob['id'], 'kind': ob['kind'], 'label': ob['label'], 'status': ob['status'],
        'function': unit['function'], 'unit': unit['unit'], 'suite': unit['suite'],
        'source_file': unit['file'], 'source_lines': unit['lines'], 'source_hash': unit['src_hash'],
        'case': {'name': case.get('name'), 'params': case.get('params', {})} if case else None,
        'clause': clause_source(spec, fs, ob),
        'hypotheses': _hypotheses(spec, fs, case),
        'raises_declared': sorted(fs.raises.keys()),
        'solver': {'verdict': 'sat' if ob['status'] == 'failed' else 'candidate (model of the quantifier-free hypotheses)',
                   'backends': ob['backends'], 'model': {k: v for k, v in model.items() if k not in ('__state__', '__probes__')}},
        'probes': model.get('__probes__'),
        'state': model.get('__state__'),
        'str_lits': {str(v): k for k, v in sym._STR_LITS.items()},
        'func_tags': {str(v): k for k, v in sym._FUNC_TAGS.items()},
        'spec': _spec_payload(spec, fs),
        'ghost_send': _ghost_code(spec, 'tcpcl.session:Messenger.send_message'),
        'repo_src': src or os.environ.get('PYVC_REPO_SRC') or '/repo/src',
    }
    os.makedirs(os.path.join(ROOT, 'replays'), exist_ok=True)
    name = '%s-%s.json' % (prop, re.sub(r'[^A-Za-z0-9_.]+', '_', ob['id']))[:180]
    path = os.path.join(ROOT, 'replays', name)
    with open(path, 'w') as f:
        json.dump(data, f, indent=1, default=str)
    rc, out = run_subprocess(path)
    data['replay_output'] = out[-4000:]
    # reproduced only on the explicit verdict line of a replay that ran to its end (a crash of the replay
    # itself also exits non-zero and is never taken for a reproduction)
    ok = (rc == 1 and out.rstrip().endswith('REPRODUCED') and not out.rstrip().endswith('NOT-REPRODUCED'))
    data['reproduced'] = ok
    with open(path, 'w') as f:
        json.dump(data, f, indent=1, default=str)
    if ok:
        return path, True
    if ob['status'] == 'failed':
        return path, False
    return path, None


def write_unproved(prop, unit, ob, src=None):
    '''Replay file of an obligation that was discharged on the unchanged tree and is not provable on this one, the
    solver giving no model: it names the obligation and carries the verifier's output; there is no input to run.'''
    from pyvc import driver
    spec = driver.load_spec(unit['suite'])
    fs = spec.funcs[unit['function']]
    data = {
        'property': prop, 'obligation': ob['id'], 'kind': ob['kind'], 'label': ob['label'], 'status': ob['status'],
        'function': unit['function'], 'unit': unit['unit'], 'suite': unit['suite'],
        'source_file': unit['file'], 'source_lines': unit['lines'], 'source_hash': unit['src_hash'],
        'clause': clause_source(spec, fs, ob),
        'solver': {'verdict': 'unknown (no proof and no counter-model within twice the per-obligation budget; the same '
                              'obligation is in the committed baseline of obligations discharged on the unchanged tree)',
                   'backends': ob['backends'], 'per_path': ob.get('paths'), 'solver_s': ob.get('solver_s')},
        'unit_notes': unit.get('notes'), 'unit_unsupported': unit.get('unsupported'),
        'reproduced': False, 'no_failing_input': True,
        'repo_src': src or os.environ.get('PYVC_REPO_SRC') or '/repo/src',
    }
    os.makedirs(os.path.join(ROOT, 'replays'), exist_ok=True)
    name = '%s-%s.json' % (prop, re.sub(r'[^A-Za-z0-9_.]+', '_', ob['id']))[:180]
    path = os.path.join(ROOT, 'replays', name)
    with open(path, 'w') as f:
        json.dump(data, f, indent=1, default=str)
    return path


def _ghost_code(spec, key):
    fs = spec.funcs.get(key)
    if fs is None:
        return None
    return fs.d.get('ghost_exit')


def run_subprocess(path):
    py = os.path.join(ROOT, '.venv', 'bin', 'python')
    if not os.path.exists(py):
        py = sys.executable
    try:
        p = subprocess.run([py, '-m', 'pyvc.replay', path], cwd=ROOT, capture_output=True, text=True, timeout=120)
        return p.returncode, p.stdout + p.stderr
    except subprocess.TimeoutExpired:
        return 2, 'replay timed out'


def run_file(path):
    with open(path) as f:
        data = json.load(f)
    os.environ['PYVC_REPO_SRC'] = data.get('repo_src') or '/repo/src'
    if data.get('bounded'):
        parts = data['bounded'].split()
        p = subprocess.run([sys.executable, os.path.join(ROOT, parts[0])] + parts[1:] + ['--replay', path], cwd=ROOT)
        return p.returncode
    print('replay of %s' % data['obligation'])
    print('  function %s (%s lines %s, hash %s)' % (data['function'], data['source_file'], data['source_lines'],
                                                  data['source_hash']))
    print('  solver: %s via %s' % (data['solver']['verdict'], data['solver']['backends']))
    suite = data['suite']
    if data.get('no_failing_input'):
        print('  the verifier produced no counter-model for this obligation: nothing to run')
        print('NOT-REPRODUCED')
        return 0
    if suite == 'tcpcl':
        sys.path.insert(0, os.path.join(ROOT, 'harness'))
        import tcpcl_replay
        ok, msg = tcpcl_replay.replay(data)
    elif suite == 'bp' and os.path.exists(os.path.join(ROOT, 'harness', 'bp_replay.py')):
        sys.path.insert(0, os.path.join(ROOT, 'harness'))
        import bp_replay
        ok, msg = bp_replay.replay(data)
    else:
        ok, msg = False, 'no replay driver for suite %s' % suite
    print('  observed: %s' % msg)
    print('REPRODUCED' if ok else 'NOT-REPRODUCED')
    return 1 if ok else 0


if __name__ == '__main__':
    sys.exit(run_file(sys.argv[1]))
