#!/usr/bin/env python3
'''C18, agent level -- BOUNDED stand-in, never counted as proved.

The TCPCL agent's own D-Bus view: connection_opened / connection_closed signals (signature 'o'), get_connections()
('ao') and handler_for_path().  A real tcpcl.agent.Agent with contacts bound through the real Agent._bind_handler
over fake sockets; every sequence of up to N operations "a contact opens" / "the k-th live contact closes" is run, and
after every operation:

  * no exception escaped, dbus.service.TYPE_ERRORS is empty (signal arguments and return values conform);
  * the object paths of the live contacts are pairwise different, and each was announced by exactly one
    connection_opened not yet followed by a connection_closed;
  * get_connections() lists exactly those paths; handler_for_path(path) is the contact announced under that path;
  * a closed contact got exactly one connection_closed and is no longer registered.

Usage: c18_agent.py [--tier quick|thorough] [--replay FILE]  -> one JSON line on stdout; exit 0 / 1.
'''
import itertools
import json
import logging
import os
import sys

HERE = os.path.dirname(os.path.abspath(__file__))
SRC = os.environ.get('PYVC_REPO_SRC') or '/repo/src'
sys.path[:0] = [os.path.join(HERE, 'stubs'), SRC]
logging.disable(logging.CRITICAL)

import dbus.bus  # noqa: E402
import dbus.service  # noqa: E402
from gi.repository import GLib  # noqa: E402
import tcpcl.agent  # noqa: E402
import tcpcl.config  # noqa: E402


class FakeSock(object):
    def __init__(self, n):
        self.n = n
        self.closed = False

    def setblocking(self, _flag):
        pass

    def fileno(self):
        return -1 if self.closed else 10 + self.n

    def getpeername(self):
        return ('192.0.2.%d' % (10 + self.n), 4556)

    def getsockname(self):
        return ('192.0.2.1', 4556)

    def recv(self, _size):
        raise BlockingIOError()

    def send(self, data):
        return len(data)

    def shutdown(self, _how):
        pass

    def close(self):
        self.closed = True


def run(ops):
    '''ops: list of 'o' (open) or an int k (close the k-th live contact, modulo the number of live ones) -> problems'''
    GLib.reset()
    del dbus.service.SIGNAL_LOG[:]
    del dbus.service.TYPE_ERRORS[:]
    cfg = tcpcl.config.Config()
    cfg._bus_conn = dbus.bus.BusConnection()
    agent = tcpcl.agent.Agent(cfg)
    live = []          # (handler, path announced for it)
    n_open = 0
    for step, op in enumerate(ops):
        where = 'step %d (%s)' % (step, 'open' if op == 'o' else 'close #%s' % op)
        before = len(dbus.service.SIGNAL_LOG)
        try:
            if op == 'o':
                hdl = agent._bind_handler(config=cfg, sock=FakeSock(n_open), fromaddr=('192.0.2.%d' % (10 + n_open), 40000))
                n_open += 1
                new = [a for (o, name, a) in dbus.service.SIGNAL_LOG[before:] if o is agent and name == 'connection_opened']
                if len(new) != 1:
                    return ['%s: %d connection_opened signals for one new contact' % (where, len(new))]
                live.append((hdl, new[0][0]))
            else:
                if not live:
                    continue
                hdl, path = live.pop(op % len(live))
                hdl.close()
                closed = [a for (o, name, a) in dbus.service.SIGNAL_LOG[before:] if o is agent and name == 'connection_closed']
                if [c[0] for c in closed] != [path]:
                    return ['%s: connection_closed signals %r for the contact announced as %r' % (where, closed, path)]
                if hdl in agent._handlers:
                    return ['%s: the closed contact is still registered' % where]
        except Exception as e:  # noqa
            return ['%s: %s: %s' % (where, type(e).__name__, e)]
        if dbus.service.TYPE_ERRORS:
            return ['%s: D-Bus type errors %r' % (where, dbus.service.TYPE_ERRORS[:2])]
        paths = [p for (_h, p) in live]
        if len(set(paths)) != len(paths):
            return ['%s: two live contacts were announced under one object path: %r' % (where, sorted(paths))]
        try:
            listed = sorted(str(p) for p in agent.get_connections())
        except Exception as e:  # noqa
            return ['%s: get_connections raised %s: %s' % (where, type(e).__name__, e)]
        if listed != sorted(paths):
            return ['%s: get_connections() %r, live contacts were announced as %r' % (where, listed, sorted(paths))]
        for hdl, path in live:
            try:
                found = agent.handler_for_path(path)
            except Exception as e:  # noqa
                return ['%s: handler_for_path(%r) raised %s' % (where, path, type(e).__name__)]
            if found is not hdl:
                return ['%s: handler_for_path(%r) is another contact than the one announced under it' % (where, path)]
        if len(agent._handlers) != len(live):
            return ['%s: %d contacts registered, %d live' % (where, len(agent._handlers), len(live))]
    return []


def main(argv):
    tier = argv[argv.index('--tier') + 1] if '--tier' in argv else 'quick'
    if '--replay' in argv:
        with open(argv[argv.index('--replay') + 1]) as f:
            one = json.load(f).get('failure') or {}
        ops = [o if o == 'o' else int(o) for o in (one.get('case') or {}).get('ops', [])]
        print('replay of bounded check %s: %r' % (one.get('check'), ops))
        probs = run(ops)
        for p in probs:
            print('  observed: %s' % p)
        print('REPRODUCED' if probs else 'NOT-REPRODUCED')
        return 1 if probs else 0
    depth = 6 if tier == 'quick' else 8
    fails, n = [], 0
    for ln in range(1, depth + 1):
        for ops in itertools.product(('o', 0, 1), repeat=ln):
            if ops[0] != 'o':
                continue
            n += 1
            probs = run(list(ops))
            if probs:
                fails.append({'check': 'A-agent-view', 'case': {'ops': list(ops)}, 'got': probs})
                if len(fails) >= 10:
                    break
        if len(fails) >= 10:
            break
    out = {'tool': 'enumeration on a real tcpcl.agent.Agent (contacts bound through Agent._bind_handler over fake sockets)',
           'bound': 'every sequence of up to %d operations "a contact opens" / "the first live contact closes" / "the second '
                    'live contact closes": object paths of live contacts distinct, opened / closed signals, get_connections, '
                    'handler_for_path, D-Bus conformance' % depth,
           'evaluations': n, 'distinct_nontrivial': n, 'rule': 'one case = one operation sequence on a fresh agent',
           'samples': [], 'failures': fails}
    print(json.dumps(out))
    return 1 if fails else 0


if __name__ == '__main__':
    sys.exit(main(sys.argv[1:]))
