"""Replay a counter-model of a tcpcl.session obligation on the real code."""
import io
import os
import sys

HERE = os.path.dirname(os.path.abspath(__file__))
ROOT = os.path.dirname(HERE)
sys.path.insert(0, ROOT)
sys.path.insert(0, HERE)

import tcpcl_env as E  # noqa: E402  (sets up paths: stubs + repo src)
from pyvc.concrete import Evaluator, Ghost, Rec, CannotEvaluate  # noqa: E402

session, messages, contact, extend = E.session, E.messages, E.contact, E.extend
PKT_CLASSES = {}
for mod in (messages, contact, extend):
    for n in dir(mod):
        c = getattr(mod, n)
        if isinstance(c, type):
            PKT_CLASSES[n] = c


class Builder(object):
    def __init__(self, data, hdl):
        self.data = data
        self.hdl = hdl
        self.state = data.get('state') or {}
        self.objects = self.state.get('objects', {})
        self.made = {}
        self.lits = data.get('str_lits', {})

    def conv(self, v, hint=None):
        if isinstance(v, dict):
            if 'ref' in v:
                return self.obj(v['cls'], v['ref'])
            if 'str_of_int' in v:
                return str(v['str_of_int'])
            if 'str_lit' in v:
                return self.lits.get(str(v['str_lit']), 'lit%s' % v['str_lit'])
            if 'str_opaque' in v:
                return 'opaque-%s' % v['str_opaque']
            if 'bytes_len' in v:
                head = bytes(v.get('head') or [])
                return head + bytes(max(0, v['bytes_len'] - len(head)))
            if 'set' in v:
                return set(self.conv(x) for x in v['set'] if not (isinstance(x, dict) and 'default_member' in x))
            if 'dict' in v:
                return {self.conv(k): self.conv(x) for k, x in v['dict']}
            if 'alt' in v:
                if v['alt'] == 'none':
                    return None
                if v['alt'] == 'false':
                    return False
                return self.conv(v.get('val'))
            if 'float' in v:
                return 1.0
            if 'opaque' in v:
                return hint
            return {k: self.conv(x) for k, x in v.items()}
        if isinstance(v, list):
            return [self.conv(x) for x in v if not (isinstance(x, dict) and 'truncated_len' in x)]
        return v

    def obj(self, cls, ref):
        key = (cls, ref)
        if key in self.made:
            return self.made[key]
        fields = self.objects.get(cls, {}).get(str(ref), {})
        if cls == 'BundleItem':
            o = session.BundleItem()
            self.made[key] = o
            for fn, val in fields.items():
                setattr(o, fn, self.conv(val))
        elif cls == 'BytesIO':
            content = self.conv(fields.get('content', {'bytes_len': 0})) or b''
            o = io.BytesIO(content)
            pos = fields.get('pos') or 0
            o.seek(max(0, min(pos if isinstance(pos, int) else 0, len(content))))
            self.made[key] = o
        elif cls == 'Config':
            o = self.hdl._config
            self.made[key] = o
            for fn, val in fields.items():
                setattr(o, fn, self.conv(val))
        elif cls.startswith('pkt:'):
            o = self.pkt(cls[4:], ref)
            self.made[key] = o
        elif cls == 'ContactHandler':
            o = self.hdl
            self.made[key] = o
        else:
            o = None
            self.made[key] = o
        return o

    def pkt(self, layer, ref, layers=None):
        fields = self.objects.get('pkt:' + layer, {}).get(str(ref), {})
        cls = PKT_CLASSES[layer]
        kw = {}
        names = [f.name for f in cls.fields_desc] if hasattr(cls, 'fields_desc') else []
        for fn, val in fields.items():
            if fn in ('payload',) or fn.startswith('_') or fn not in names:
                continue
            cv = self.conv(val)
            if cv is None:
                continue
            if fn in ('ext_items',):
                cv = [x for x in cv if x is not None]
            kw[fn] = cv
        p = cls(**kw)
        if layers and len(layers) > 1:
            sub = fields.get('payload')
            if isinstance(sub, int):
                p = p / self.pkt(layers[1], sub, layers[1:])
        return p


def snapshot(hdl):
    '''Copy of the handler state for old(): containers and items are copied, memo maps originals to copies.'''
    import copy
    memo = {}

    class Snap(object):
        pass
    snap = Snap()
    memo[id(hdl)] = snap

    def cp(v):
        if id(v) in memo:
            return memo[id(v)]
        if isinstance(v, session.BundleItem):
            c = session.BundleItem()
            memo[id(v)] = c
            for k, x in v.__dict__.items():
                setattr(c, k, cp(x))
            return c
        if isinstance(v, io.BytesIO):
            c = FileView(v.getvalue(), v.tell())
            memo[id(v)] = c
            return c
        if isinstance(v, list):
            return [cp(x) for x in v]
        if isinstance(v, set):
            return set(cp(x) for x in v)
        if isinstance(v, dict):
            return {k: cp(x) for k, x in v.items()}
        return v
    for k, v in hdl.__dict__.items():
        setattr(snap, k, cp(v))
    snap.__class__ = type('Snap', (object,), {})
    return snap, memo


class FileView(object):
    def __init__(self, content, pos):
        self.content = bytes(content)
        self.pos = pos


class FileProxy(object):
    '''content / pos view of a real file object (the BytesIO model of the contracts)'''

    def __init__(self, f):
        self._f = f

    @property
    def content(self):
        return self._f.getvalue()

    @property
    def pos(self):
        return self._f.tell()


def wrap_files(obj):
    return obj


def replay(data):
    E.reset_world()
    state = data.get('state') or {}
    objs = state.get('objects', {})
    selfref = (state.get('args', {}).get('self') or {}).get('ref')
    sfields = objs.get('ContactHandler', {}).get(str(selfref), {})
    passive = bool(sfields.get('_as_passive', True))
    hdl, sock = E.make_handler(passive=passive)
    b = Builder(data, hdl)
    b.made[('ContactHandler', selfref)] = hdl
    notes = []
    for fn, val in sfields.items():
        cur = getattr(hdl, fn, None)
        if fn in ('_Connection__s_notls', '_Connection__s_tls'):
            if val is None:
                setattr(hdl, fn, None)
            elif cur is None:
                setattr(hdl, fn, E.FakeSocket(name=fn))
            continue
        if fn in ('_on_close', '_on_state_change', '_in_sess_func', '_in_term_func'):
            setattr(hdl, fn, None if val is None else (lambda *a: None))
            continue
        if fn == '_segment_tx_times':
            setattr(hdl, fn, {})
            continue
        if fn in ('_segment_pid_err_last', '_segment_pid_err_accum'):
            setattr(hdl, fn, None if val is None else 0.0)
            continue
        try:
            setattr(hdl, fn, b.conv(val, hint=cur))
        except Exception as err:  # noqa
            notes.append('could not inject %s: %s' % (fn, err))
    # timers named by the state exist as (stub) glib sources
    for fn, cb in (('_keepalive_timer_id', hdl._keepalive_timeout), ('_idle_timer_id', hdl._idle_timeout)):
        v = getattr(hdl, fn, None)
        if isinstance(v, int):
            E.GLib.SOURCES[v] = dict(kind='timeout', func=cb, args=(), delay=1000, due=1000, extra=None)
    extra_ns = {'contact': contact, 'messages': messages}
    probes = data.get('probes') or {}
    if 'san_ip' in probes and 'ip_ref' in probes:
        import c15_cert
        try:
            n2, ns2 = c15_cert.setup(hdl, probes, E.FakeSocket)
            notes.extend(n2)
            extra_ns.update(ns2)
        except Exception as err:  # noqa
            notes.append('C15 scenario not built: %r' % (err,))
    # arguments
    args = {}
    case = data.get('case') or {}
    for name, val in (state.get('args') or {}).items():
        if name == 'self':
            continue
        if isinstance(val, dict) and 'ref' in val and str(val.get('cls', '')).startswith('pkt:'):
            ptype = (case.get('params') or {}).get(name, '')
            layers = [x.strip() for x in ptype[4:-1].split(',')] if ptype.startswith('Pkt[') else [val['cls'][4:]]
            args[name] = b.pkt(layers[0], val['ref'], layers)
        else:
            args[name] = b.conv(val)
    rec = E.Recorder(hdl)
    snap, memo = snapshot(hdl)
    # concrete ghost (recorded part)
    ghost0 = {k: b.conv(v) for k, v in (state.get('ghost') or {}).items()}
    fname = data['function'].split('.')[-1]
    meth = None
    for klass in type(hdl).__mro__:
        if klass.__name__ == data['function'].split(':')[1].split('.')[0] and fname in klass.__dict__:
            meth = klass.__dict__[fname]
    if meth is None:
        meth = getattr(type(hdl), fname)
    # the model must satisfy the unit's pre-state assumptions (requires, class invariants): a candidate
    # model comes from the quantifier-free hypotheses only and may describe an unreachable state
    spec = data.get('spec') or {}
    specfuncs = {k: (v[0], v[1]) for k, v in (spec.get('specfuncs') or {}).items()}
    ev0 = Evaluator(specfuncs, spec.get('consts') or {}, extra=extra_ns)
    g0 = dict(ghost0)
    g0['trace'] = [Rec(x) if isinstance(x, dict) else x for x in (ghost0.get('trace') or [])]
    g0['signals'] = [Rec(x) if isinstance(x, dict) else x for x in (ghost0.get('signals') or [])]
    ns0 = ev0.namespace({'self': View(hdl)}, Ghost(g0))
    ns0.update(args)
    skipped = 0
    for lab, src in (data.get('hypotheses') or []):
        try:
            if not ev0.eval_src(src, ns0):
                return False, 'the solver model violates the assumed %s on the injected pre-state (spurious model)' % lab
        except CannotEvaluate:
            skipped += 1
    exc = None
    result = None
    try:
        result = meth(hdl, **args)
    except BaseException as err:  # noqa
        exc = err
    observed = 'returned %r' % (result,) if exc is None else 'raised %s: %s' % (type(exc).__name__, exc)
    observed += '; events emitted: %s' % [(e['kind'], e['xid'], e['flags'], e['dlen']) for e in rec.trace]
    observed += '; closed=%s' % (hdl._Connection__s_notls is None)
    if notes:
        observed += '; notes: %s' % notes
    kind = data['kind']
    declared = data.get('raises_declared') or []
    if kind == 'no_exception':
        if exc is not None and type(exc).__name__ not in [d.split('.')[-1] for d in declared]:
            want = str(((data.get('solver') or {}).get('model') or {}).get('exception') or '').split('.')[-1]
            if want and want != type(exc).__name__:
                # not the exception of the solver's path: an artefact of the injected state, not a replay
                return False, observed + ' -- but the solver model predicts %s: not the same failure' % want
            return True, observed + ' -- an undeclared exception escapes the handler'
        return False, observed
    # clause evaluation
    clause = data.get('clause')
    if not clause:
        if kind == 'call_pre' and exc is not None:
            # a violated callee precondition shows as an exception raised inside that callee
            import traceback
            callee = data['label'].split('@')[0].split('.')[-1]
            frames = [f.name for f in traceback.extract_tb(exc.__traceback__)]
            if callee in frames:
                return True, observed + ' -- the exception comes out of %s() (its precondition did not hold)' % callee
            return False, observed + ' -- exception not related to %s()' % callee
        return False, observed + ' -- no clause text to evaluate'
    spec = data.get('spec') or {}
    specfuncs = {k: (v[0], v[1]) for k, v in (spec.get('specfuncs') or {}).items()}
    ev = Evaluator(specfuncs, spec.get('consts') or {}, extra=extra_ns)
    gold = dict(ghost0)
    gnew = dict(ghost0)
    gold_trace = [Rec(x) if isinstance(x, dict) else x for x in (ghost0.get('trace') or [])]
    gnew['trace'] = gold_trace + [Rec(e) for e in rec.trace]
    gold['trace'] = gold_trace
    gold_sig = [Rec(x) if isinstance(x, dict) else x for x in (ghost0.get('signals') or [])]
    gnew['signals'] = gold_sig + [Rec(s) for s in rec.signals()]
    gold['signals'] = gold_sig
    for dropped in ('src_armed', 'src_delay', 'src_cb'):
        gold.pop(dropped, None)
        gnew.pop(dropped, None)
    view_new = View(hdl)
    view_old = View(snap)
    ns_old = ev.namespace({'self': view_old}, Ghost(gold))
    for k, v in args.items():
        ns_old[k] = v
    ev.set_old(ns_old, {id(view_new): view_old, id(hdl): view_old})
    ns = ev.namespace({'self': view_new, 'result': result}, Ghost(gnew))
    for k, v in args.items():
        ns[k] = v
    try:
        if kind == 'raises_iff':
            w = ev.eval_src(clause, ns_old)
            if exc is None and w:
                return True, observed + ' -- returned normally although the contract demands %s' % data['label']
            return False, observed + ' -- when-condition %s' % w
        if kind == 'raises_when':
            w = ev.eval_src(clause, ns_old)
            if exc is not None and not w:
                return True, observed + ' -- raised although its condition does not hold'
            return False, observed
        if exc is not None and kind in ('ensures', 'invariant'):
            return False, observed + ' -- exception instead of normal return'
        val = ev.eval_src(clause, ns)
        if not val:
            return True, observed + ' -- clause evaluates to False on the real post-state'
        return False, observed + ' -- clause holds on the real post-state'
    except CannotEvaluate as err:
        return False, observed + ' -- clause not evaluable concretely: %s' % err


class View(object):
    '''Attribute view of a handler (or its snapshot) in which file objects show content / pos.'''

    def __init__(self, obj):
        object.__setattr__(self, '_o', obj)

    def __getattr__(self, k):
        v = getattr(object.__getattribute__(self, '_o'), k)
        return wrap(v)

    def __eq__(self, other):
        return isinstance(other, View) and other._o is self._o

    def __hash__(self):
        return id(self._o)


def wrap(v):
    if isinstance(v, io.BytesIO):
        return FileProxy(v)
    if isinstance(v, session.BundleItem) or type(v).__name__ == 'Snap':
        return View(v)
    if isinstance(v, list):
        return [wrap(x) for x in v]
    if isinstance(v, set):
        return set(wrap(x) for x in v)
    if isinstance(v, dict):
        return {k: wrap(x) for k, x in v.items()}
    return v
