"""C05 -- BOUNDED stand-in, never counted as proved.

The proof of Fragment._create (contracts/bp_apps.py) sizes fragments with an assumed encoding-length rule
(scapy_cbor / cbor2 are outside the verifier's reach):

  R1  len(cbor2.dumps(n)) == hsize(n) for an unsigned integer n           (hsize = CBOR head size 1/2/3/5/9)
  R2  a bundle whose payload block carries L octets encodes to
      (its size with an empty payload) - 1 + hsize(L) + L octets

Here R1 and R2 are checked on the real encoders at the CBOR head boundaries, and the real agent is driven
end to end (receive -> forward -> fragment -> hand to a fake convergence layer) over a grid of payload
lengths x MTUs x CRC types x extension blocks with and without the replicate flag, checking on the octets
handed over: every datagram <= MTU, the fragments tile the payload exactly, identity / flag / offset / total
length, first fragment carries all extension blocks and later ones only the replicated ones, bundles that
fit or must not be fragmented leave unchanged, and nothing oversized leaves when fragmentation is impossible.

Usage:  c05_bounded.py [--tier quick|thorough] [--replay FILE]   -> JSON on stdout, exit 0 ok / 1 failure.
"""
import json
import logging
import os
import re
import sys

HERE = os.path.dirname(os.path.abspath(__file__))
sys.path.insert(0, HERE)
import env  # noqa: E402
env.setup()
logging.disable(logging.CRITICAL)

import cbor2  # noqa: E402
import dbus.bus  # noqa: E402
from gi.repository import GLib  # noqa: E402
from bp.encoding import (Bundle, PrimaryBlock, CanonicalBlock, Timestamp, HopCountBlock)  # noqa: E402
from bp.util import BundleContainer  # noqa: E402
from bp.config import Config, TxRouteItem, RxRouteItem  # noqa: E402
import bp.agent  # noqa: E402


# creation time of the test bundles (0 = a source without a clock, identified by its sequence number alone)
DTN_TIME = [5]


def hsize(n):
    return 1 if n < 24 else 2 if n < 256 else 3 if n < 65536 else 5 if n < 2 ** 32 else 9


def mk_bundle(plen, crc, flags=0, ext=(), seq=1, finish=True):
    blocks = []
    num = 2
    for (typ, bflags, data) in ext:
        blocks.append(CanonicalBlock(type_code=typ, block_num=num, block_flags=bflags, crc_type=crc, btsd=data))
        num += 1
    blocks.append(CanonicalBlock(type_code=1, block_num=1, crc_type=crc, btsd=bytes((i * 7 + 3) % 251 for i in range(plen))))
    b = Bundle(primary=PrimaryBlock(bundle_flags=flags, destination='dtn://d/x', source='dtn://s/', crc_type=crc,
                                    create_ts=Timestamp(dtntime=DTN_TIME[0], seqno=seq), lifetime=1000), blocks=blocks)
    if finish:
        b.fill_fields()
        b.update_all_crc()
    return b


def check_length_rule(fails, stats):
    for n in (0, 1, 23, 24, 255, 256, 65535, 65536, 2 ** 32 - 1, 2 ** 32, 2 ** 64 - 1):
        stats['evaluations'] += 1
        if len(cbor2.dumps(n)) != hsize(n):
            fails.append({'check': 'R1', 'n': n, 'got': len(cbor2.dumps(n)), 'want': hsize(n)})
    for crc in (0, 1, 2):
        base = len(bytes(mk_bundle(0, crc)))
        for L in (0, 1, 22, 23, 24, 25, 254, 255, 256, 257, 65534, 65535, 65536, 65537):
            stats['evaluations'] += 1
            got = len(bytes(mk_bundle(L, crc)))
            want = base - 1 + hsize(L) + L
            if got != want:
                fails.append({'check': 'R2', 'payload_len': L, 'crc_type': crc, 'got': got, 'want': want})


def forward(plen, mtu, crc, flags, ext):
    cfg = Config()
    cfg.node_id = 'dtn://me/'
    cfg._bus_conn = dbus.bus.BusConnection()
    GLib.reset()
    ag = bp.agent.Agent(cfg)
    sent = []

    class FakeCl(object):
        serv_name = 'x'

        def send_bundle_func(self, raw):
            return lambda data: sent.append(data)
    ag._cl_agent['udpcl'] = FakeCl()
    cfg.rx_route_table.append(RxRouteItem(eid_pattern=re.compile(r'.*'), action='forward'))
    cfg.tx_route_table.append(TxRouteItem(eid_pattern=re.compile(r'.*'), next_nodeid='dtn://n/', cl_type='udpcl',
                                          raw_config={}, mtu=mtu))
    orig = mk_bundle(plen, crc, flags, ext)
    data = bytes(orig)
    ctr = BundleContainer(Bundle(data))
    err = None
    try:
        ag.recv_bundle(ctr)
        GLib.pump_idle(400)
    except Exception as e:  # noqa
        err = '%s: %s' % (type(e).__name__, e)
    return orig, sent, ctr, err


def originate(plen, mtu, crc, flags, ext, fresh=False):
    '''a locally created bundle handed to Agent.send_bundle (as the applications do): no Previous Node block is added'''
    cfg = Config()
    cfg.node_id = 'dtn://me/'
    cfg._bus_conn = dbus.bus.BusConnection()
    GLib.reset()
    ag = bp.agent.Agent(cfg)
    sent = []

    class FakeCl(object):
        serv_name = 'x'

        def send_bundle_func(self, raw):
            return lambda data: sent.append(data)
    ag._cl_agent['udpcl'] = FakeCl()
    cfg.tx_route_table.append(TxRouteItem(eid_pattern=re.compile(r'.*'), next_nodeid='dtn://n/', cl_type='udpcl',
                                          raw_config={}, mtu=mtu))
    orig = mk_bundle(plen, crc, flags, ext)
    if fresh:
        # as the applications build it (Agent.ping, administrative records): packet objects that were never
        # encoded, CRC types set, CRC values not yet computed
        ctr = BundleContainer(mk_bundle(plen, crc, flags, ext, finish=False))
    else:
        ctr = BundleContainer(Bundle(bytes(orig)))
    err = None
    try:
        ag.send_bundle(ctr)
    except Exception as e:  # noqa
        # the caller of send_bundle is told that the bundle could not be sent: allowed, as long as nothing leaves
        err = '%s: %s' % (type(e).__name__, e)
    try:
        GLib.pump_idle(400)
    except Exception as e:  # noqa
        err = '%s: %s' % (type(e).__name__, e)
    return orig, sent, ctr, err


def check_case(plen, mtu, crc, flags, ext, fails, stats, mode='forward'):
    stats['evaluations'] += 1
    case = {'payload_len': plen, 'mtu': mtu, 'crc_type': crc, 'flags': flags, 'ext': [(t, f, len(d)) for t, f, d in ext],
            'mode': mode, 'dtntime': DTN_TIME[0]}
    if mode in ('originate', 'originate-fresh'):
        orig, sent, ctr, err = originate(plen, mtu, crc, flags, ext, fresh=(mode == 'originate-fresh'))
        if err and sent:
            fails.append({'check': 'P-partial-after-failure', 'case': case, 'got': [len(d) for d in sent], 'error': err})
            return
        err = None
    else:
        orig, sent, ctr, err = forward(plen, mtu, crc, flags, ext)
    payload = orig.blocks[-1].getfieldval('btsd')
    if err:
        fails.append({'check': 'E-exception', 'case': case, 'got': err})
        return
    outs = [Bundle(d) for d in sent]
    if flags & PrimaryBlock.Flag.NO_FRAGMENT:
        # "a bundle marked do-not-fragment ... is sent unchanged" (whatever its size)
        if len(outs) != 1 or outs[0].primary.bundle_flags & PrimaryBlock.Flag.IS_FRAGMENT or \
                outs[0].blocks[-1].getfieldval('btsd') != payload:
            fails.append({'check': 'U-do-not-fragment', 'case': case, 'got': [len(d) for d in sent]})
        return
    too_big = [len(d) for d in sent if mtu is not None and len(d) > mtu]
    if too_big:
        fails.append({'check': 'S-over-mtu', 'case': case, 'got': too_big})
        return
    if not outs:
        # nothing transmitted: acceptable only when fragmentation was needed and impossible / forbidden
        return
    frags = [o for o in outs if o.primary.bundle_flags & PrimaryBlock.Flag.IS_FRAGMENT]
    if not frags:
        if len(outs) != 1 or outs[0].blocks[-1].getfieldval('btsd') != payload:
            fails.append({'check': 'U-unchanged', 'case': case, 'got': [len(d) for d in sent]})
        return
    if flags & PrimaryBlock.Flag.NO_FRAGMENT:
        fails.append({'check': 'F-fragmented-although-forbidden', 'case': case})
        return
    frags.sort(key=lambda o: o.primary.fragment_offset)
    pos = 0
    for k, o in enumerate(frags):
        d = o.blocks[-1].getfieldval('btsd')
        p = o.primary
        if p.fragment_offset != pos or p.total_app_data_len != len(payload) or d != payload[pos:pos + len(d)] or not d:
            fails.append({'check': 'T-tiling', 'case': case, 'fragment': k, 'offset': p.fragment_offset, 'expected': pos,
                          'total': p.total_app_data_len})
            return
        if (p.source, p.create_ts.getfieldval('dtntime'), p.create_ts.seqno, p.destination) != (
                orig.primary.source, orig.primary.create_ts.getfieldval('dtntime'), orig.primary.create_ts.seqno,
                orig.primary.destination):
            fails.append({'check': 'I-identity', 'case': case, 'fragment': k})
            return
        types = sorted(b.type_code for b in o.blocks if b.type_code not in (1, 6, 7))
        want = sorted(t for (t, f, _d) in ext if k == 0 or f & 1)
        if types != want:
            fails.append({'check': 'B-blocks', 'case': case, 'fragment': k, 'got': types, 'want': want})
            return
        if o.check_all_crc():
            fails.append({'check': 'C-crc', 'case': case, 'fragment': k, 'got': sorted(o.check_all_crc())})
            return
        pos += len(d)
    if pos != len(payload):
        fails.append({'check': 'T-tiling', 'case': case, 'covered': pos, 'total': len(payload)})


def main(argv):
    tier = 'quick'
    if '--tier' in argv:
        tier = argv[argv.index('--tier') + 1]
    fails, stats, samples = [], {'evaluations': 0}, []
    if '--replay' in argv:
        with open(argv[argv.index('--replay') + 1]) as f:
            one = json.load(f).get('failure') or {}
        print('replay of bounded check %s' % one.get('check'))
        c = one.get('case')
        if c:
            ext = [(t, f, bytes(n)) for (t, f, n) in c['ext']]
            DTN_TIME[0] = c.get('dtntime', 5)
            check_case(c['payload_len'], c['mtu'], c['crc_type'], c['flags'], ext, fails, stats, mode=c.get('mode', 'forward'))
        else:
            check_length_rule(fails, stats)
        print('  observed: %s' % json.dumps(fails)[:1500])
        print('REPRODUCED' if fails else 'NOT-REPRODUCED')
        return 1 if fails else 0
    check_length_rule(fails, stats)
    exts = [(), ((192, 0, b'\x01\x02\x03'),), ((192, 1, b'\x01\x02\x03'), (193, 0, bytes(20)))]
    plens = [0, 1, 23, 24, 120, 255, 256, 700]
    mtus = [None, 60, 100, 130, 300, 1000]
    if tier == 'thorough':
        plens += [22, 25, 254, 257, 2000, 65535, 65536, 70000]
        mtus += [80, 90, 263, 264, 265, 66000]
    for crc in (0, 1, 2):
        for ext in exts:
            for plen in plens:
                for mtu in mtus:
                    for flags in (0, int(PrimaryBlock.Flag.NO_FRAGMENT)):
                        if flags and (crc != 2 or ext):
                            continue
                        check_case(plen, mtu, crc, flags, ext, fails, stats)
                        if len(samples) < 3 and mtu == 100 and plen == 700:
                            samples.append({'payload_len': plen, 'mtu': mtu, 'crc_type': crc, 'extension_blocks': len(ext)})
    # bundles of a source without a clock (creation time 0): forwarded and fragmented, the fragments must keep
    # the identity (time 0, sequence number) and stay within the MTU
    DTN_TIME[0] = 0
    for crc in (0, 2):
        for ext in exts:
            for mtu in (100, 130, 300):
                check_case(700, mtu, crc, 0, ext, fails, stats)
    DTN_TIME[0] = 5
    # MTUs right around the smallest one for which fragmentation is possible at all (the feasibility margin of
    # Fragment._create: non-payload size plus three CBOR heads): a partial fragment set must never leave
    sweep = 0
    for crc in (0, 1, 2):
        for ext in exts:
            for plen in ((30, 100, 300) if tier == 'quick' else (25, 30, 100, 257, 300, 70000)):
                h = hsize(plen)
                # non-payload size of the bundle as the agent transmits it (forwarding adds a Previous Node block)
                _o, whole, _c, _e = forward(plen, None, crc, 0, ext)
                if len(whole) != 1:
                    fails.append({'check': 'U-unchanged', 'case': {'payload_len': plen, 'mtu': None, 'crc_type': crc,
                                                                   'flags': 0, 'ext': [(t, f, len(d)) for t, f, d in ext]}})
                    continue
                base = len(whole[0]) - plen
                for mtu in range(max(1, base - h - 2), base + 3 * h + 4):
                    check_case(plen, mtu, crc, 0, ext, fails, stats)
                    sweep += 1
                # the same for a locally originated bundle (nothing is added to it before the transmit chain)
                _o, whole, _c, _e = originate(plen, None, crc, 0, ext)
                if len(whole) != 1:
                    continue
                base = len(whole[0]) - plen
                for mtu in range(max(1, base - h - 2), base + 3 * h + 4):
                    check_case(plen, mtu, crc, 0, ext, fails, stats, mode='originate')
                    sweep += 1
                # a bundle that was never encoded before (CRC values still unset when the transmit chain measures
                # it): MTUs right around its true encoded size, where "fits" and "must be fragmented" meet
                size = len(whole[0])
                for mtu in range(size - 12, size + 3):
                    check_case(plen, mtu, crc, 0, ext, fails, stats, mode='originate-fresh')
                    sweep += 1
    out = {'tool': 'grid enumeration on the real agent (receive, forward, fragment, fake convergence layer) and the real encoders',
           'bound': 'payload lengths %s x MTUs %s x CRC types 0/1/2 x 3 extension-block sets (replicate flag on/off); '
                    'length rule at the CBOR head boundaries 23/24, 255/256, 65535/65536; plus %d cases with every MTU '
                    'from (non-payload size - head - 2) to (non-payload size + 3 heads + 3)' % (plens, mtus, sweep),
           'evaluations': stats['evaluations'], 'distinct_nontrivial': stats['evaluations'],
           'rule': 'one case = one (payload length, MTU, CRC type, flags, extension set) forwarding run or one encoder '
                   'length comparison; all distinct by construction',
           'samples': samples, 'failures': fails[:20], 'exhaustive': False}
    print(json.dumps(out))
    return 1 if fails else 0


if __name__ == '__main__':
    sys.exit(main(sys.argv[1:]))
