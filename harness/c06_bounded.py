"""C06 -- BOUNDED stand-in, never counted as proved.

The proof of Fragment._reassemble (contracts/bp_apps.py) decides *when* a reassembled bundle is handed on (exactly
when the octet ranges received for one identity cover the whole payload, once, per identity) and leaves the octets
of the reassembly buffer and the copying of the first fragment's blocks (scapy packet copies, bytearray splicing)
unclaimed.  Here the real agent is driven end to end over an enumeration of small fragment sets:

  fragmentations of payloads of 1..300 octets into 1..4 pieces (uniform, uneven, overlapping), every arrival
  permutation, every single duplication, and every interleaving-preserving merge with the fragments of a second
  bundle that differs only in sequence number or only in source,

checking on what reaches the delivery end of the receive chain: nothing while an octet is missing, exactly one
bundle per identity once complete, payload equal to the original, extension blocks those of the first fragment,
not marked as a fragment, reassembly table empty afterwards.

Usage:  c06_bounded.py [--tier quick|thorough] [--replay FILE]   -> JSON on stdout, exit 0 ok / 1 failure.
"""
import itertools
import json
import logging
import os
import re
import sys

HERE = os.path.dirname(os.path.abspath(__file__))
sys.path.insert(0, HERE)
import env  # noqa: E402
env.setup()
logging.disable(logging.CRITICAL)

import dbus.bus  # noqa: E402
from gi.repository import GLib  # noqa: E402
from bp.encoding import (Bundle, PrimaryBlock, CanonicalBlock, Timestamp)  # noqa: E402
from bp.util import BundleContainer  # noqa: E402
from bp.config import Config, RxRouteItem  # noqa: E402
import bp.agent  # noqa: E402


def payload_of(n, salt):
    return bytes((i * 7 + 3 + salt * 31) % 251 for i in range(n))


def mk_fragment(src, seq, total, off, data, first_ext, crc=2):
    blocks = []
    if off == 0:
        num = 2
        for (typ, flags, d) in first_ext:
            blocks.append(CanonicalBlock(type_code=typ, block_num=num, block_flags=flags, crc_type=crc, btsd=d))
            num += 1
    else:
        num = 2
        for (typ, flags, d) in first_ext:
            if flags & 1:
                blocks.append(CanonicalBlock(type_code=typ, block_num=num, block_flags=flags, crc_type=crc, btsd=d))
            num += 1
    blocks.append(CanonicalBlock(type_code=1, block_num=1, crc_type=crc, btsd=data))
    b = Bundle(primary=PrimaryBlock(bundle_flags=int(PrimaryBlock.Flag.IS_FRAGMENT), destination='dtn://me/app', source=src,
                                    crc_type=crc, create_ts=Timestamp(dtntime=5, seqno=seq), lifetime=100000,
                                    fragment_offset=off, total_app_data_len=total), blocks=blocks)
    b.fill_fields()
    b.update_all_crc()
    return bytes(b)


def new_agent():
    cfg = Config()
    cfg.node_id = 'dtn://me/'
    cfg._bus_conn = dbus.bus.BusConnection()
    GLib.reset()
    ag = bp.agent.Agent(cfg)
    cfg.rx_route_table.append(RxRouteItem(eid_pattern=re.compile(r'.*'), action='deliver'))
    delivered = []

    orig_finish = ag._finish_bundle

    def finish(ctr):
        # Agent.recv_bundle ends the processing of a delivered bundle here
        if 'deliver' in ctr.actions:
            delivered.append(ctr)
        return orig_finish(ctr)
    ag._finish_bundle = finish
    return ag, delivered


EXT = ((192, 1, b'\x01\x02\x03'), (193, 0, bytes(9)))


def pieces_for(total):
    '''fragmentations as lists of (offset, length)'''
    out = []
    out.append([(0, total)])
    if total >= 2:
        h = total // 2
        out.append([(0, h), (h, total - h)])
        out.append([(0, 1), (1, total - 1)])
        out.append([(0, total - 1), (total - 1, 1)])
    if total >= 3:
        a, b = total // 3, 2 * total // 3
        out.append([(0, a), (a, b - a), (b, total - b)])
        # overlapping pieces
        out.append([(0, b), (a, total - a)])
        out.append([(0, a + 1), (a, b - a), (b - 1, total - b + 1)])
    if total >= 5:
        q = total // 4
        out.append([(0, q), (q, q), (2 * q, q), (3 * q, total - 3 * q)])
        out.append([(0, 2 * q), (q, 2 * q), (2 * q, total - 2 * q), (0, total)])
    return out


def run_sequence(seq, fails, stats, label):
    '''seq: list of (bundle key, total, off, length); bundle key = (src, seqno, salt)'''
    stats['evaluations'] += 1
    ag, delivered = new_agent()
    need = {}
    got = {}
    done = set()
    late = set()
    for (key, total, _o, _l) in seq:
        need.setdefault(key, total)
        got.setdefault(key, set())
    case = {'label': label, 'sequence': [[list(k), t, o, ln] for (k, t, o, ln) in seq]}
    for step, (key, total, off, ln) in enumerate(seq):
        src, seqno, salt = key
        data = payload_of(total, salt)
        raw = mk_fragment(src, seqno, total, off, data[off:off + ln], EXT)
        try:
            ag.recv_bundle(BundleContainer(Bundle(raw)))
            GLib.pump_idle(50)
        except Exception as e:  # noqa
            fails.append({'check': 'E-exception', 'case': case, 'step': step, 'got': '%s: %s' % (type(e).__name__, e)})
            return
        if key not in done:
            got[key] |= set(range(off, off + ln))
        else:
            # a redundant (overlapping) fragment after completion starts a new, never completed entry: allowed
            late.add(key)
        complete_now = {k for k in got if k not in done and len(got[k]) == need[k]}
        done |= complete_now
        # what has been delivered so far, per identity
        seen = {}
        for c in delivered:
            p = c.bundle.primary
            k = (p.source, p.create_ts.seqno)
            seen.setdefault(k, []).append(c)
        for k in got:
            n = len(seen.get((k[0], k[1]), []))
            want = 1 if k in done else 0
            if n != want:
                fails.append({'check': 'D-delivery-count', 'case': case, 'step': step, 'bundle': list(k), 'delivered': n,
                              'expected': want})
                return
    for k in got:
        if k not in done:
            continue
        c = [c for c in delivered if (c.bundle.primary.source, c.bundle.primary.create_ts.seqno) == (k[0], k[1])][0]
        b = c.bundle
        if b.primary.bundle_flags & PrimaryBlock.Flag.IS_FRAGMENT:
            fails.append({'check': 'F-still-a-fragment', 'case': case, 'bundle': list(k)})
            return
        pl = [x for x in b.blocks if x.type_code == 1]
        if len(pl) != 1 or bytes(pl[0].getfieldval('btsd')) != payload_of(need[k], k[2]):
            fails.append({'check': 'P-payload', 'case': case, 'bundle': list(k)})
            return
        types = sorted((x.type_code, bytes(x.getfieldval('btsd'))) for x in b.blocks if x.type_code != 1)
        want = sorted((t, d) for (t, _f, d) in EXT)
        if types != want:
            fails.append({'check': 'B-first-fragment-blocks', 'case': case, 'bundle': list(k), 'got': [t for t, _ in types]})
            return
    frag = ag._app['fragment']
    left = [k for k in frag._reassembly if any(k[0] == d[0] and k[2] == d[1] for d in done if d not in late)]
    # an entry may linger only for a bundle that is not complete (or that got a repeat after completion: excluded,
    # the agent's duplicate filter drops exact repeats before the reassembly step)
    if left:
        fails.append({'check': 'R-table-not-emptied', 'case': case, 'left': [str(k) for k in left]})


def merges(a, b, limit):
    '''order-preserving interleavings of two sequences (all of them up to `limit`)'''
    n, m = len(a), len(b)
    out = []
    for pos in itertools.combinations(range(n + m), n):
        s, ia, ib = [], 0, 0
        ps = set(pos)
        for i in range(n + m):
            if i in ps:
                s.append(a[ia])
                ia += 1
            else:
                s.append(b[ib])
                ib += 1
        out.append(s)
        if len(out) >= limit:
            break
    return out


def main(argv):
    tier = 'quick'
    if '--tier' in argv:
        tier = argv[argv.index('--tier') + 1]
    fails, stats = [], {'evaluations': 0}
    if '--replay' in argv:
        with open(argv[argv.index('--replay') + 1]) as f:
            one = json.load(f).get('failure') or {}
        print('replay of bounded check %s' % one.get('check'))
        c = one.get('case') or {}
        seq = [((k[0], k[1], k[2]), t, o, ln) for (k, t, o, ln) in c.get('sequence', [])]
        run_sequence(seq, fails, stats, c.get('label'))
        print('  observed: %s' % json.dumps(fails)[:1500])
        print('REPRODUCED' if fails else 'NOT-REPRODUCED')
        return 1 if fails else 0
    totals = [1, 2, 5, 24, 100] if tier == 'quick' else [1, 2, 3, 5, 23, 24, 25, 100, 256, 300]
    A = ('dtn://s/', 1, 0)
    samples = []
    for total in totals:
        for pieces in pieces_for(total):
            perms = list(itertools.permutations(pieces))
            for perm in perms:
                seq = [(A, total, o, ln) for (o, ln) in perm]
                run_sequence(seq, fails, stats, 'permutation')
            # every single duplication (the same fragment twice, anywhere later)
            if len(pieces) <= 3:
                for perm in perms:
                    for i in range(len(perm)):
                        for j in range(i + 1, len(perm) + 1):
                            s = list(perm)
                            s.insert(j, perm[i])
                            run_sequence([(A, total, o, ln) for (o, ln) in s], fails, stats, 'duplicate')
            # interleaved with a second bundle differing in sequence number only / in source only
            if 2 <= len(pieces) <= 3 and total <= 24:
                for other in (('dtn://s/', 2, 1), ('dtn://t/', 1, 2)):
                    a = [(A, total, o, ln) for (o, ln) in pieces]
                    for operm in itertools.permutations(pieces):
                        b = [(other, total, o, ln) for (o, ln) in operm]
                        for s in merges(a, b, 40 if tier == 'quick' else 400):
                            run_sequence(s, fails, stats, 'interleaved')
            # a stray fragment of the same identity announcing another total length, arriving once the entry exists: it is
            # a fragment -- whatever the reassembly makes of it, it is never delivered as a bundle, and the bundle is
            # still delivered exactly once when its octets are there (the stray's octets agree with the original's)
            if 2 <= len(pieces) <= 3 and total >= 5:
                for perm in perms:
                    for pos in range(1, len(perm) + 1):
                        for (t2, so, sl) in ((total - 1, 1, 2), (total + 3, 0, 1), (total - 2, total - 4, 2)):
                            s2 = [(A, total, o, ln) for (o, ln) in perm]
                            s2.insert(pos, (A, t2, so, sl))
                            run_sequence(s2, fails, stats, 'stray-total-length')
            if len(samples) < 3 and len(pieces) == 3:
                samples.append({'total': total, 'pieces': pieces})
        if len(fails) > 20:
            break
    out = {'tool': 'enumeration on the real agent (receive chain with the real Fragment application, virtual GLib loop)',
           'bound': 'payload lengths %s; fragmentations into 1..4 pieces (uniform, uneven, overlapping); all arrival '
                    'permutations; all single duplications (sets of up to 3); order-preserving merges with a second '
                    'bundle differing in sequence number or in source (payloads up to 24 octets); one stray fragment of the same '
                    'identity announcing another total length at every later position (sets of 2..3)' % totals,
           'evaluations': stats['evaluations'], 'distinct_nontrivial': stats['evaluations'],
           'rule': 'one case = one arrival sequence fed to a fresh agent; distinct by construction',
           'samples': samples, 'failures': fails[:20], 'exhaustive': False}
    print(json.dumps(out))
    return 1 if fails else 0


if __name__ == '__main__':
    sys.exit(main(sys.argv[1:]))
