#!/usr/bin/env python3
'''C09, octets still on their way when the terminating session closes (the defect repaired by the repository commit
"fix: a terminating session is not idle while octets wait for the socket"; before that the recorded known finding
closes_only_when_drained).

Two real tcpcl.session.ContactHandler objects over an in-memory socket pair (scaffolding of seeded/C09_d/demo_C09_d.py).
B's socket accepts only a few octets per send() call, and the harness decides when B's transmit callback runs (a socket
that is not writable for a while):

  1. A sends a one-segment bundle; B has asked to terminate (its SESS_TERM is out);
  2. B receives the segment and answers with the final XFER_ACK: the ACK leaves the message buffer, two octets reach
     the socket, the rest waits in the connection buffer;
  3. A's SESS_TERM reply arrives at B -> ContactHandler.recv_sess_term -> _check_sess_term.

Nothing of the property may be lost at step 3: the connection must stay open until the ACK is out; afterwards (socket
writable again) A must see its transfer acknowledged and both ends must close.

Usage: c09_drain.py [--tier quick|thorough] [--replay FILE]  -> one JSON line on stdout; exit 0 / 1.
'''
import importlib.util
import json
import os
import sys

HERE = os.path.dirname(os.path.abspath(__file__))
ROOT = os.path.dirname(HERE)
SRC = os.environ.get('PYVC_REPO_SRC') or '/repo/src'
sys.path[:0] = [os.path.join(HERE, 'stubs'), SRC]

spec = importlib.util.spec_from_file_location('c09_scaffold', os.path.join(ROOT, 'seeded', 'C09_d', 'demo_C09_d.py'))
S = importlib.util.module_from_spec(spec)
spec.loader.exec_module(S)

from gi.repository import GLib  # noqa: E402
from tcpcl import messages  # noqa: E402


def run_idle(hdl_filter=None):
    for sid in [i for (i, s) in list(GLib.SOURCES.items()) if s['kind'] == 'idle']:
        if sid in GLib.SOURCES:
            GLib.run_source(sid)


def scenario(budget, payload_len):
    '''-> list of problems'''
    pair = S.Pair()
    a, b = pair.hdl_a, pair.hdl_b
    sa, sb = pair.sock_a, pair.sock_b
    if not pair.run_until(lambda: a._in_sess and b._in_sess):
        return ['session was not established']
    for _ in range(3):
        pair.step()
    bundle = bytes((i * 7 + 3) % 251 for i in range(payload_len))
    tid = a.send_bundle_data(bundle)
    # A's segment(s) reach B's inbox; B does not read yet
    for _ in range(10):
        run_idle()
        if a._tx_tmp is None and a._tx_pend_ack and sb.inbox and not a._Connection__tx_buf and not a.send_buffer_used():
            break
    if not sb.inbox:
        return ['setup: the segment did not leave A']
    b.terminate()
    run_idle()                        # B's SESS_TERM is out (socket still unrestricted)
    if not S.msgs_of(S.decode_stream(sb.sent), messages.SessionTerm):
        return ['setup: B did not send its SESS_TERM']
    # from now on B's socket takes `budget` octets per send() call
    real_send = sb.send

    def slow_send(data):
        return real_send(bytes(data)[:budget])
    sb.send = slow_send
    sent_before = len(sb.sent)
    while sb.inbox:
        b._avail_rx_notls()           # B reads the segment, queues the final XFER_ACK
    b._avail_tx_notls()               # one transmit round: the ACK moves to the connection buffer, `budget` octets go out
    pending = b._Connection__tx_buf
    if not pending:
        return ['setup: nothing left waiting for the socket (budget %d)' % budget]
    # A reads B's SESS_TERM (and the first octets of the ACK) and replies
    while sa.inbox:
        a._avail_rx_notls()
    for _ in range(3):
        for sid in [i for (i, s) in list(GLib.SOURCES.items()) if s['kind'] == 'idle']:
            src = GLib.SOURCES.get(sid)
            # (only A's callbacks: B's socket is "not writable")
            if src is not None and getattr(src['func'], '__self__', None) is a:
                GLib.run_source(sid)
    if not sb.inbox:
        return ['setup: A did not reply to the SESS_TERM']
    while sb.inbox and not sb.closed:
        b._avail_rx_notls()           # B reads the reply -> recv_sess_term -> _check_sess_term
    probs = []
    if sb.closed:
        probs.append('B closed the connection with %d octet(s) of its final XFER_ACK still waiting for the socket '
                     '(%d of them had been written)' % (len(pending), len(sb.sent) - sent_before))
    # the socket becomes writable again: everything must finish by itself
    sb.send = real_send
    pair.run_until(lambda: sa.closed and sb.closed)
    fin_tx = pair.signals(a, 'send_bundle_finished')
    if fin_tx != [(str(tid), len(bundle), 'success')]:
        probs.append("the sender's transfer was never acknowledged: send_bundle_finished signals %r" % (fin_tx,))
    acks = S.msgs_of([p for p in S.decode_stream(sb.sent)], messages.TransferAck)
    if not acks or acks[-1].payload.length != len(bundle):
        probs.append('no complete final XFER_ACK among the octets B handed to its socket')
    if not (sa.closed and sb.closed):
        probs.append('not both ends closed afterwards (A closed %s, B closed %s)' % (sa.closed, sb.closed))
    return probs + pair.errors


def main(argv):
    tier = argv[argv.index('--tier') + 1] if '--tier' in argv else 'quick'
    if '--replay' in argv:
        with open(argv[argv.index('--replay') + 1]) as f:
            one = json.load(f).get('failure') or {}
        c = one.get('case') or {}
        print('replay of bounded check %s: %s' % (one.get('check'), json.dumps(c)))
        probs = scenario(int(c.get('octets_per_send', 2)), int(c.get('bundle_octets', 40)))
        for p in probs:
            print('  observed: %s' % p)
        print('REPRODUCED' if probs else 'NOT-REPRODUCED')
        return 1 if probs else 0
    budgets = (1, 2, 5) if tier == 'quick' else (1, 2, 3, 5, 8, 11)
    sizes = (40,) if tier == 'quick' else (1, 40, 90)
    fails, n = [], 0
    for budget in budgets:
        for size in sizes:
            n += 1
            probs = scenario(budget, size)
            if probs:
                fails.append({'check': 'T-closed-with-octets-pending' if any('still waiting' in p for p in probs)
                              else 'T-termination-incomplete', 'case': {'octets_per_send': budget, 'bundle_octets': size},
                              'got': probs})
    out = {'tool': 'scenario on two real ContactHandler objects over an in-memory socket pair with a slow socket',
           'bound': 'B terminates, receives a one-segment bundle, its final XFER_ACK is partly written (1..11 octets per '
                    'send) when the peer\'s SESS_TERM reply arrives: the connection stays open until the ACK is out, the '
                    'transfer is acknowledged, both ends close',
           'evaluations': n, 'distinct_nontrivial': n, 'rule': 'one case = socket budget x bundle length', 'samples': [],
           'failures': fails}
    print(json.dumps(out))
    return 1 if fails else 0


if __name__ == '__main__':
    sys.exit(main(sys.argv[1:]))
