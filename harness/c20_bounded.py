"""C20 -- BOUNDED stand-in, never counted as proved.

The proof part (contracts/btpu_agent.py) takes the scapy build / dissection of btpu.messages as an assumed
contract (encoding-length rule; MessageSet(data) yields some list of messages) and leaves the octets of the
reassembled bundle unclaimed.  Here, on the real classes and the real agent:

  K   codec: message sets of the kinds the agent builds (bundle PDU, transfer segment / end with 0..3 length hints,
      definite padding, trailing zero padding) decode to the same messages, the declared length of every message and
      hint equals its actual length, and decode-then-encode reproduces the frame
  L   the encoding-length rule of the proof: len(MessageHead(hints=H) / Transfer(...) / Raw(d)) =
      len(MessageHead(hints=H)) + 8 + len(d); len(MessageHead()) = 4
  S   Agent._send_transfer over bundle lengths x MTUs: one bundle-PDU message within the MTU, or segments each
      within the MTU, TransferSeg ... TransferEnd, indices 0..n-1, one transfer number, data concatenated by index
      equal to the bundle; an MTU too small for any segment data is refused (ValueError), nothing produced
  R   a receiving agent fed those segments through Agent._recv_msg in every order (all permutations up to 5,
      seeded shuffles above), with repeats, interleaved with a second transfer number and a second channel:
      nothing queued while an index is missing, exactly that bundle once all are there
  M   several messages in one frame and trailing padding are handled per message

Usage:  c20_bounded.py [--tier quick|thorough] [--replay FILE]   -> JSON on stdout, exit 0 ok / 1 failure.
"""
import itertools
import json
import logging
import os
import random
import signal
import sys
from io import BytesIO

HERE = os.path.dirname(os.path.abspath(__file__))
sys.path.insert(0, HERE)
import env  # noqa: E402
env.setup()
logging.disable(logging.CRITICAL)

import dbus.bus  # noqa: E402
from gi.repository import GLib  # noqa: E402
from scapy.packet import Raw  # noqa: E402
import btpu.agent as ba  # noqa: E402
from btpu.config import Config  # noqa: E402
from btpu.messages import (MessageSet, MessageHead, HintHead, BundlePdu, TransferSeg, TransferEnd,  # noqa: E402
                           DefinitePadding)


def payload_of(n, salt=0):
    return bytes((i * 13 + 7 + salt * 29) % 251 + 1 for i in range(n))


def new_agent(mtu=None):
    cfg = Config()
    try:
        cfg._bus_conn = dbus.bus.BusConnection()
    except Exception:  # noqa
        pass
    cfg.mtu_default = mtu
    GLib.reset()
    return ba.Agent(cfg)


def hints_of(k, total):
    return [HintHead(hint_type=i) / Raw(total.to_bytes(4, 'big')[:4 - (i % 2)]) for i in range(k)]


def describe(msg):
    '''(kind, fields, data) of a decoded message'''
    p = msg.payload
    hints = [(h.hint_type, h.h_flag, h.length, bytes(h.payload)) for h in msg.hints]
    if isinstance(p, BundlePdu):
        return ('pdu', hints, bytes(p.load))
    if isinstance(p, (TransferSeg, TransferEnd)):
        d = bytes(p.payload.load) if isinstance(p.payload, Raw) else b''
        return ('end' if isinstance(p, TransferEnd) else 'seg', hints, p.xfer_num, p.seg_idx, d)
    if isinstance(p, DefinitePadding):
        return ('pad', hints, bytes(p.load))
    return ('other', hints, bytes(p))


def check_codec(fails, stats):
    for nh in (0, 1, 2, 3):
        for dlen in (1, 2, 23, 24, 255, 256, 1000):
            d = payload_of(dlen)
            builds = [
                ('pdu', MessageHead(hints=hints_of(nh, dlen)) / BundlePdu(d)),
                ('seg', MessageHead(hints=hints_of(nh, dlen)) / TransferSeg(xfer_num=5, seg_idx=3) / Raw(d)),
                ('end', MessageHead(hints=hints_of(nh, dlen)) / TransferEnd(xfer_num=2 ** 32 - 1, seg_idx=0) / Raw(d)),
                ('pad', MessageHead(hints=hints_of(nh, dlen)) / DefinitePadding(bytes(dlen))),
            ]
            for kind, pkt in builds:
                stats['evaluations'] += 1
                case = {'codec': kind, 'hints': nh, 'data_len': dlen}
                try:
                    raw = bytes(pkt)
                except Exception as e:  # noqa
                    fails.append({'check': 'K-encode', 'case': case, 'got': '%s: %s' % (type(e).__name__, e)})
                    continue
                for tail in (b'', bytes(5)):
                    try:
                        ms = MessageSet(raw + tail)
                    except Exception as e:  # noqa
                        fails.append({'check': 'K-decode', 'case': case, 'got': str(e)})
                        break
                    if len(ms.msgs) != 1:
                        fails.append({'check': 'K-message-count', 'case': case, 'got': len(ms.msgs)})
                        break
                    m = ms.msgs[0]
                    try:
                        got = describe(m)
                    except Exception as e:  # noqa
                        fails.append({'check': 'K-roundtrip', 'case': case, 'got': '%s: %s' % (type(e).__name__, e)})
                        break
                    if got[0] != kind or got[-1] != (bytes(dlen) if kind == 'pad' else d) or len(got[1]) != nh:
                        fails.append({'check': 'K-roundtrip', 'case': case, 'got': str(got)[:200]})
                        break
                    hints_len = sum(2 + len(h[3]) for h in got[1])
                    if any(h[2] != len(h[3]) for h in got[1]) or \
                            any(h[1] != (1 if i < nh - 1 else 0) for i, h in enumerate(got[1])):
                        fails.append({'check': 'K-hint-length-or-flag', 'case': case, 'got': str(got[1])[:200]})
                        break
                    body = len(raw) - 4
                    if m.length != body or (m.flags & 0x8 != 0) != (nh > 0) or body != hints_len + \
                            (dlen if kind in ('pdu', 'pad') else 8 + dlen):
                        fails.append({'check': 'K-declared-length', 'case': case, 'declared': m.length, 'actual': body})
                        break
                    if bytes(m) != raw:
                        fails.append({'check': 'K-reencode', 'case': case})
                        break
                # L: the proof's length rule
                head = MessageHead(hints=hints_of(nh, dlen))
                if kind in ('seg', 'end') and len(raw) != len(head) + 8 + dlen:
                    fails.append({'check': 'L-length-rule', 'case': case, 'got': len(raw), 'head': len(head)})
                if nh == 0 and len(MessageHead()) != 4:
                    fails.append({'check': 'L-length-rule', 'case': case, 'got': len(MessageHead())})


def segments_of(data, mtu, tid):
    ag = new_agent(mtu)
    ag._tx_id = tid
    item = ba.BundleItem(address='02:00:00:00:00:01', file=BytesIO(data))
    ag._add_tx_item(item)
    out = []
    for m in itertools.islice(ag._send_transfer(item), 4 * len(data) + 8):
        out.append(bytes(m))
    return out


def check_send(n, mtu, tid, fails, stats):
    stats['evaluations'] += 1
    case = {'length': n, 'mtu': mtu, 'tid': tid}
    data = payload_of(n)
    tiny = mtu is not None and n >= mtu - 4 and mtu <= 18

    def too_long(_s, _f):
        raise TimeoutError('segmentation did not finish within 60 s')
    signal.signal(signal.SIGALRM, too_long)
    signal.alarm(60)
    try:
        segs = segments_of(data, mtu, tid)
    except ValueError as e:
        if not tiny:
            fails.append({'check': 'S-refused-although-possible', 'case': case, 'got': str(e)})
        return None
    except Exception as e:  # noqa
        fails.append({'check': 'S-exception', 'case': case, 'got': '%s: %s' % (type(e).__name__, e)})
        return None
    finally:
        signal.alarm(0)
    if tiny:
        fails.append({'check': 'S-tiny-mtu-not-refused', 'case': case, 'got': [len(x) for x in segs][:8]})
        return None
    descr = []
    for k, s in enumerate(segs):
        if mtu is not None and len(s) > mtu:
            fails.append({'check': 'S-over-mtu', 'case': case, 'message': k, 'got': len(s)})
            return None
        ms = MessageSet(s)
        if len(ms.msgs) != 1:
            fails.append({'check': 'S-not-one-message', 'case': case, 'message': k})
            return None
        descr.append(describe(ms.msgs[0]))
    if len(descr) == 1 and descr[0][0] == 'pdu':
        if descr[0][-1] != data:
            fails.append({'check': 'S-whole', 'case': case})
            return None
        return data, segs
    kinds = [d[0] for d in descr]
    if kinds != ['seg'] * (len(descr) - 1) + ['end'] or [d[3] for d in descr] != list(range(len(descr))) or \
            any(d[2] != tid for d in descr) or any(not d[4] for d in descr) or b''.join(d[4] for d in descr) != data:
        fails.append({'check': 'S-segments', 'case': case, 'got': [(d[0], d[3], len(d[-1])) for d in descr][:8]})
        return None
    return data, segs


def queued(ag):
    out = []
    for k in sorted(ag._rx_queue):
        f = ag._rx_queue[k].file
        f.seek(0)
        out.append(f.read())
    return out


def chan(i):
    return ba.EthernetChannel(local_if='eth0', peer_address=ba.macaddress.EUI48('02:00:00:00:00:%02x' % i),
                              local_address=ba.macaddress.EUI48('02:00:00:00:00:ff'))


def feed(order, fails, stats, label, case):
    stats['evaluations'] += 1
    ag = new_agent()
    need, got, done, want = {}, {}, [], {}
    for (ch, frame, key, data, idx, nseg) in order:
        want[key] = data
        need[key] = nseg
        got.setdefault(key, set())
    for step, (ch, frame, key, data, idx, nseg) in enumerate(order):
        try:
            ag._recv_msg(None, frame, chan(ch))
        except Exception as e:  # noqa
            fails.append({'check': 'R-exception', 'label': label, 'case': case, 'step': step, 'got': '%s: %s' % (type(e).__name__, e)})
            return
        got[key].add(idx)
        if len(got[key]) == need[key]:
            done.append(key)
            got[key] = set()
        q = queued(ag)
        exp = [want[k] for k in done]
        if sorted(q) != sorted(exp):
            fails.append({'check': 'R-queue', 'label': label, 'case': case, 'step': step, 'queued': [len(x) for x in q],
                          'expected': [len(x) for x in exp]})
            return


def run_receive(data, segs, case, fails, stats, rnd, only=None):
    key = (1, case['tid'])
    base = [(1, s, key, data, i, len(segs)) for i, s in enumerate(segs)]
    if len(segs) <= 5:
        orders = [('permutation', list(p)) for p in itertools.permutations(base)]
    else:
        orders = [('in-order', list(base)), ('reversed', list(reversed(base)))]
        for _ in range(3):
            o = list(base)
            rnd.shuffle(o)
            orders.append(('shuffled', o))
    rep = []
    for x in base:
        rep.extend([x, x])
    orders.append(('each-twice', rep))
    other = bytes((b + 1) % 256 for b in data)
    for (och, otid, name) in ((2, case['tid'], 'interleaved-channels'), (1, case['tid'] + 1, 'interleaved-numbers')):
        try:
            osegs = segments_of(other, case['mtu'], otid)
        except Exception:  # noqa
            continue
        o2 = [(och, s, (och, otid), other, i, len(osegs)) for i, s in enumerate(osegs)]
        mixed = []
        for a, b in itertools.zip_longest(base, reversed(o2)):
            if a:
                mixed.append(a)
            if b:
                mixed.append(b)
        orders.append((name, mixed))
    for label, o in orders:
        if only and label != only:
            continue
        n0 = len(fails)
        feed(o, fails, stats, label, case)
        if len(fails) > n0:
            return


def check_composed(fails, stats):
    b1, b2 = payload_of(40, 1), payload_of(17, 2)
    m1 = bytes(MessageHead() / BundlePdu(b1))
    m2 = bytes(MessageHead() / BundlePdu(b2))
    s0 = bytes(MessageHead() / TransferSeg(xfer_num=9, seg_idx=0) / Raw(b'ab'))
    s1 = bytes(MessageHead() / TransferEnd(xfer_num=9, seg_idx=1) / Raw(b'cd'))
    pad = bytes(MessageHead() / DefinitePadding(bytes(6)))
    cases = [
        ('two-pdus', m1 + m2, [b1, b2]),
        ('pdu-then-zero-padding', m1 + bytes(9), [b1]),
        ('definite-padding-then-pdu', pad + m2, [b2]),
        ('segment-pdu-end', s0 + m2 + s1, [b2, b'abcd']),
        ('end-segment-padding', s1 + s0 + bytes(3), [b'abcd']),
    ]
    for name, frame, want in cases:
        stats['evaluations'] += 1
        ag = new_agent()
        try:
            ag._recv_msg(None, frame, chan(1))
        except Exception as e:  # noqa
            fails.append({'check': 'M-exception', 'case': {'composed': name}, 'got': '%s: %s' % (type(e).__name__, e)})
            continue
        if queued(ag) != want:
            fails.append({'check': 'M-per-message', 'case': {'composed': name}, 'queued': [len(x) for x in queued(ag)],
                          'expected': [len(x) for x in want]})


def main(argv):
    tier = 'quick'
    if '--tier' in argv:
        tier = argv[argv.index('--tier') + 1]
    seed = int(os.environ.get('VERIF_SEED', '0') or 0)
    rnd = random.Random(seed)
    fails, stats = [], {'evaluations': 0}
    if '--replay' in argv:
        with open(argv[argv.index('--replay') + 1]) as f:
            one = json.load(f).get('failure') or {}
        print('replay of bounded check %s' % one.get('check'))
        c = one.get('case') or {}
        if 'codec' in c or str(one.get('check', '')).startswith(('K', 'L')):
            check_codec(fails, stats)
        elif 'composed' in c:
            check_composed(fails, stats)
        elif 'length' in c:
            r = check_send(c['length'], c['mtu'], c['tid'], fails, stats)
            if r is not None and one.get('label'):
                run_receive(r[0], r[1], c, fails, stats, rnd, only=one.get('label'))
        print('  observed: %s' % json.dumps(fails)[:1500])
        print('REPRODUCED' if fails else 'NOT-REPRODUCED')
        return 1 if fails else 0
    check_codec(fails, stats)
    lengths = [1, 5, 14, 15, 16, 30, 100, 255, 256, 300, 1000]
    mtus = [None, 10, 17, 18, 19, 20, 21, 24, 30, 40, 64, 100, 259, 260, 261, 304, 1200]
    if tier == 'thorough':
        lengths += [2, 13, 17, 254, 257, 1500, 9000, 70000]
        mtus += [22, 23, 25, 26, 50, 99, 101, 1500, 9000]
    samples = []
    for n in lengths:
        for mtu in mtus:
            for tid in (0, 7):
                if mtu is not None and mtu > 18 and n // (mtu - 18) > 1500:
                    continue      # (thousands of one-octet segments: scapy needs minutes; nothing new is exercised)
                r = check_send(n, mtu, tid, fails, stats)
                if r is None or len(r[1]) < 2 or tid != 7:
                    continue
                if len(r[1]) <= (600 if tier == 'thorough' else 40):
                    run_receive(r[0], r[1], {'length': n, 'mtu': mtu, 'tid': tid}, fails, stats, rnd)
                    if len(samples) < 3:
                        samples.append({'length': n, 'mtu': mtu, 'segments': len(r[1])})
    check_composed(fails, stats)
    out = {'tool': 'enumeration on the real btpu.agent.Agent (_send_transfer, _recv_msg) and the real scapy message classes',
           'bound': 'codec: 4 message kinds x 0..3 hints x data lengths 1..1000 (+ trailing padding); bundle lengths %s x '
                    'MTUs %s x transfer numbers 0/7; arrival orders: all permutations up to 5 segments, reversed / seeded '
                    'shuffles above; repeats; interleaving with a second channel and a second transfer number; composed '
                    'frames; seed %d' % (lengths, mtus, seed),
           'evaluations': stats['evaluations'], 'distinct_nontrivial': stats['evaluations'],
           'rule': 'one case = one codec round trip, one (length, MTU, number) segmentation, or one arrival sequence fed to '
                   'a fresh agent',
           'samples': samples, 'failures': fails[:40], 'exhaustive': False}
    print(json.dumps(out))
    return 1 if fails else 0


if __name__ == '__main__':
    sys.exit(main(sys.argv[1:]))
