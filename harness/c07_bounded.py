"""C07 (b) -- BOUNDED stand-in, never counted as proved.

The proof of the framing loop (contracts/tcpcl_raw.py) is relative to an assumed contract P of
scapy's dissector applied to the declarative message classes (contracts/tcpcl_models4.py).  scapy is
outside the reach of the VC generator, so P is checked here on the real classes over a stated,
finite corpus:

  P1  a complete message decodes and re-encodes to exactly its own octets (a non-empty prefix of the buffer)
  P2  every proper prefix of a message raises formats.VerifyError ("not complete yet") ...
  P4  ... and nothing else is ever raised
  P3  octets following a complete message do not change the result (prefix stability)
  X   independent RFC 9174 encoder/decoder (struct based, below) agrees with the scapy classes both ways
  S   recv_raw of the real Messenger acts on the same message sequence for every way of cutting short
      streams into reads (all 2^(n-1) cuts for streams up to MAX_EXH octets, every single and double
      cut plus octet-by-octet for the longer ones)

Bound: the corpus below (message types x parameter values) and the stream lengths stated in the
result.  Usage:  c07_bounded.py [--replay FILE]   -> JSON on stdout, exit 0 ok / 1 failure found.
"""
import itertools
import json
import struct
import sys
import os

HERE = os.path.dirname(os.path.abspath(__file__))
sys.path.insert(0, HERE)
import tcpcl_env as E  # noqa: E402
from tcpcl import contact, messages, formats, extend  # noqa: E402

U64 = 2 ** 64 - 1
MAX_EXH = 13          # streams up to this many octets: every one of the 2^(n-1) cuts


# ---------------------------------------------------------------------------------------------
# independent RFC 9174 codec (no scapy): message -> dict of fields
def enc_ext(items):
    out = b''
    for (flags, typ, data) in items:
        out += struct.pack('!BHH', flags, typ, len(data)) + data
    return out


def ref_encode(m):
    k = m['kind']
    if k == 'contact':
        return b'dtn!' + bytes([4, m['flags']])
    if k == 'sess_init':
        nid = m['nodeid'].encode('utf-8')
        ext = enc_ext(m['ext'])
        return (bytes([7]) + struct.pack('!HQQH', m['keepalive'], m['segment_mru'], m['transfer_mru'], len(nid)) + nid
                + struct.pack('!I', len(ext)) + ext)
    if k == 'sess_term':
        return bytes([5, m['flags'], m['reason']])
    if k == 'keepalive':
        return bytes([4])
    if k == 'reject':
        return bytes([6, m['rej_msg_id'], m['reason']])
    if k == 'segment':
        out = bytes([1, m['flags']]) + struct.pack('!Q', m['transfer_id'])
        if m['flags'] & 2:
            ext = enc_ext(m['ext'])
            out += struct.pack('!I', len(ext)) + ext
        return out + struct.pack('!Q', len(m['data'])) + m['data']
    if k == 'ack':
        return bytes([2, m['flags']]) + struct.pack('!QQ', m['transfer_id'], m['length'])
    if k == 'refuse':
        return bytes([3, m['reason']]) + struct.pack('!Q', m['transfer_id'])
    raise ValueError(k)


class Short(Exception):
    pass


def _take(buf, pos, n):
    if pos + n > len(buf):
        raise Short()
    return buf[pos:pos + n], pos + n


def dec_ext(buf):
    items, pos = [], 0
    while pos < len(buf):
        h, pos = _take(buf, pos, 5)
        flags, typ, ln = struct.unpack('!BHH', h)
        data, pos = _take(buf, pos, ln)
        items.append((flags, typ, data))
    return items


def ref_decode(buf, in_conn):
    '''-> (fields, length) of the first message, Short if incomplete'''
    if not in_conn:
        h, pos = _take(buf, 0, 6)
        return {'kind': 'contact', 'magic': h[:4], 'version': h[4], 'flags': h[5]}, 6
    t, pos = _take(buf, 0, 1)
    t = t[0]
    if t == 7:
        h, pos = _take(buf, pos, 20)
        ka, smru, tmru, nl = struct.unpack('!HQQH', h)
        nid, pos = _take(buf, pos, nl)
        h, pos = _take(buf, pos, 4)
        el = struct.unpack('!I', h)[0]
        ext, pos = _take(buf, pos, el)
        return {'kind': 'sess_init', 'keepalive': ka, 'segment_mru': smru, 'transfer_mru': tmru,
                'nodeid': nid.decode('utf-8'), 'ext': dec_ext(ext)}, pos
    if t == 5:
        h, pos = _take(buf, pos, 2)
        return {'kind': 'sess_term', 'flags': h[0], 'reason': h[1]}, pos
    if t == 4:
        return {'kind': 'keepalive'}, pos
    if t == 6:
        h, pos = _take(buf, pos, 2)
        return {'kind': 'reject', 'rej_msg_id': h[0], 'reason': h[1]}, pos
    if t == 1:
        h, pos = _take(buf, pos, 9)
        flags, xid = h[0], struct.unpack('!Q', h[1:])[0]
        ext = []
        if flags & 2:
            h, pos = _take(buf, pos, 4)
            el = struct.unpack('!I', h)[0]
            e, pos = _take(buf, pos, el)
            ext = dec_ext(e)
        h, pos = _take(buf, pos, 8)
        ln = struct.unpack('!Q', h)[0]
        data, pos = _take(buf, pos, ln)
        return {'kind': 'segment', 'flags': flags, 'transfer_id': xid, 'ext': ext, 'data': data}, pos
    if t == 2:
        h, pos = _take(buf, pos, 17)
        return {'kind': 'ack', 'flags': h[0], 'transfer_id': struct.unpack('!Q', h[1:9])[0],
                'length': struct.unpack('!Q', h[9:])[0]}, pos
    if t == 3:
        h, pos = _take(buf, pos, 9)
        return {'kind': 'refuse', 'reason': h[0], 'transfer_id': struct.unpack('!Q', h[1:])[0]}, pos
    return {'kind': 'unknown', 'msg_id': t}, len(buf)


# ---------------------------------------------------------------------------------------------
# the same messages through the scapy classes of the repository
def scapy_build(m):
    k = m['kind']
    if k == 'contact':
        return contact.Head() / contact.ContactV4(flags=m['flags'])
    H = messages.MessageHead()
    if k == 'sess_init':
        items = [messages.SessionExtendHeader(flags=f, type=t) / _raw(d) for (f, t, d) in m['ext']]
        return H / messages.SessionInit(keepalive=m['keepalive'], segment_mru=m['segment_mru'],
                                        transfer_mru=m['transfer_mru'], nodeid_data=m['nodeid'], ext_items=items)
    if k == 'sess_term':
        return H / messages.SessionTerm(flags=m['flags'], reason=m['reason'])
    if k == 'keepalive':
        return H / messages.Keepalive()
    if k == 'reject':
        return H / messages.RejectMsg(rej_msg_id=m['rej_msg_id'], reason=m['reason'])
    if k == 'segment':
        kw = dict(flags=m['flags'], transfer_id=m['transfer_id'], data=m['data'])
        if m['flags'] & 2:
            kw['ext_items'] = [messages.TransferExtendHeader(flags=f, type=t) / _raw(d) for (f, t, d) in m['ext']]
        return H / messages.TransferSegment(**kw)
    if k == 'ack':
        return H / messages.TransferAck(flags=m['flags'], transfer_id=m['transfer_id'], length=m['length'])
    if k == 'refuse':
        return H / messages.TransferRefuse(reason=m['reason'], transfer_id=m['transfer_id'])
    raise ValueError(k)


def _raw(d):
    from scapy.packet import Raw
    return Raw(load=d)


def _ext_fields(items):
    out = []
    for it in items or []:
        if not isinstance(it, messages.TlvHead):
            out.append(('undecoded', bytes(it)))
            continue
        out.append((int(it.flags), int(it.type), bytes(it.payload)))
    return out


def scapy_fields(pkt, in_conn):
    if not in_conn:
        d = {'kind': 'contact', 'magic': bytes(pkt.magic), 'version': pkt.version}
        d['flags'] = int(pkt.payload.flags) if isinstance(pkt.payload, contact.ContactV4) else None
        return d
    p = pkt.payload
    if isinstance(p, messages.SessionInit):
        nid = p.nodeid_data
        nid = nid.decode('utf-8') if isinstance(nid, bytes) else nid
        return {'kind': 'sess_init', 'keepalive': p.keepalive, 'segment_mru': p.segment_mru, 'transfer_mru': p.transfer_mru,
                'nodeid': nid, 'ext': _ext_fields(p.ext_items)}
    if isinstance(p, messages.SessionTerm):
        return {'kind': 'sess_term', 'flags': int(p.flags), 'reason': int(p.reason)}
    if isinstance(p, messages.Keepalive):
        return {'kind': 'keepalive'}
    if isinstance(p, messages.RejectMsg):
        return {'kind': 'reject', 'rej_msg_id': int(p.rej_msg_id), 'reason': int(p.reason)}
    if isinstance(p, messages.TransferSegment):
        return {'kind': 'segment', 'flags': int(p.flags), 'transfer_id': p.transfer_id,
                'ext': _ext_fields(p.ext_items) if int(p.flags) & 2 else [], 'data': bytes(p.getfieldval('data'))}
    if isinstance(p, messages.TransferAck):
        return {'kind': 'ack', 'flags': int(p.flags), 'transfer_id': p.transfer_id, 'length': p.length}
    if isinstance(p, messages.TransferRefuse):
        return {'kind': 'refuse', 'reason': int(p.reason), 'transfer_id': p.transfer_id}
    return {'kind': 'unknown', 'msg_id': pkt.msg_id}


# ---------------------------------------------------------------------------------------------
def corpus():
    out = []
    for fl in (0, 1, 0x80, 0xff):
        out.append({'kind': 'contact', 'flags': fl})
    exts = [[], [(0, 0xBEEF, b'')], [(1, 1, b'\x00\x01'), (0, 0xFFFF, b'xyz')]]
    for ka, smru, tmru, nid, ext in itertools.product((0, 1, 65535), (1, 300, U64), (0, U64), ('', 'dtn://a/', 'ipn:1.0', 'dtn://é/'),
                                                      exts):
        out.append({'kind': 'sess_init', 'keepalive': ka, 'segment_mru': smru, 'transfer_mru': tmru, 'nodeid': nid, 'ext': ext})
    for fl, rs in itertools.product((0, 1, 0xff), (0, 1, 2, 3, 4, 5, 0xff)):
        out.append({'kind': 'sess_term', 'flags': fl, 'reason': rs})
    out.append({'kind': 'keepalive'})
    for rid, rs in itertools.product((0, 1, 7, 0x99, 0xff), (1, 2, 3, 0xff)):
        out.append({'kind': 'reject', 'rej_msg_id': rid, 'reason': rs})
    texts = [[], [(1, 1, struct.pack('!Q', 5))], [(0, 0xFFFF, b''), (1, 1, struct.pack('!Q', U64))]]
    for fl, xid, data, ext in itertools.product((0, 1, 2, 3), (0, 1, U64), (b'', b'a', b'hello', bytes(range(40))), texts):
        if not fl & 2 and ext:
            continue
        out.append({'kind': 'segment', 'flags': fl, 'transfer_id': xid, 'ext': ext if fl & 2 else [], 'data': data})
    for fl, xid, ln in itertools.product((0, 1, 2, 3), (0, 1, U64), (0, 1, 1 << 32, U64)):
        out.append({'kind': 'ack', 'flags': fl, 'transfer_id': xid, 'length': ln})
    for rs, xid in itertools.product((0, 1, 2, 3, 4, 5, 0xff), (0, 1, U64)):
        out.append({'kind': 'refuse', 'reason': rs, 'transfer_id': xid})
    return out


def decode_real(buf, in_conn):
    '''what recv_raw does: -> ('ok', pkt, consumed) | ('partial',) | ('error', exc)'''
    cls = messages.MessageHead if in_conn else contact.Head
    try:
        pkt = cls(buf)
        data = bytes(pkt)
    except formats.VerifyError:
        return ('partial',)
    except Exception as err:  # noqa
        return ('error', err)
    return ('ok', pkt, len(data), data)


TRAILERS = [b'\x00', b'\x04', b'\x05\x00\x00', bytes([1, 3]) + bytes(8), b'\xff' * 7]


def check_message(m, fails, stats):
    in_conn = m['kind'] != 'contact'
    ref = ref_encode(m)
    enc = bytes(scapy_build(m))
    stats['evaluations'] += 1
    if enc != ref:
        fails.append({'check': 'X-encode', 'message': _j(m), 'scapy': enc.hex(), 'independent': ref.hex()})
        return
    # P2 / P4: proper prefixes
    for k in range(1, len(enc)):
        stats['evaluations'] += 1
        r = decode_real(enc[:k], in_conn)
        if r[0] != 'partial':
            fails.append({'check': 'P2/P4-prefix', 'message': _j(m), 'prefix_len': k, 'stream': enc[:k].hex(),
                          'got': r[0] + (': %r' % (r[1],) if r[0] == 'error' else ' (%d octets consumed)' % r[2])})
            break
    # P1 + P3
    for tr in [b''] + TRAILERS:
        stats['evaluations'] += 1
        r = decode_real(enc + tr, in_conn)
        if r[0] != 'ok' or r[2] != len(enc) or r[3] != enc:
            fails.append({'check': 'P1' if not tr else 'P3-trailing', 'message': _j(m), 'stream': (enc + tr).hex(),
                          'got': r[0] + ('' if r[0] != 'ok' else ' consumed %d of message length %d' % (r[2], len(enc)))})
            break
        got = scapy_fields(r[1], in_conn)
        want, n = ref_decode(enc + tr, in_conn)
        want = dict(want)
        want.pop('magic', None), want.pop('version', None), got.pop('magic', None), got.pop('version', None)
        if _j(got) != _j(want) or n != len(enc):
            fails.append({'check': 'X-decode', 'message': _j(m), 'scapy': _j(got), 'independent': _j(want)})
            break


def _j(m):
    def c(v):
        if isinstance(v, bytes):
            return v.hex()
        if isinstance(v, (list, tuple)):
            return [c(x) for x in v]
        if isinstance(v, dict):
            return {k: c(x) for k, x in v.items()}
        return v
    return c(m)


# ---------------------------------------------------------------------------------------------
def run_stream(chunks):
    '''Feed the chunks to a real passive handler; -> the sequence of messages handed to recv_message
    (as encoded octets) and the final buffer.'''
    E.reset_world()
    hdl, sock = E.make_handler(passive=True)
    hdl.start()
    E.pump()
    seen = []
    orig = hdl.recv_message

    def recv_message(pkt):
        seen.append(bytes(pkt).hex())
        return orig(pkt)
    hdl.recv_message = recv_message
    err = None
    try:
        for c in chunks:
            if hdl._Connection__s_notls is None:
                break
            hdl.recv_raw(c)
            E.pump()
    except Exception as e:  # noqa
        err = '%s: %s' % (type(e).__name__, e)
    return {'messages': seen, 'left': hdl._Messenger__rx_buf.hex(), 'error': err}


def cuts_of(stream, positions):
    out, last = [], 0
    for p in positions:
        out.append(stream[last:p])
        last = p
    out.append(stream[last:])
    return [c for c in out if c]


def streams():
    ch = ref_encode({'kind': 'contact', 'flags': 0})
    si = ref_encode({'kind': 'sess_init', 'keepalive': 0, 'segment_mru': 100, 'transfer_mru': 1000, 'nodeid': 'dtn://p/', 'ext': []})
    ka = ref_encode({'kind': 'keepalive'})
    seg = ref_encode({'kind': 'segment', 'flags': 3, 'transfer_id': 1, 'ext': [(1, 1, struct.pack('!Q', 3))], 'data': b'abc'})
    seg0 = ref_encode({'kind': 'segment', 'flags': 3, 'transfer_id': 2, 'ext': [(1, 1, struct.pack('!Q', 0))], 'data': b''})
    term = ref_encode({'kind': 'sess_term', 'flags': 0, 'reason': 0})
    rej = ref_encode({'kind': 'reject', 'rej_msg_id': 9, 'reason': 1})
    return [('contact+keepalive+reject (exhaustive cuts)', ch + ka + rej + ka),
            ('contact+sess_term+reject+keepalive (exhaustive cuts in thorough)', ch + term + rej + ka + ka + ka + ka),
            ('contact+sess_init+keepalive', ch + si + ka),
            ('contact+sess_init+segment+keepalive+zero-length segment+sess_term', ch + si + seg + ka + seg0 + term)]


def check_streams(fails, stats, samples):
    for name, s in streams():
        n = len(s)
        ref = run_stream([s])
        whole = dict(ref)
        stats['evaluations'] += 1
        # reference: message by message according to the independent decoder
        pos, parts, in_conn = 0, [], False
        while pos < n:
            _f, ln = ref_decode(s[pos:], in_conn)
            parts.append(s[pos:pos + ln])
            pos += ln
            in_conn = True
        by_msg = run_stream(parts)
        stats['evaluations'] += 1
        if by_msg['error'] or by_msg['messages'] != [p.hex() for p in parts]:
            fails.append({'check': 'S-message-wise', 'stream': name, 'octets': s.hex(), 'got': by_msg})
            continue
        want = by_msg
        if n <= MAX_EXH:
            cutsets = (tuple(i + 1 for i in range(n - 1) if mask >> i & 1) for mask in range(1 << (n - 1)))
            mode = 'all %d cuts' % (1 << (n - 1))
        else:
            singles = [(i,) for i in range(1, n)]
            doubles = list(itertools.combinations(range(1, n), 2))
            extra = []
            if TIER == 'thorough':
                import random
                rnd = random.Random(SEED * 1000003 + n)
                if n <= 48:
                    extra = list(itertools.combinations(range(1, n), 3))
                extra += [tuple(sorted(rnd.sample(range(1, n), rnd.randint(3, min(12, n - 1))))) for _ in range(1500)]
            cutsets = itertools.chain([()], singles, doubles, [tuple(range(1, n))], extra)
            mode = 'whole, %d single cuts, %d double cuts, octet by octet, %d further cut sets (triples / seeded random)' % (
                len(singles), len(doubles), len(extra))
        k = 0
        for cs in cutsets:
            k += 1
            got = run_stream(cuts_of(s, cs))
            stats['evaluations'] += 1
            if got != want:
                fails.append({'check': 'S-split-invariance', 'stream': name, 'octets': s.hex(), 'cuts': list(cs),
                              'got': got, 'want': want})
                break
        samples.append({'stream': name, 'octets': n, 'cuts_tried': k, 'mode': mode, 'messages_acted_on': len(want['messages'])})
        if whole != want:
            fails.append({'check': 'S-split-invariance', 'stream': name, 'octets': s.hex(), 'cuts': [], 'got': whole, 'want': want})


TIER = 'quick'
SEED = 0


def main(argv):
    global TIER, SEED, MAX_EXH
    fails, stats, samples = [], {'evaluations': 0}, []
    if '--tier' in argv:
        TIER = argv[argv.index('--tier') + 1]
        argv = [a for i, a in enumerate(argv) if a != '--tier' and (i == 0 or argv[i - 1] != '--tier')]
    SEED = int(os.environ.get('VERIF_SEED', '0') or 0)
    if TIER == 'thorough':
        MAX_EXH = 16
    if len(argv) > 1 and argv[0] == '--replay':
        with open(argv[1]) as f:
            data = json.load(f)
        one = data.get('failure') or {}
        print('replay of bounded check %s' % one.get('check'))
        if one.get('check', '').startswith('S-'):
            got = run_stream(cuts_of(bytes.fromhex(one['octets']), one.get('cuts') or []))
            print('  observed: %s' % json.dumps(got))
            bad = got != one.get('want')
        else:
            m = dict(one.get('message'))
            if 'data' in m:
                m['data'] = bytes.fromhex(m['data'])
            if 'ext' in m:
                m['ext'] = [(f, t, bytes.fromhex(d)) for (f, t, d) in m['ext']]
            again = []
            check_message(m, again, {'evaluations': 0})
            print('  observed: %s' % json.dumps(again)[:1500])
            bad = bool(again)
        print('REPRODUCED' if bad else 'NOT-REPRODUCED')
        return 1 if bad else 0
    msgs = corpus()
    for m in msgs:
        check_message(m, fails, stats)
    check_streams(fails, stats, samples)
    kinds = {}
    for m in msgs:
        kinds[m['kind']] = kinds.get(m['kind'], 0) + 1
    out = {'tool': 'exhaustive enumeration over a fixed corpus on the real scapy classes and the real Messenger.recv_raw',
           'bound': '%d messages (%s); every proper prefix of each; %d trailers each; 3 streams, all 2^(n-1) cuts up to %d '
                    'octets, single+double cuts and octet-by-octet beyond' % (len(msgs), kinds, len(TRAILERS), MAX_EXH),
           'evaluations': stats['evaluations'], 'distinct_nontrivial': len(msgs) + sum(s['cuts_tried'] for s in samples),
           'rule': 'one case = one (message, prefix length / trailer) decode or one (stream, cut set) run; distinct = distinct '
                   'messages of the corpus plus distinct cut sets; all are non-trivial (each has at least one octet)',
           'samples': samples + [{'message': _j(msgs[i])} for i in (0, 5, len(msgs) // 2)],
           'failures': fails[:20], 'exhaustive': False}
    print(json.dumps(out))
    return 1 if fails else 0


if __name__ == '__main__':
    sys.exit(main(sys.argv[1:]))
