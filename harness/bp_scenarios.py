"""C10 / C11 / C19 -- BOUNDED stand-in, never counted as proved.

The proofs of the BP agent (contracts/bp_agent.py, bp_fwd.py, bp_report.py) treat the encoders, the bundle
container's index bookkeeping, the clock and the processing-chain steps of the applications as assumed contracts,
and a refuted obligation there comes without a replayable input.  This battery drives the real agent (fake
convergence layer, virtual GLib loop) through enumerated scenarios and checks, on the octets handed to the
convergence layer decoded again, what the three properties state:

  C10  repeats of an identity, own-source bundles, look-alike identities differing in one component; first-match
       routing over several receive routes; the node's own administrative endpoint; no route
  C11  forwarding: primary block and payload unchanged, exactly one Previous Node block naming this node, every
       Hop Count block one greater, at most one Bundle Age block with the age since creation (creation times from
       seconds to ten days ago; none for a clock-less source), unique block numbers, payload numbered 1 and last,
       CRCs valid (independent implementation of harness/c08_bounded.py)
  C12  bundles for a local endpoint with integrity / confidentiality blocks (one or two blocks, one or two targets,
       unknown context, two results for a target, missing target block), the per-target cryptographic verdict scripted
       (the primitive is the only thing replaced), acceptance off and on: delivered only if every target of every
       block verifies; otherwise not delivered, the application step not reached, marked deleted with a security
       reason 12..16, one deletion report, nothing raised
  C19  status reports for every combination of the four request flags (+ status time) x report-to set / dtn:none x
       outcome (deliver, forward, forward as fragments, delete by route, no route): sent iff requested and
       occurred, addressed to report-to, subject identity, only the assertions requested and true, administrative
       flag, valid CRCs, no report about a report

Usage:  bp_scenarios.py --prop C10|C11|C19 [--tier quick|thorough] [--replay FILE]  -> JSON on stdout, exit 0 / 1.
"""
import datetime
import itertools
import json
import logging
import os
import re
import sys

HERE = os.path.dirname(os.path.abspath(__file__))
sys.path.insert(0, HERE)
import env  # noqa: E402
env.setup()
logging.disable(logging.CRITICAL)

import dbus.bus  # noqa: E402
from gi.repository import GLib  # noqa: E402
from bp.encoding import (Bundle, PrimaryBlock, CanonicalBlock, Timestamp, HopCountBlock, BundleAgeBlock,  # noqa: E402
                         PreviousNodeBlock, AdminRecord, StatusReport)
from bp.encoding.fields import DtnTimeField  # noqa: E402
from bp.util import BundleContainer  # noqa: E402
from bp.config import Config, TxRouteItem, RxRouteItem  # noqa: E402
import bp.agent  # noqa: E402
import c08_bounded as C8  # noqa: E402   (independent CRC check of an encoded bundle)

F = PrimaryBlock.Flag
REQ = {'receive': int(F.REQ_RECEPTION_REPORT), 'forward': int(F.REQ_FORWARDING_REPORT),
       'deliver': int(F.REQ_DELIVERY_REPORT), 'delete': int(F.REQ_DELETION_REPORT)}
FIELD = {'receive': 'received', 'forward': 'forwarded', 'deliver': 'delivered', 'delete': 'deleted'}


class VClock(object):
    '''A virtual wall clock put in place of the datetime module seen by bp.agent and bp.util (both read the time as
    datetime.datetime.now(tz)), so that time spent between two steps of the processing is under the harness's control.'''
    def __init__(self):
        self.t = datetime.datetime(2026, 1, 1, 12, 0, 0, tzinfo=datetime.timezone.utc)
        clock = self

        class _DT(datetime.datetime):
            @classmethod
            def now(cls, tz=None):
                return clock.t
        self.shim = type('datetime_shim', (), {'datetime': _DT, 'timezone': datetime.timezone,
                                               'timedelta': datetime.timedelta, 'date': datetime.date})

    def advance(self, ms):
        self.t = self.t + datetime.timedelta(milliseconds=ms)

    def dtn(self):
        return DtnTimeField.datetime_to_dtntime(self.t)

    def __enter__(self):
        import bp.util
        self.saved = (bp.agent.datetime, bp.util.datetime)
        bp.agent.datetime = self.shim
        bp.util.datetime = self.shim
        return self

    def __exit__(self, *a):
        import bp.util
        bp.agent.datetime, bp.util.datetime = self.saved


def new_agent(rx_routes, mtu=None, tx=True, on_send=None):
    cfg = Config()
    cfg.node_id = 'dtn://me/'
    cfg._bus_conn = dbus.bus.BusConnection()
    GLib.reset()
    ag = bp.agent.Agent(cfg)
    sent = []

    class FakeCl(object):
        serv_name = 'x'

        def send_bundle_func(self, raw):
            def send(data):
                sent.append(bytes(data))
                if on_send:
                    on_send(bytes(data))
            return send
    ag._cl_agent['udpcl'] = FakeCl()
    for pat, action in rx_routes:
        cfg.rx_route_table.append(RxRouteItem(eid_pattern=re.compile(pat), action=action))
    if tx:
        cfg.tx_route_table.append(TxRouteItem(eid_pattern=re.compile(r'.*'), next_nodeid='dtn://n/', cl_type='udpcl',
                                              raw_config={}, mtu=mtu))
    finished = []
    orig = ag._finish_bundle

    def finish(ctr):
        finished.append((ctr, sorted(ctr.actions)))
        return orig(ctr)
    ag._finish_bundle = finish
    return ag, sent, finished


def mk(dest='dtn://d/x', src='dtn://s/', seq=7, dtn=1000, flags=0, report_to='dtn://r/', crc=(2, 1, 2), plen=20, ext=(),
       frag=None, lifetime=10 ** 10):
    cp, ce, cl = crc
    blocks = []
    for (num, kind, arg) in ext:
        if kind == 'hop':
            blocks.append(CanonicalBlock(type_code=10, block_num=num, crc_type=ce) / HopCountBlock(limit=arg[0], count=arg[1]))
        elif kind == 'age':
            blocks.append(CanonicalBlock(type_code=7, block_num=num, crc_type=ce) / BundleAgeBlock(age=arg))
        elif kind == 'prev':
            blocks.append(CanonicalBlock(type_code=6, block_num=num, crc_type=ce) / PreviousNodeBlock(node=arg))
        else:
            blocks.append(CanonicalBlock(type_code=kind, block_num=num, crc_type=ce, btsd=arg))
    blocks.append(CanonicalBlock(type_code=1, block_num=1, crc_type=cl, btsd=bytes((i * 5 + 1) % 250 for i in range(plen))))
    kw = {}
    if frag is not None:
        flags |= int(F.IS_FRAGMENT)
        kw = dict(fragment_offset=frag[0], total_app_data_len=frag[1])
    b = Bundle(primary=PrimaryBlock(bundle_flags=flags, destination=dest, source=src, report_to=report_to, crc_type=cp,
                                    create_ts=Timestamp(dtntime=dtn, seqno=seq), lifetime=lifetime, **kw), blocks=blocks)
    b.fill_fields()
    b.update_all_crc()
    return bytes(b)


def feed(ag, raw):
    ag.recv_bundle(BundleContainer(Bundle(raw)))
    GLib.pump_idle(300)


def split_out(sent):
    '''-> (data bundles, [(bundle, StatusReport)])'''
    data, reports = [], []
    for raw in sent:
        b = Bundle(raw)
        pl = [x for x in b.blocks if x.type_code == 1]
        if b.primary.bundle_flags & F.PAYLOAD_ADMIN and pl and isinstance(pl[0].payload, AdminRecord):
            reports.append((raw, b, pl[0].payload.payload))
        else:
            data.append((raw, b))
    return data, reports


def prim_tuple(p):
    return (p.bp_version, int(p.bundle_flags), p.destination, p.source, p.report_to, p.create_ts.getfieldval('dtntime'),
            p.create_ts.seqno, p.lifetime, p.crc_type)


# ---------------------------------------------------------------------------------------------------------- C10
def c10(fails, stats, tier):
    routes = [(r'dtn://me/.*', 'deliver'), (r'dtn://del/.*', 'delete'), (r'.*', 'forward')]

    def run(seq_of_raw):
        ag, sent, fin = new_agent(routes)
        per = []
        for raw in seq_of_raw:
            n0, f0 = len(sent), len(fin)
            try:
                feed(ag, raw)
            except Exception as e:  # noqa
                per.append(('raised', str(e)))
                continue
            per.append((len(sent) - n0, len(fin) - f0))
        return per
    base = dict(flags=sum(REQ.values()))
    for dest in ('dtn://d/x', 'dtn://me/svc', 'dtn://del/x'):
        a = mk(dest=dest, **base)
        variants = {
            'repeat': (a, True),
            'other-seqno': (mk(dest=dest, seq=8, **base), False),
            'other-time': (mk(dest=dest, dtn=1001, **base), False),
            'other-source': (mk(dest=dest, src='dtn://t/', **base), False),
            'fragment-of-it': (mk(dest='dtn://d/x', frag=(0, 40), **base), False),
            'same-payload-other-crc-types': (mk(dest=dest, crc=(1, 1, 1), **base), True),
        }
        for name, (b, is_repeat) in variants.items():
            stats['evaluations'] += 1
            case = {'scenario': 'identity', 'dest': dest, 'second': name}
            per = run([a, b])
            if per[0][0] == 0 and per[0][1] == 0:
                fails.append({'check': 'A-first-not-acted-on', 'case': case, 'got': per})
                continue
            acted = per[1] != (0, 0)
            if is_repeat and acted:
                fails.append({'check': 'A-repeat-acted-on', 'case': case, 'got': per})
            if not is_repeat and not acted:
                fails.append({'check': 'A-distinct-identity-ignored', 'case': case, 'got': per})
        stats['evaluations'] += 1
        own = mk(dest=dest, src='dtn://me/', **base)
        per = run([own])
        if per[0] != (0, 0):
            fails.append({'check': 'A-own-source-acted-on', 'case': {'scenario': 'own-source', 'dest': dest}, 'got': per})
    # a late repeat: the identity is remembered however many other bundles were seen in between
    n_between = 1200 if tier == 'quick' else 6000
    stats['evaluations'] += 1
    case = {'scenario': 'late-repeat', 'other_bundles_in_between': n_between}
    ag, sent, fin = new_agent(routes)
    x = mk(dest='dtn://d/x', seq=1, flags=REQ['receive'])
    try:
        feed(ag, x)
        for i in range(n_between):
            ag.recv_bundle(BundleContainer(Bundle(mk(dest='dtn://d/x', seq=100 + i, flags=0, report_to='dtn:none', crc=(0, 0, 0), plen=1))))
            if i % 50 == 0:
                GLib.pump_idle(400)
        GLib.pump_idle(400)
        n0, f0 = len(sent), len(fin)
        feed(ag, x)
        if (len(sent) - n0, len(fin) - f0) != (0, 0):
            fails.append({'check': 'A-late-repeat-acted-on', 'case': case, 'got': [len(sent) - n0, len(fin) - f0]})
    except Exception as e:  # noqa
        fails.append({'check': 'A-exception', 'case': case, 'got': '%s: %s' % (type(e).__name__, e)})
    # first-match routing
    tables = [
        [(r'dtn://a/.*', 'delete'), (r'dtn://a/b.*', 'forward'), (r'.*', 'forward')],
        [(r'dtn://a/b.*', 'forward'), (r'dtn://a/.*', 'delete'), (r'.*', 'deliver')],
        [(r'dtn://zz/.*', 'forward')],
        [],
        # patterns are matched as prefixes (re.match): no trailing wildcard needed
        [(r'dtn://a/b', 'delete'), (r'dtn://a/', 'forward'), (r'dtn://q', 'deliver')],
    ]
    dests = ['dtn://a/b', 'dtn://a/c', 'dtn://q/', 'dtn://me/', 'dtn://zz/k', 'dtn://a/bcd/e', 'dtn://q/long/er']
    for ti, table in enumerate(tables):
        for dest in dests:
            stats['evaluations'] += 1
            case = {'scenario': 'routing', 'table': ti, 'dest': dest}
            ag, sent, fin = new_agent(table)
            feed(ag, mk(dest=dest, flags=0, report_to='dtn:none'))
            want = None
            for pat, action in table:
                if re.match(pat, dest):
                    want = action
                    break
            if dest == 'dtn://me/':
                want = 'deliver'       # the node's own administrative endpoint
            data, _reps = split_out(sent)
            acts = fin[0][1] if fin else []
            if want == 'forward':
                ok = len(data) == 1 and 'forward' in acts and 'deliver' not in acts
            elif want == 'deliver':
                ok = not data and 'deliver' in acts
            elif want == 'delete':
                ok = not data and 'delete' in acts and 'deliver' not in acts
            else:
                ok = not data and 'deliver' not in acts and 'forward' not in acts
            if not ok:
                fails.append({'check': 'R-first-match', 'case': case, 'expected': want, 'transmitted': len(data), 'actions': acts})


# ---------------------------------------------------------------------------------------------------------- C11
def c11(fails, stats, tier):
    container_contracts(fails, stats, tier)
    now = DtnTimeField.datetime_to_dtntime(datetime.datetime.now(datetime.timezone.utc))
    ages = [5 * 1000, 7 * 3600 * 1000, (23 * 3600 + 59 * 60) * 1000, 51 * 3600 * 1000, 10 * 86400 * 1000]
    ext_sets = [
        (),
        ((2, 'hop', (30, 3)),),
        ((9, 'hop', (30, 23)), (7, 'hop', (5, 1)), (4, 'prev', 'dtn://p/'), (3, 'age', 1234), (5, 192, b'\x01\x02')),
        ((6, 'prev', 'dtn://p/'), (2, 'prev', 'dtn://q/'), (12, 'age', 5), (13, 'age', 6), (40, 193, bytes(30))),
    ]
    crcs = [(0, 0, 0), (1, 2, 1), (2, 1, 2)]
    if tier == 'thorough':
        crcs += [(1, 1, 1), (2, 2, 2), (0, 2, 1)]
    for ext, crc in itertools.product(ext_sets, crcs):
        for age_ms in ages + [None]:
            stats['evaluations'] += 1
            dtn = 0 if age_ms is None else now - age_ms
            case = {'scenario': 'forward', 'ext': [(n, str(k)) for n, k, _a in ext], 'crc': list(crc), 'age_ms': age_ms}
            raw = mk(dtn=dtn, crc=crc, ext=ext, flags=0, report_to='dtn:none')
            orig = Bundle(raw)
            ag, sent, fin = new_agent([(r'.*', 'forward')])
            try:
                feed(ag, raw)
            except Exception as e:  # noqa
                fails.append({'check': 'F-exception', 'case': case, 'got': '%s: %s' % (type(e).__name__, e)})
                continue
            data, _r = split_out(sent)
            if len(data) != 1:
                fails.append({'check': 'F-not-forwarded-once', 'case': case, 'got': len(data), 'actions': fin[0][1] if fin else None})
                continue
            out_raw, out = data[0]
            if prim_tuple(out.primary) != prim_tuple(orig.primary):
                fails.append({'check': 'F-primary-changed', 'case': case, 'got': str(prim_tuple(out.primary)),
                              'want': str(prim_tuple(orig.primary))})
                continue
            pl_o = [b for b in orig.blocks if b.type_code == 1][0]
            if out.blocks[-1].type_code != 1 or out.blocks[-1].block_num != 1 or \
                    bytes(out.blocks[-1].getfieldval('btsd')) != bytes(pl_o.getfieldval('btsd')):
                fails.append({'check': 'F-payload', 'case': case})
                continue
            nums = [b.block_num for b in out.blocks]
            if len(set(nums)) != len(nums):
                fails.append({'check': 'F-block-numbers', 'case': case, 'got': nums})
                continue
            prevs = [b for b in out.blocks if b.type_code == 6]
            if len(prevs) != 1 or prevs[0].payload.node != 'dtn://me/':
                fails.append({'check': 'F-previous-node', 'case': case, 'got': [p.payload.node for p in prevs]})
                continue
            hops_in = sorted((b.payload.limit, b.payload.count) for b in orig.blocks if b.type_code == 10)
            hops_out = sorted((b.payload.limit, b.payload.count) for b in out.blocks if b.type_code == 10)
            if hops_out != [(lim, c + 1) for lim, c in hops_in]:
                fails.append({'check': 'F-hop-count', 'case': case, 'got': hops_out, 'received': hops_in})
                continue
            ages_out = [b.payload.age for b in out.blocks if b.type_code == 7]
            if age_ms is None:
                if ages_out:
                    # (clock-less source: the received age blocks are removed and none can be computed)
                    pass
            else:
                if len(ages_out) != 1 or not (age_ms <= ages_out[0] <= age_ms + 60000):
                    fails.append({'check': 'F-bundle-age', 'case': case, 'got': ages_out, 'expected_about': age_ms})
                    continue
            if len(ages_out) > 1:
                fails.append({'check': 'F-bundle-age', 'case': case, 'got': ages_out})
                continue
            unk_in = sorted((b.type_code, bytes(b.getfieldval('btsd'))) for b in orig.blocks if b.type_code >= 192)
            unk_out = sorted((b.type_code, bytes(b.getfieldval('btsd'))) for b in out.blocks if b.type_code >= 192)
            if unk_in != unk_out:
                fails.append({'check': 'F-unknown-blocks', 'case': case})
                continue
            probe = []
            C8.check_output_bundle(out_raw, case, probe)
            if probe:
                fails.append({'check': 'F-crc', 'case': case, 'got': probe[0]})
    # time spent waiting in the node counts: bursts received in one loop iteration, under a virtual clock which the
    # harness advances between reception and the forwarding pass and at every hand-over to the convergence layer
    for n_burst, wait_ms, send_ms in itertools.product((1, 3), (0, 1500), (0, 800)):
        stats['evaluations'] += 1
        case = {'scenario': 'forward-burst', 'bundles': n_burst, 'wait_before_forwarding_ms': wait_ms, 'send_takes_ms': send_ms}
        with VClock() as clk:
            left_at = []

            def on_send(raw, clk=clk, left_at=left_at, send_ms=send_ms):
                left_at.append(clk.dtn())
                clk.advance(send_ms)
            ag, sent, fin = new_agent([(r'.*', 'forward')], on_send=on_send)
            created = clk.dtn() - 5000
            try:
                for i in range(n_burst):
                    ag.recv_bundle(BundleContainer(Bundle(mk(dtn=created, seq=i, flags=0, report_to='dtn:none'))))
                clk.advance(wait_ms)
                GLib.pump_idle(300)
            except Exception as e:  # noqa
                fails.append({'check': 'F-exception', 'case': case, 'got': '%s: %s' % (type(e).__name__, e)})
                continue
            data, _r = split_out(sent)
            if len(data) != n_burst:
                fails.append({'check': 'F-not-forwarded-once', 'case': case, 'got': len(data)})
                continue
            for (out_raw, out), t_left in zip(data, left_at):
                ages_out = [b.payload.age for b in out.blocks if b.type_code == 7]
                if len(ages_out) != 1 or abs(ages_out[0] - (t_left - created)) > 1:
                    fails.append({'check': 'F-bundle-age-at-departure', 'case': case, 'got': ages_out,
                                  'ms_since_creation_when_it_left': t_left - created})
                    break


# ---------------------------------------------------------------------------------------------------------- C19
def c19(fails, stats, tier):
    outcomes = {
        'deliver': dict(routes=[(r'dtn://me/.*', 'deliver')], dest='dtn://me/svc', mtu=None, plen=20, occurred={'receive', 'deliver'}),
        'forward': dict(routes=[(r'.*', 'forward')], dest='dtn://d/x', mtu=None, plen=20, occurred={'receive', 'forward'}),
        'forward-fragments': dict(routes=[(r'.*', 'forward')], dest='dtn://d/x', mtu=150, plen=400, occurred={'receive', 'forward'}),
        'delete-by-route': dict(routes=[(r'.*', 'delete')], dest='dtn://d/x', mtu=None, plen=20, occurred={'receive', 'delete'}),
        'no-route': dict(routes=[(r'dtn://zz/.*', 'forward')], dest='dtn://d/x', mtu=None, plen=20, occurred={'receive'}),
    }
    kinds = list(REQ)
    combos = []
    for n in range(len(kinds) + 1):
        for sub in itertools.combinations(kinds, n):
            combos.append(sub)
    for oname, o in outcomes.items():
        for sub in combos:
            for with_time in ((False, True) if tier == 'thorough' or len(sub) in (1, 4) else (False,)):
                # (subject creation time 0: a source without a clock -- the subject is identified by [0, seqno] then)
                dtns = (1000, 0) if tier == 'thorough' or len(sub) in (1, 4) else (1000,)
                for report_to, dtn in [(r, d) for r in ('dtn://r/', 'dtn:none') for d in dtns]:
                    stats['evaluations'] += 1
                    flags = sum(REQ[k] for k in sub) | (int(F.REQ_STATUS_TIME) if with_time else 0)
                    case = {'scenario': oname, 'requested': list(sub), 'status_time': with_time, 'report_to': report_to,
                            'subject_creation_time': dtn}
                    ag, sent, fin = new_agent(o['routes'], mtu=o['mtu'])
                    try:
                        feed(ag, mk(dest=o['dest'], flags=flags, report_to=report_to, plen=o['plen'], dtn=dtn))
                    except Exception as e:  # noqa
                        fails.append({'check': 'S-exception', 'case': case, 'got': '%s: %s' % (type(e).__name__, e)})
                        continue
                    data, reps = split_out(sent)
                    want = set(sub) & o['occurred']
                    expect_report = bool(want) and report_to != 'dtn:none'
                    if not expect_report:
                        if reps:
                            fails.append({'check': 'S-unrequested-report', 'case': case, 'reports': len(reps)})
                        continue
                    if oname == 'no-route' and not reps:
                        # a bundle matching no route is dropped without its processing being "finished": no report
                        # at all, not even of the reception.  The property's statement ("only if") does not require
                        # one; noted in DESIGN.md as an observation, not checked here.
                        continue
                    if len(reps) != 1:
                        fails.append({'check': 'S-report-count', 'case': case, 'reports': len(reps)})
                        continue
                    raw, b, rep = reps[0]
                    asserted = {k for k in kinds if getattr(rep.status, FIELD[k]).status}
                    if asserted != want:
                        fails.append({'check': 'S-assertions', 'case': case, 'asserted': sorted(asserted), 'expected': sorted(want)})
                        continue
                    if b.primary.destination != report_to or rep.subj_source != 'dtn://s/' or \
                            rep.subj_ts.getfieldval('dtntime') != dtn or rep.subj_ts.seqno != 7:
                        fails.append({'check': 'S-addressing-or-subject', 'case': case, 'dest': b.primary.destination})
                        continue
                    # the encoded item, not the attribute view (which shows DTN time 0 as None)
                    times = {k: getattr(rep.status, FIELD[k]).getfieldval('at') for k in want}
                    if with_time and any(t is None for t in times.values()) or not with_time and any(t is not None for t in times.values()):
                        fails.append({'check': 'S-status-time', 'case': case, 'got': str(times)})
                        continue
                    if b.primary.bundle_flags & sum(REQ.values()):
                        fails.append({'check': 'S-report-requests-reports', 'case': case})
                        continue
                    if oname.startswith('forward') and 'delete' in asserted:
                        fails.append({'check': 'S-forwarded-reported-deleted', 'case': case})
                        continue
                    probe = []
                    C8.check_output_bundle(raw, case, probe)
                    if probe:
                        fails.append({'check': 'S-report-crc', 'case': case, 'got': probe[0]})


# ------------------------------------------------------------------------------ BundleContainer bookkeeping (under C11)
def container_contracts(fails, stats, tier):
    '''The contracts the proofs ASSUME for bp.util.BundleContainer (block_num, block_type, add_block, remove_block,
    reload, fix_block_num: contracts/bp_fwd.py, bp_apps.py) checked at run time on the real class over enumerated
    operation sequences, on two containers side by side (operations on one must not touch the other).'''
    def fresh_pair():
        ext = ((9, 'hop', (30, 23)), (4, 'prev', 'dtn://p/'), (3, 'age', 1234), (5, 192, b'\x01\x02'))
        a = BundleContainer(Bundle(mk(ext=ext, crc=(2, 1, 2))))
        b = BundleContainer(Bundle(mk(ext=((2, 'hop', (9, 1)), (3, 193, b'\x07')), seq=8, crc=(1, 1, 1))))
        return a, b

    def snapshot(c):
        return [(id(x), x.block_num, x.type_code, bytes(x.getfieldval('btsd')) if x.getfieldval('btsd') is not None else None)
                for x in c.bundle.blocks]

    def coherent(c):
        blocks = list(c.bundle.blocks)
        nums = [x.block_num for x in blocks if x.block_num is not None]
        if len(set(nums)) != len(nums):
            return 'duplicate block numbers %s' % nums
        for x in blocks:
            if x.block_num is not None:
                try:
                    if c.block_num(x.block_num) is not x:
                        return 'block_num(%s) is another block' % x.block_num
                except KeyError:
                    return 'block_num(%s) missing' % x.block_num
        for n in list(c._block_num):
            if n != 0 and not any(x.block_num == n and c._block_num[n] is x for x in blocks):
                return 'stale index entry %s' % n
        for cls in (HopCountBlock, PreviousNodeBlock, BundleAgeBlock):
            lst = c.block_type(cls)
            want = [x for x in blocks if isinstance(x.payload, cls)]
            if sorted(map(id, lst)) != sorted(map(id, want)) or len(set(map(id, lst))) != len(lst):
                return 'block_type(%s) lists %d blocks, bundle has %d' % (cls.__name__, len(lst), len(want))
        if blocks and blocks[-1].type_code != 1:
            return 'payload block is not last'
        return None

    def new_block(kind):
        if kind == 'prev':
            return CanonicalBlock() / PreviousNodeBlock(node='dtn://me/')
        if kind == 'age':
            return CanonicalBlock() / BundleAgeBlock(age=5)
        if kind == 'hop-numbered-3':
            return CanonicalBlock(block_num=3) / HopCountBlock(limit=5, count=1)
        return CanonicalBlock(type_code=200, btsd=b'\x09')
    ops = [('remove', 0), ('remove', 1), ('remove', 2), ('add', 'prev'), ('add', 'age'), ('add', 'hop-numbered-3'),
           ('add', 'unknown'), ('fix',), ('reload',)]
    depth = 3 if tier == 'quick' else 4
    seqs = []
    for n in range(1, depth + 1):
        seqs.extend(itertools.product(ops, repeat=n))
    if tier == 'quick':
        seqs = [s for i, s in enumerate(seqs) if len(s) < 3 or i % 3 == 0]
    for seq in seqs:
        stats['evaluations'] += 1
        case = {'scenario': 'container', 'ops': [list(o) for o in seq]}
        a, b = fresh_pair()
        other0 = snapshot(b)
        bad = None
        for step, op in enumerate(seq):
            before = snapshot(a)
            try:
                if op[0] == 'remove':
                    ext = [x for x in a.bundle.blocks if x.type_code != 1]
                    if op[1] >= len(ext):
                        continue
                    victim = ext[op[1]]
                    a.remove_block(victim)
                    if any(x is victim for x in a.bundle.blocks):
                        bad = 'removed block still there'
                    kept = [t for t in before if t[0] != id(victim)]
                    if [t[0] for t in snapshot(a)] != [t[0] for t in kept]:
                        bad = bad or 'remove_block changed other blocks'
                elif op[0] == 'add':
                    blk = new_block(op[1])
                    try:
                        a.add_block(blk)
                    except KeyError:
                        if snapshot(a) != before:
                            bad = 'add_block raised KeyError but changed the bundle'
                        continue
                    now = snapshot(a)
                    if not any(x is blk for x in a.bundle.blocks) or a.bundle.blocks[-2] is not blk:
                        bad = 'added block is not just before the payload'
                    if [t for t in now if t[0] != id(blk)] != before:
                        bad = bad or 'add_block changed other blocks (number or data)'
                    if blk.block_num is None or blk.getfieldval('btsd') is None:
                        bad = bad or 'added block has no number / no data'
                elif op[0] == 'fix':
                    a.fix_block_num()
                    now = snapshot(a)
                    if any(o[1] is not None and o[1] != n[1] for o, n in zip(before, now)) or any(n[1] is None for n in now):
                        bad = 'fix_block_num changed an existing number or left a block unnumbered'
                elif op[0] == 'reload':
                    a.reload()
                    if [(t[0], t[3]) for t in snapshot(a) if t[3] is not None] != [(t[0], t[3]) for t in before if t[3] is not None]:
                        bad = 'reload changed block data that was set'
            except Exception as e:  # noqa
                bad = 'raised %s: %s' % (type(e).__name__, e)
            bad = bad or coherent(a)
            if snapshot(b) != other0 or coherent(b):
                bad = bad or 'the other container changed (%s)' % (coherent(b) or 'blocks differ')
            if bad:
                fails.append({'check': 'K-container-contract', 'case': case, 'step': step, 'got': bad})
                break


# ---------------------------------------------------------------------------------------------------------- C12
def c12(fails, stats, tier):
    '''Fail-closed handling of security blocks.  The cryptographic primitive of one target (CoseContext.
    verify_bib_target / verify_bcb_target) is replaced by a scripted verdict per (security block number, target);
    everything else -- the receive steps, the context's per-block logic, the agent -- is the real code.'''
    from bp.encoding.bpsec import BlockIntegrityBlock, BlockConfidentialityBlock, TargetResultList, TypeValuePair
    import bp.app.bpsec as bs

    def secblk(cls, num, ctx, targets, nres=1, lists=None):
        # lists: number of per-target result lists (default: one per target)
        nl = len(targets) if lists is None else lists
        return CanonicalBlock(block_num=num, crc_type=1) / cls(
            targets=list(targets), context_id=ctx, context_flags=1, parameters=[TypeValuePair(type_code=99, value=0)],
            source='dtn://s/', results=[TargetResultList(results=[TypeValuePair(type_code=1, value=b'\xd1\x80')] * nres)
                                        for _t in range(nl)])

    def run(blocks, verdicts, accept):
        ag, sent, fin = new_agent([(r'dtn://me/.*', 'deliver')])
        app = ag._app['bpsec']
        ctx = app._contexts[bs.BPSEC_COSE_CONTEXT_ID]
        ctx._config.accept_after_verify = accept
        reached = []

        def scripted(secop, result):
            v = verdicts.get((secop.sec_blk.block_num, secop.tgt_blk.block_num), 'fail')
            return None if v == 'ok' else StatusReport.ReasonCode.FAILED_SEC
        ctx.verify_bib_target = scripted
        ctx.verify_bcb_target = scripted
        from bp.util import ChainStep
        ag._rx_chain.append(ChainStep(order=25, name='C12 application stand-in',
                                      action=lambda c: reached.append(sorted(c.actions)) and None))
        ag._rx_chain.sort()
        ext = [CanonicalBlock(type_code=192, block_num=2, crc_type=1, btsd=b'\x01')]
        payload = CanonicalBlock(type_code=1, block_num=1, crc_type=2, btsd=b'hello')
        b = Bundle(primary=PrimaryBlock(destination='dtn://me/svc', source='dtn://s/', report_to='dtn://r/',
                                        bundle_flags=REQ['deliver'] | REQ['delete'], crc_type=2,
                                        create_ts=Timestamp(dtntime=1000, seqno=7), lifetime=10 ** 10),
                   blocks=list(blocks) + ext + [payload])
        b.fill_fields()
        b.update_all_crc()
        ctr = BundleContainer(Bundle(bytes(b)))
        err = None
        try:
            ag.recv_bundle(ctr)
            GLib.pump_idle(100)
        except Exception as e:  # noqa
            err = '%s: %s' % (type(e).__name__, e)
        _data, reps = split_out(sent)
        return ctr, reached, reps, err
    BIB, BCB = BlockIntegrityBlock, BlockConfidentialityBlock
    ok1 = {(3, 1): 'ok'}
    scen = [
        # name, blocks, verdicts, must be delivered
        ('no-security-blocks', [], {}, True),
        ('bib-verifies', [secblk(BIB, 3, 3, [1])], ok1, True),
        ('bib-fails', [secblk(BIB, 3, 3, [1])], {}, False),
        ('bib-unknown-context', [secblk(BIB, 3, 99, [1])], ok1, False),
        ('bib-two-results-for-a-target', [secblk(BIB, 3, 3, [1], nres=2)], ok1, False),
        ('bib-missing-target', [secblk(BIB, 3, 3, [9])], {(3, 9): 'ok'}, False),
        ('bib-first-target-fails-last-verifies', [secblk(BIB, 3, 3, [2, 1])], {(3, 1): 'ok'}, False),
        ('bib-last-target-fails', [secblk(BIB, 3, 3, [1, 2])], {(3, 1): 'ok'}, False),
        ('bib-all-targets-verify', [secblk(BIB, 3, 3, [1, 2])], {(3, 1): 'ok', (3, 2): 'ok'}, True),
        ('two-bibs-second-fails', [secblk(BIB, 3, 3, [1]), secblk(BIB, 4, 3, [2])], ok1, False),
        ('two-bibs-first-fails', [secblk(BIB, 3, 3, [1]), secblk(BIB, 4, 3, [2])], {(4, 2): 'ok'}, False),
        ('two-bibs-unknown-and-failing', [secblk(BIB, 3, 99, [1]), secblk(BIB, 4, 3, [2])], {}, False),
        ('two-bibs-verify', [secblk(BIB, 3, 3, [1]), secblk(BIB, 4, 3, [2])], {(3, 1): 'ok', (4, 2): 'ok'}, True),
        ('bcb-verifies', [secblk(BCB, 3, 3, [1])], ok1, True),
        ('bcb-fails', [secblk(BCB, 3, 3, [1])], {}, False),
        ('bcb-unknown-context', [secblk(BCB, 3, 99, [1])], ok1, False),
        ('two-bcbs-second-fails', [secblk(BCB, 3, 3, [1]), secblk(BCB, 4, 3, [2])], ok1, False),
        ('bcb-verifies-bib-fails', [secblk(BCB, 3, 3, [1]), secblk(BIB, 4, 3, [2])], ok1, False),
        # fewer result lists than targets: the targets without a result cannot have been verified
        ('bib-no-results-at-all', [secblk(BIB, 3, 3, [1], lists=0)], ok1, False),
        ('bcb-no-results-at-all', [secblk(BCB, 3, 3, [1], lists=0)], ok1, False),
        ('bib-result-for-first-target-only', [secblk(BIB, 3, 3, [2, 1], lists=1)], {(3, 2): 'ok', (3, 1): 'ok'}, False),
        ('bcb-result-for-first-target-only', [secblk(BCB, 3, 3, [2, 1], lists=1)], {(3, 2): 'ok', (3, 1): 'ok'}, False),
    ]
    for name, blocks, verdicts, deliver in scen:
        for accept in (False, True):
            stats['evaluations'] += 1
            case = {'scenario': name, 'accept_after_verify': accept}
            try:
                ctr, reached, reps, err = run(blocks, verdicts, accept)
            except Exception as e:  # noqa
                fails.append({'check': 'X-harness', 'case': case, 'got': '%s: %s' % (type(e).__name__, e)})
                continue
            acts = sorted(ctr.actions)
            if err:
                fails.append({'check': 'X-exception-out-of-recv_bundle', 'case': case, 'got': err})
                continue
            if deliver:
                if 'deliver' not in acts or 'delete' in acts or not reached:
                    fails.append({'check': 'X-valid-bundle-not-delivered', 'case': case, 'actions': acts})
                continue
            reason = ctr.status_reason
            if 'deliver' in acts or reached:
                fails.append({'check': 'X-unverified-bundle-delivered', 'case': case, 'actions': acts, 'application_step_reached': bool(reached)})
                continue
            if 'delete' not in acts or not isinstance(reason, int) or not (12 <= int(reason) <= 16):
                fails.append({'check': 'X-not-marked-deleted-with-security-reason', 'case': case, 'actions': acts, 'reason': str(reason)})
                continue
            if len(reps) != 1 or reps[0][2].status.delivered.status or not reps[0][2].status.deleted.status or \
                    not (12 <= int(reps[0][2].reason_code) <= 16):
                fails.append({'check': 'X-report', 'case': case, 'reports': len(reps)})


PARTS = {'C10': c10, 'C11': c11, 'C19': c19, 'C12': c12}


def main(argv):
    tier = 'quick'
    if '--tier' in argv:
        tier = argv[argv.index('--tier') + 1]
    prop = argv[argv.index('--prop') + 1] if '--prop' in argv else None
    fails, stats = [], {'evaluations': 0}
    if '--replay' in argv:
        with open(argv[argv.index('--replay') + 1]) as f:
            d = json.load(f)
        one = d.get('failure') or {}
        prop = prop or d.get('property')
        print('replay of bounded check %s (%s): the scenario battery of the property is run again' % (one.get('check'), prop))
        PARTS[prop](fails, stats, tier)
        same = [f for f in fails if f['check'] == one.get('check') and f.get('case') == one.get('case')]
        print('  observed: %s' % json.dumps(same or fails[:3])[:1500])
        print('REPRODUCED' if same else 'NOT-REPRODUCED')
        return 1 if same else 0
    PARTS[prop](fails, stats, tier)
    out = {'tool': 'scenario enumeration on the real bp.agent.Agent (fake convergence layer, virtual GLib loop), outputs decoded again',
           'bound': __doc__.split('  %s  ' % prop)[1].split('\n  C')[0].replace('\n', ' ').strip()[:900] if prop in __doc__ else prop,
           'evaluations': stats['evaluations'], 'distinct_nontrivial': stats['evaluations'],
           'rule': 'one case = one scenario run on a fresh agent; all distinct by construction',
           'samples': [], 'failures': fails[:40], 'exhaustive': False}
    print(json.dumps(out))
    return 1 if fails else 0


if __name__ == '__main__':
    sys.exit(main(sys.argv[1:]))
