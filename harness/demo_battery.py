#!/usr/bin/env python3
'''Scenario regression battery -- BOUNDED, never counted as proved.

Every property-breaking change stored under seeded/<property>_<x>/ came with a demonstration program: a scenario on the
REAL classes (two ContactHandler objects over in-memory sockets, a bp.agent.Agent with a fake convergence layer, UDPCL /
BTP-U agents fed with datagrams, ...) that checks the property's observable and passes on the unchanged tree
(seeded/verify_mutant.sh confirmed that for each).  This battery runs the demonstrations of one property against the tree
under check.  A demonstration that fails is a concrete scenario on the real code in which the property does not hold;
the replay runs that demonstration again and shows its output.

The demonstrations were written by the change-seeding agents from the property text alone; they are scenario tests with
the bounds stated in their own headers, nothing more.

Usage: demo_battery.py --prop C09 [--tier quick|thorough] [--replay FILE]  -> one JSON line on stdout; exit 0 / 1.
'''
import glob
import json
import os
import subprocess
import sys

HERE = os.path.dirname(os.path.abspath(__file__))
ROOT = os.path.dirname(HERE)
SRC = os.environ.get('PYVC_REPO_SRC') or '/repo/src'


def demos_of(prop):
    out = []
    for d in sorted(glob.glob(os.path.join(ROOT, 'seeded', prop + '_*'))):
        files = sorted(glob.glob(os.path.join(d, 'demo*.py')))
        if files:
            out.append((os.path.basename(d), files[0]))
    # (C13_b is stored once and is also C18's third change)
    if prop == 'C18':
        out += [(n, f) for (n, f) in demos_of('C13') if n == 'C13_b']
    return out


def run_demo(path):
    env = dict(os.environ)
    env['PYTHONPATH'] = os.pathsep.join([os.path.join(HERE, 'stubs'), SRC])
    env['PYTHONHASHSEED'] = '0'
    try:
        p = subprocess.run([sys.executable, path], cwd=os.path.dirname(SRC), env=env, capture_output=True, text=True,
                           timeout=300)
    except subprocess.TimeoutExpired:
        return 'timeout', 'no result within 300 s'
    text = (p.stdout or '') + (p.stderr or '')
    tail = '\n'.join(text.strip().splitlines()[-12:])
    if p.returncode == 0:
        return 'pass', tail
    if p.returncode == 1 and 'FAIL' in text:
        return 'fail', tail
    return 'crash', 'exit status %d\n%s' % (p.returncode, tail)


def main(argv):
    prop = argv[argv.index('--prop') + 1]
    if '--replay' in argv:
        with open(argv[argv.index('--replay') + 1]) as f:
            one = json.load(f).get('failure') or {}
        name = (one.get('case') or {}).get('scenario')
        match = [f for (n, f) in demos_of(prop) if n == name]
        print('replay of scenario %s (%s)' % (name, match[0] if match else 'not found'))
        if not match:
            print('NOT-REPRODUCED')
            return 0
        verdict, tail = run_demo(match[0])
        print(tail)
        print('REPRODUCED' if verdict != 'pass' else 'NOT-REPRODUCED')
        return 0 if verdict == 'pass' else 1
    fails, names, no_verdict = [], [], []
    for name, path in demos_of(prop):
        verdict, tail = run_demo(path)
        if verdict == 'fail':
            names.append(name)
            fails.append({'check': 'Z-scenario-' + name, 'case': {'scenario': name, 'program': os.path.relpath(path, ROOT)},
                          'got': tail[-1500:]})
        elif verdict == 'pass':
            names.append(name)
        else:
            # a scenario program that does not run to a verdict on this tree (it reaches into private attributes a
            # harmless edit may have renamed): not a violation, listed as not run
            no_verdict.append({'scenario': name, 'why': tail[-300:]})
    out = {'tool': 'scenario programs on the real classes (the demonstrations stored with the seeded changes)',
           'bound': 'the %d stored scenarios of %s: %s (each states its own bounds in its header)' % (len(names), prop, ' '.join(names)),
           'evaluations': len(names), 'distinct_nontrivial': len(names),
           'rule': 'one case = one scenario program run to its verdict on the tree under check',
           'samples': names[:3], 'scenarios_without_verdict': no_verdict, 'failures': fails}
    print(json.dumps(out))
    return 1 if fails else 0


if __name__ == '__main__':
    sys.exit(main(sys.argv[1:]))
