"""C08 -- BOUNDED stand-in, never counted as proved.

The proof part (contracts/bp_blocks.py, bp_agent.py, bp_fwd.py) treats crcmod, cbor2 and scapy's build as
deterministic functions and proves that every block is (re)computed before a bundle is encoded and that a bundle
failing Bundle.check_all_crc is dropped first.  That these functions are the RFC 9171 CRC-16/X.25 and CRC-32C over
the transmitted octets, and that check_all_crc rejects what an independent check rejects, is checked here on the
real agent with an independent implementation:

  O   every bundle the agent hands to the convergence layer (locally originated, forwarded with hop count /
      previous node / bundle age, fragmented, status reports): each block with a non-zero CRC type carries the CRC
      (bit-wise implementation below) of its own octets with the CRC field zeroed; blocks with CRC type 0 carry no
      CRC field
  I   valid bundles with every single-bit flip and bursts of up to the CRC width inside CRC-protected blocks: the
      agent must not record the identity, deliver, forward or report (a decoding error counts as dropped)

Usage:  c08_bounded.py [--tier quick|thorough] [--replay FILE]   -> JSON on stdout, exit 0 ok / 1 failure.
"""
import json
import logging
import os
import re
import sys

HERE = os.path.dirname(os.path.abspath(__file__))
sys.path.insert(0, HERE)
import env  # noqa: E402
env.setup()
logging.disable(logging.CRITICAL)

import dbus.bus  # noqa: E402
from gi.repository import GLib  # noqa: E402
from bp.encoding import (Bundle, PrimaryBlock, CanonicalBlock, Timestamp, HopCountBlock, BundleAgeBlock,  # noqa: E402
                         PreviousNodeBlock)
from bp.util import BundleContainer  # noqa: E402
from bp.config import Config, TxRouteItem, RxRouteItem  # noqa: E402
import bp.agent  # noqa: E402


# ---- independent implementations ----------------------------------------------------------------------------------
def crc16_x25(data):
    crc = 0xFFFF
    for b in data:
        crc ^= b
        for _ in range(8):
            crc = (crc >> 1) ^ 0x8408 if crc & 1 else crc >> 1
    return crc ^ 0xFFFF


def crc32c(data):
    crc = 0xFFFFFFFF
    for b in data:
        crc ^= b
        for _ in range(8):
            crc = (crc >> 1) ^ 0x82F63B78 if crc & 1 else crc >> 1
    return crc ^ 0xFFFFFFFF


def head(buf, pos):
    '''(major type, argument or None for indefinite, position after the head) of the CBOR item at pos'''
    ib = buf[pos]
    major, ai = ib >> 5, ib & 0x1f
    if ai < 24:
        return major, ai, pos + 1
    if ai in (24, 25, 26, 27):
        n = 1 << (ai - 24)
        return major, int.from_bytes(buf[pos + 1:pos + 1 + n], 'big'), pos + 1 + n
    if ai == 31:
        return major, None, pos + 1
    raise ValueError('reserved additional information %d' % ai)


def skip(buf, pos):
    '''position after the CBOR item at pos'''
    major, arg, p = head(buf, pos)
    if major in (0, 1):
        return p
    if major in (2, 3):
        if arg is None:
            while buf[p] != 0xff:
                p = skip(buf, p)
            return p + 1
        return p + arg
    if major in (4, 5):
        n = arg
        mult = 1 if major == 4 else 2
        if n is None:
            while buf[p] != 0xff:
                p = skip(buf, p)
            return p + 1
        for _ in range(n * mult):
            p = skip(buf, p)
        return p
    if major == 6:
        return skip(buf, p)
    return p      # major 7: simple / float, argument bytes already skipped by head()


def blocks_of(raw):
    '''[(start, end, [(item start, item end)...])] of the block arrays of an encoded bundle'''
    if raw[0] != 0x9f:
        raise ValueError('bundle is not an indefinite-length array')
    out = []
    p = 1
    while raw[p] != 0xff:
        major, n, q = head(raw, p)
        if major != 4 or n is None:
            raise ValueError('block is not a definite-length array')
        items = []
        for _ in range(n):
            e = skip(raw, q)
            items.append((q, e))
            q = e
        out.append((p, q, items))
        p = q
    if p + 1 != len(raw):
        raise ValueError('octets after the end of the bundle')
    return out


def uint_at(raw, span):
    major, arg, _p = head(raw, span[0])
    if major != 0:
        raise ValueError('not an unsigned integer')
    return arg


def check_output_bundle(raw, where, fails):
    try:
        blks = blocks_of(raw)
    except Exception as e:  # noqa
        fails.append({'check': 'O-structure', 'case': where, 'got': str(e)})
        return
    for bi, (s, e, items) in enumerate(blks):
        n = len(items)
        crc_type = uint_at(raw, items[2] if bi == 0 else items[3])
        base = (8, 10) if bi == 0 else (5,)
        if crc_type == 0:
            if n not in base:
                fails.append({'check': 'O-crc-field-with-type-0', 'case': where, 'block': bi, 'items': n})
            continue
        if n not in tuple(x + 1 for x in base) or crc_type not in (1, 2):
            fails.append({'check': 'O-crc-field-missing', 'case': where, 'block': bi, 'items': n, 'crc_type': crc_type})
            continue
        cs, ce = items[-1]
        major, ln, dp = head(raw, cs)
        width = 2 if crc_type == 1 else 4
        if major != 2 or ln != width or ce - dp != width:
            fails.append({'check': 'O-crc-field-shape', 'case': where, 'block': bi})
            continue
        zeroed = raw[s:dp] + bytes(width) + raw[ce:e]
        want = crc16_x25(zeroed) if crc_type == 1 else crc32c(zeroed)
        got = int.from_bytes(raw[dp:ce], 'big')
        if got != want:
            fails.append({'check': 'O-crc-value', 'case': where, 'block': bi, 'got': '%x' % got, 'want': '%x' % want})


# ---- the real agent -------------------------------------------------------------------------------------------------
def new_agent(mtu=None, rx_action='forward'):
    cfg = Config()
    cfg.node_id = 'dtn://me/'
    cfg._bus_conn = dbus.bus.BusConnection()
    GLib.reset()
    ag = bp.agent.Agent(cfg)
    sent = []

    class FakeCl(object):
        serv_name = 'x'

        def send_bundle_func(self, raw):
            return lambda data: sent.append(bytes(data))
    ag._cl_agent['udpcl'] = FakeCl()
    cfg.rx_route_table.append(RxRouteItem(eid_pattern=re.compile(r'dtn://me/.*'), action='deliver'))
    cfg.rx_route_table.append(RxRouteItem(eid_pattern=re.compile(r'.*'), action=rx_action))
    cfg.tx_route_table.append(TxRouteItem(eid_pattern=re.compile(r'.*'), next_nodeid='dtn://n/', cl_type='udpcl',
                                          raw_config={}, mtu=mtu))
    finished = []
    orig = ag._finish_bundle

    def finish(ctr):
        finished.append(ctr)
        return orig(ctr)
    ag._finish_bundle = finish
    return ag, sent, finished


def mk_bundle(crcs, dest='dtn://d/x', flags=0, plen=40, ext=True, report_to='dtn://r/', seq=7):
    '''crcs = (primary, extension blocks, payload) CRC types'''
    cp, ce, cl = crcs
    blocks = []
    if ext:
        blocks.append(CanonicalBlock(type_code=10, block_num=2, crc_type=ce) / HopCountBlock(limit=20, count=3))
        blocks.append(CanonicalBlock(type_code=7, block_num=3, crc_type=ce) / BundleAgeBlock(age=1000))
        blocks.append(CanonicalBlock(type_code=6, block_num=4, crc_type=ce) / PreviousNodeBlock(node='dtn://p/'))
        blocks.append(CanonicalBlock(type_code=192, block_num=5, crc_type=ce, btsd=b'\x01\x02\x03'))
    blocks.append(CanonicalBlock(type_code=1, block_num=1, crc_type=cl, btsd=bytes((i * 7 + 3) % 251 for i in range(plen))))
    b = Bundle(primary=PrimaryBlock(bundle_flags=flags, destination=dest, source='dtn://s/', report_to=report_to,
                                    crc_type=cp, create_ts=Timestamp(dtntime=0, seqno=seq), lifetime=10 ** 9), blocks=blocks)
    b.fill_fields()
    b.update_all_crc()
    return bytes(b)


REPORTS = int(PrimaryBlock.Flag.REQ_RECEPTION_REPORT | PrimaryBlock.Flag.REQ_FORWARDING_REPORT |
              PrimaryBlock.Flag.REQ_DELIVERY_REPORT | PrimaryBlock.Flag.REQ_DELETION_REPORT)


def check_outputs(fails, stats, tier):
    combos = [(0, 0, 0), (1, 1, 1), (2, 2, 2), (1, 2, 0), (2, 0, 1), (0, 1, 2)]
    for crcs in combos:
        for mtu in (None, 120):
            for flags in (0, REPORTS):
                for mode in ('forward', 'deliver', 'originate'):
                    stats['evaluations'] += 1
                    where = {'crcs': list(crcs), 'mtu': mtu, 'flags': flags, 'mode': mode}
                    ag, sent, _fin = new_agent(mtu)
                    dest = 'dtn://me/svc' if mode == 'deliver' else 'dtn://d/x'
                    raw = mk_bundle(crcs, dest=dest, flags=flags, plen=200 if mtu else 40)
                    try:
                        ctr = BundleContainer(Bundle(raw))
                        if mode == 'originate':
                            ag.send_bundle(ctr)
                        else:
                            ag.recv_bundle(ctr)
                        GLib.pump_idle(400)
                    except Exception as e:  # noqa
                        # (an MTU too small for fragmentation makes send_bundle raise: nothing must have left then)
                        if sent:
                            fails.append({'check': 'O-exception-after-output', 'case': where, 'got': '%s: %s' % (type(e).__name__, e)})
                        continue
                    for k, data in enumerate(sent):
                        check_output_bundle(data, dict(where, output=k), fails)
                    stats['outputs'] = stats.get('outputs', 0) + len(sent)


def protected_ranges(raw):
    out = []
    for bi, (s, e, items) in enumerate(blocks_of(raw)):
        crc_type = uint_at(raw, items[2] if bi == 0 else items[3])
        if crc_type:
            out.append((s, e, crc_type))
    return out


def check_one_corruption(raw, mutated, where, fails, stats):
    stats['evaluations'] += 1
    ag, sent, finished = new_agent(None, rx_action='forward')
    try:
        ctr = BundleContainer(Bundle(mutated))
    except Exception:  # noqa
        stats['undecodable'] = stats.get('undecodable', 0) + 1
        return
    try:
        ag.recv_bundle(ctr)
        GLib.pump_idle(100)
    except Exception:  # noqa
        stats['raised'] = stats.get('raised', 0) + 1
    acted = []
    if ag._seen_bundle_ident:
        acted.append('recorded as seen')
    if sent:
        acted.append('%d bundle(s) transmitted' % len(sent))
    if finished:
        acted.append('finished with actions %s' % sorted(finished[0].actions))
    if ag._fwd_queue:
        acted.append('queued for forwarding')
    if acted:
        # (the cause that used to be accepted here -- the CRC compared with one over the block re-encoded from its decoded
        # values -- is repaired in the repository, see known_findings.json; every corrupted bundle acted on is a failure)
        name = 'I-corrupted-bundle-acted-on'
        fails.append({'check': name, 'case': where, 'got': acted, 'original_hex': raw.hex(), 'mutated_hex': mutated.hex()})


def check_inputs(fails, stats, tier):
    bundles = [('crc16', mk_bundle((1, 1, 1), flags=REPORTS, plen=12)), ('crc32', mk_bundle((2, 2, 2), flags=REPORTS, plen=12))]
    if tier == 'thorough':
        bundles.append(('mixed', mk_bundle((1, 2, 1), flags=REPORTS, plen=30)))
    for name, raw in bundles:
        # sanity: the unmodified bundle is acted on
        ag, sent, finished = new_agent(None)
        ag.recv_bundle(BundleContainer(Bundle(raw)))
        GLib.pump_idle(100)
        if not ag._seen_bundle_ident:
            fails.append({'check': 'I-valid-bundle-not-accepted', 'case': {'bundle': name}})
            continue
        for (s, e, crc_type) in protected_ranges(raw):
            width = 16 if crc_type == 1 else 32
            step = 1 if tier == 'thorough' or (e - s) <= 40 else 1
            for byte in range(s, e, step):
                for bit in range(8):
                    m = bytearray(raw)
                    m[byte] ^= 1 << bit
                    check_one_corruption(raw, bytes(m), {'bundle': name, 'flip': [byte, bit]}, fails, stats)
            # bursts: runs of 2..width inverted bits starting at every 5th bit position (every position when thorough)
            nbits = (e - s) * 8
            for start in range(0, nbits, 1 if tier == 'thorough' else 5):
                for ln in ((2, 3, 7, 8, 9, width) if tier == 'thorough' else (3, 8, width)):
                    if start + ln > nbits:
                        continue
                    m = bytearray(raw)
                    for k in range(start, start + ln):
                        m[s + k // 8] ^= 0x80 >> (k % 8)
                    check_one_corruption(raw, bytes(m), {'bundle': name, 'burst': [s, start, ln]}, fails, stats)

    # the CRC item itself is the one item the CRC does not cover: its head retyped from byte string to text string (one
    # bit) or to an array (two bits), for bundles whose CRC octets make the retyped item decodable (valid UTF-8 / every
    # octet below 24, where scapy_cbor's BstrField gives back the same octets)
    for seq in range(100, 100 + (400 if tier == 'thorough' else 120)):
        for name, crcs in (('crc16/seq%d' % seq, (1, 1, 1)), ('crc32/seq%d' % seq, (2, 2, 2))):
            raw = mk_bundle(crcs, flags=REPORTS, plen=12, seq=seq)
            for bi, (s_, e_, items) in enumerate(blocks_of(raw)):
                cs, ce = items[-1]
                major, n, q = head(raw, cs)
                if major != 2 or n not in (2, 4):
                    continue
                octets = raw[q:ce]
                kinds = []
                try:
                    octets.decode('utf8')
                    kinds.append(('text', 0x20))
                except UnicodeDecodeError:
                    pass
                if all(o < 0x18 for o in octets):
                    kinds.append(('array', 0xC0))
                for kind, mask in kinds:
                    m = bytearray(raw)
                    m[cs] ^= mask
                    stats['crc_item_retyped'] = stats.get('crc_item_retyped', 0) + 1
                    check_one_corruption(raw, bytes(m), {'bundle': name, 'block': bi, 'crc_item_as': kind}, fails, stats)


def main(argv):
    tier = 'quick'
    if '--tier' in argv:
        tier = argv[argv.index('--tier') + 1]
    fails, stats = [], {'evaluations': 0}
    if '--replay' in argv:
        with open(argv[argv.index('--replay') + 1]) as f:
            one = json.load(f).get('failure') or {}
        print('replay of bounded check %s' % one.get('check'))
        if one.get('mutated_hex'):
            check_one_corruption(bytes.fromhex(one['original_hex']), bytes.fromhex(one['mutated_hex']), one.get('case'), fails, stats)
        else:
            check_outputs(fails, stats, tier)
        print('  observed: %s' % json.dumps(fails)[:1500])
        print('REPRODUCED' if fails else 'NOT-REPRODUCED')
        return 1 if fails else 0
    check_outputs(fails, stats, tier)
    check_inputs(fails, stats, tier)
    out = {'tool': 'independent bit-wise CRC-16/X.25 and CRC-32C and an independent CBOR splitter against the real agent',
           'bound': 'outputs: 6 CRC-type assignments x MTU none/120 x report flags off/all x forward / deliver / originate '
                    '(%d transmitted bundles checked); inputs: 2 bundles (3 when thorough), every single-bit flip and bursts of '
                    '3 / 8 / CRC-width bits (2..width at every position when thorough) inside CRC-protected blocks; '
                    '%d bundles whose CRC item was retyped to a text string / an array of small integers that decodes to the '
                    'same octets (searched over 120 creation sequence numbers, 400 when thorough); '
                    '%d corruptions did not even decode' % (stats.get('outputs', 0), stats.get('crc_item_retyped', 0),
                                                            stats.get('undecodable', 0)),
           'evaluations': stats['evaluations'], 'distinct_nontrivial': stats['evaluations'],
           'rule': 'one case = one agent run (one scenario, or one corrupted copy fed to a fresh agent)',
           'samples': [], 'failures': fails[:60], 'failure_count': len(fails), 'exhaustive': False}
    print(json.dumps(out))
    return 1 if fails else 0


if __name__ == '__main__':
    sys.exit(main(sys.argv[1:]))
