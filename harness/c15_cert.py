"""Concrete twin of the certificate model used by the C15 contracts: builds a real DER certificate
whose subjectAltName holds the IP / DNS / URI identifiers of a solver model, and the concrete
versions of the specification functions san_ip / san_dns / san_uri / ip_of / peer_addr / present."""
import datetime
import ipaddress
import json


def _key(d):
    return json.dumps(d, sort_keys=True)


class Names(object):
    '''Distinct abstract values -> distinct concrete identifiers (equal ones -> equal).'''

    def __init__(self):
        self.ip = {}
        self.s = {}

    def ipaddr(self, d):
        k = _key(d)
        if k not in self.ip:
            self.ip[k] = '192.0.2.%d' % (len(self.ip) + 1)
        return self.ip[k]

    def text(self, d, fmt):
        k = _key(d)
        if k not in self.s:
            self.s[k] = fmt % (len(self.s) + 1)
        return self.s[k]


def make_cert(ips, dnss, uris):
    from cryptography import x509
    from cryptography.hazmat.primitives import hashes, serialization
    from cryptography.hazmat.primitives.asymmetric import ec
    from cryptography.x509.oid import NameOID
    key = ec.generate_private_key(ec.SECP256R1())
    name = x509.Name([x509.NameAttribute(NameOID.COMMON_NAME, u'replay')])
    now = datetime.datetime(2024, 1, 1)
    b = (x509.CertificateBuilder().subject_name(name).issuer_name(name).public_key(key.public_key())
         .serial_number(1).not_valid_before(now).not_valid_after(now + datetime.timedelta(days=3650)))
    sans = [x509.IPAddress(ipaddress.ip_address(i)) for i in ips]
    sans += [x509.DNSName(d) for d in dnss]
    sans += [x509.UniformResourceIdentifier(u) for u in uris]
    if sans:
        b = b.add_extension(x509.SubjectAlternativeName(sans), critical=False)
    cert = b.sign(key, hashes.SHA256())
    return cert.public_bytes(serialization.Encoding.DER)


def setup(hdl, probes, FakeSocket):
    '''Arrange the handler so that the real merge_session_params sees the identifiers of the model.
    -> (notes, namespace additions for the concrete evaluation of the C15 specification functions)'''
    n = Names()
    notes = []
    passive = bool(probes.get('as_passive'))
    peer_ip = n.ipaddr(probes.get('ip_ref'))
    ips = [n.ipaddr(x) for x in (probes.get('san_ip') or []) if isinstance(x, dict) and 'truncated_len' not in x]
    # strings: the peer name and the DNS names share one name space, node ids and URIs another
    dns_ref_exists = bool(probes.get('dns_ref_exists'))
    if dns_ref_exists:
        peer_name = n.text(probes.get('peer_name'), 'h%d.example.org')
    else:
        peer_name = peer_ip        # passive side, or connect() was given the textual address
    dnss = [n.text(x, 'h%d.example.org') for x in (probes.get('san_dns') or [])
            if isinstance(x, dict) and 'truncated_len' not in x]
    node = n.text(probes.get('node_ref'), 'dtn://n%d/')
    uris = [n.text(x, 'dtn://n%d/') for x in (probes.get('san_uri') or [])
            if isinstance(x, dict) and 'truncated_len' not in x]
    secured = bool(probes.get('secured'))
    hdl._as_passive = passive
    hdl._peer_name = peer_name
    if hdl._sessinit_peer is not None:
        hdl._sessinit_peer.nodeid_data = node
    hdl._config.require_host_authn = bool(probes.get('require_host_authn'))
    hdl._config.require_node_authn = bool(probes.get('require_node_authn'))
    plain = hdl._Connection__s_notls
    if plain is not None:
        plain.peer = (peer_ip, 4556)
    if secured:
        tls = FakeSocket(peer=(peer_ip, 4556), name='tls')
        tls.cert_der = make_cert(ips, dnss, uris)
        hdl._Connection__s_tls = tls
    else:
        hdl._Connection__s_tls = None
    notes.append('C15 scenario: passive=%s peer=%s name=%s node=%s SAN ip=%s dns=%s uri=%s host_authn=%s node_authn=%s'
                 % (passive, peer_ip, peer_name, node, ips, dnss, uris, hdl._config.require_host_authn,
                    hdl._config.require_node_authn))

    def _sans(kind):
        def f(s):
            return {'ip': [ipaddress.ip_address(i) for i in ips], 'dns': list(dnss), 'uri': list(uris)}[kind] \
                if secured else []
        return f
    ns = {'san_ip': _sans('ip'), 'san_dns': _sans('dns'), 'san_uri': _sans('uri'),
          'ip_of': ipaddress.ip_address, 'peer_addr': lambda s: peer_ip, 'present': lambda lst: len(lst) > 0}
    return notes, ns
