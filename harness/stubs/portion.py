"""Minimal stand-in for the `portion` package (not installed): sets of half-open integer/real
intervals [lo, hi) with union, intersection, containment and equality -- the part bp.app.fragment and
udpcl use (closedopen, empty, |, ==, iteration over atomic intervals, .lower/.upper)."""


class Interval(object):
    def __init__(self, parts=()):
        self._parts = self._norm(parts)

    @staticmethod
    def _norm(parts):
        ps = sorted((lo, hi) for lo, hi in parts if lo < hi)
        out = []
        for lo, hi in ps:
            if out and lo <= out[-1][1]:
                out[-1] = (out[-1][0], max(out[-1][1], hi))
            else:
                out.append((lo, hi))
        return tuple(out)

    @property
    def empty(self):
        return not self._parts

    @property
    def atomic(self):
        return len(self._parts) <= 1

    @property
    def lower(self):
        return self._parts[0][0]

    @property
    def upper(self):
        return self._parts[-1][1]

    def __or__(self, other):
        return Interval(self._parts + other._parts)

    def __and__(self, other):
        out = []
        for a, b in self._parts:
            for c, d in other._parts:
                lo, hi = max(a, c), min(b, d)
                if lo < hi:
                    out.append((lo, hi))
        return Interval(out)

    def __eq__(self, other):
        return isinstance(other, Interval) and self._parts == other._parts

    def __ne__(self, other):
        return not self == other

    def __hash__(self):
        return hash(self._parts)

    def __iter__(self):
        return iter(Interval([p]) for p in self._parts)

    def __len__(self):
        return len(self._parts)

    def __contains__(self, item):
        if isinstance(item, Interval):
            return (self & item) == item
        return any(lo <= item < hi for lo, hi in self._parts)

    def contains(self, item):
        return item in self

    def __repr__(self):
        return ' | '.join('[%r,%r)' % p for p in self._parts) or '()'


def closedopen(lo, hi):
    return Interval([(lo, hi)])


def empty():
    return Interval()


# ---- discrete (integer) intervals as btpu.agent uses them --------------------------------------------------------
class AbstractDiscreteInterval(Interval):
    '''Integer-domain intervals: closed(a, b) is {a, ..., b}; adjacent intervals merge (held as half-open ranges
    [lo, hi + 1) of integers).'''
    _step = 1


class _Api(object):
    def __init__(self, cls):
        self._cls = cls

    def empty(self):
        return self._cls()

    def singleton(self, x):
        return self._cls([(x, x + 1)])

    def closed(self, lo, hi):
        return self._cls([(lo, hi + 1)])

    def closedopen(self, lo, hi):
        return self._cls([(lo, hi)])


def create_api(cls):
    return _Api(cls)


def _same_class(self, other):
    return type(self)(self._parts + other._parts)


Interval.__or__ = _same_class


def iterate(interval, step=1):
    for lo, hi in interval._parts:
        x = lo
        while x < hi:
            yield x
            x += step
