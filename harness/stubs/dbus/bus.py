BUS_SESSION = 0
BUS_SYSTEM = 1


class _Proxy(object):
    def __init__(self, name, path):
        self.name, self.path = name, path

    def connect_to_signal(self, *a, **kw):
        return None

    def NameHasOwner(self, name):
        return False

    def __getattr__(self, n):
        def f(*a, **kw):
            return None
        return f


class BusConnection(object):
    def __init__(self, addr=None):
        self.addr = addr
        self.objects = {}

    def get_object(self, name, path, **kw):
        return self.objects.get((name, path)) or _Proxy(name, path)

    def get_unique_name(self):
        return ':1.0'
