def DBusGMainLoop(*a, **kw):
    return None
