"""Import stand-in for dbus-python (absent in the sandbox).  Signals are
recorded and type-checked against the declared signature (assumed contract of
dbus-python marshalling, DESIGN §3)."""
from . import service, bus, exceptions  # noqa
from .exceptions import DBusException


class String(str):
    pass


class ObjectPath(str):
    pass


class Array(list):
    def __init__(self, *a, **kw):
        kw.pop('signature', None)
        list.__init__(self, *a)


class Dictionary(dict):
    def __init__(self, *a, **kw):
        kw.pop('signature', None)
        dict.__init__(self, *a)


class ByteArray(bytes):
    pass


class Byte(int):
    pass


class UInt64(int):
    pass


class Boolean(int):
    pass


class Interface(object):
    def __init__(self, obj, iface):
        self._obj = obj
        self._iface = iface

    def __getattr__(self, name):
        return getattr(self._obj, name)

    def connect_to_signal(self, name, func, **kw):
        if hasattr(self._obj, 'connect_to_signal'):
            return self._obj.connect_to_signal(name, func, **kw)
