class DBusException(Exception):
    pass
