"""dbus.service stand-in: decorators keep the declared signatures and check
every emission / return value against them."""
import functools

SIGNAL_LOG = []          # (object, name, args)
TYPE_ERRORS = []         # (kind, name, detail)
INT_RANGES = {'y': (0, 255), 'n': (-2 ** 15, 2 ** 15 - 1), 'q': (0, 2 ** 16 - 1), 'i': (-2 ** 31, 2 ** 31 - 1),
              'u': (0, 2 ** 32 - 1), 'x': (-2 ** 63, 2 ** 63 - 1), 't': (0, 2 ** 64 - 1)}


def split_signature(sig):
    out = []
    i = 0

    def one(i):
        c = sig[i]
        if c == 'a':
            return one(i + 1)
        if c in '({':
            close = ')' if c == '(' else '}'
            depth = 1
            j = i + 1
            while depth:
                if sig[j] == c:
                    depth += 1
                elif sig[j] == close:
                    depth -= 1
                j += 1
            return j
        return i + 1
    while i < len(sig):
        j = one(i)
        out.append(sig[i:j])
        i = j
    return out


def conforms(val, code):
    if val is None:
        return False
    if code in INT_RANGES:
        if isinstance(val, bool):
            return True
        if not isinstance(val, int):
            return False
        lo, hi = INT_RANGES[code]
        return lo <= val <= hi
    if code == 'b':
        return isinstance(val, int)
    if code in ('s', 'o'):
        return isinstance(val, str)
    if code == 'd':
        return isinstance(val, (int, float))
    if code == 'v':
        if isinstance(val, bool) or isinstance(val, (str, bytes, float)):
            return True
        if isinstance(val, int):
            return -2 ** 31 <= val <= 2 ** 31 - 1
        if isinstance(val, (list, tuple)):
            return len(val) > 0 and all(conforms(x, 'v') for x in val)
        if isinstance(val, dict):
            return all(conforms(x, 'v') for x in val.values())
        return False
    if code.startswith('a{'):
        if not isinstance(val, dict):
            return False
        k, v = code[2], code[3:-1]
        return all(conforms(a, k) and conforms(b, v) for a, b in val.items())
    if code == 'ay':
        return isinstance(val, (bytes, bytearray)) or (isinstance(val, (list, tuple)) and all(conforms(x, 'y') for x in val))
    if code.startswith('a'):
        try:
            return all(conforms(x, code[1:]) for x in val)
        except TypeError:
            return False
    if code.startswith('('):
        parts = split_signature(code[1:-1])
        return isinstance(val, (tuple, list)) and len(val) == len(parts) and all(conforms(a, p) for a, p in zip(val, parts))
    return True


class Object(object):
    def __init__(self, conn=None, object_path=None, bus_name=None, **kw):
        self._conn = conn
        self._object_path = object_path
        self._locations = [(conn, object_path, False)] if object_path else []

    @property
    def locations(self):
        return iter(self._locations)

    def remove_from_connection(self, connection=None, path=None):
        self._locations = []


class BusName(object):
    def __init__(self, name=None, bus=None, **kw):
        self._name = name

    def get_name(self):
        return self._name


def signal(dbus_interface, signature=''):
    def deco(func):
        @functools.wraps(func)
        def emit(self, *args, **kw):
            parts = split_signature(signature)
            if len(parts) != len(args) or not all(conforms(a, p) for a, p in zip(args, parts)):
                TYPE_ERRORS.append(('signal', func.__name__, (signature, args)))
            SIGNAL_LOG.append((self, func.__name__, args))
            for cb in getattr(self, '_sig_listeners', {}).get(func.__name__, []):
                cb(*args)
            return func(self, *args, **kw)
        emit._dbus_signature = signature
        emit._dbus_is_signal = True
        return emit
    return deco


def method(dbus_interface, in_signature='', out_signature='', **kw):
    def deco(func):
        @functools.wraps(func)
        def call(self, *args, **kwargs):
            res = func(self, *args, **kwargs)
            if out_signature:
                parts = split_signature(out_signature)
                ok = conforms(res, parts[0]) if len(parts) == 1 else conforms(res, '(' + out_signature + ')')
                if not ok:
                    TYPE_ERRORS.append(('method', func.__name__, (out_signature, res)))
            return res
        call._dbus_in_signature = in_signature
        call._dbus_out_signature = out_signature
        call._dbus_is_method = True
        return call
    return deco
