"""Stand-in for ifaddr (not installed): no adapters."""


def get_adapters():
    return []
