"""Stand-in for psutil (not installed): no network interfaces."""
AF_LINK = 17


def net_if_addrs():
    return {}
