def safe_load(f):
    import json
    data = f.read() if hasattr(f, 'read') else f
    return json.loads(data) if data and data.strip() else None
