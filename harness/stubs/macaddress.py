"""Minimal stand-in for the `macaddress` package (not installed): hardware addresses as octet strings."""


class HWAddress(object):
    size = 48

    def __init__(self, value):
        if isinstance(value, HWAddress):
            value = bytes(value)
        if isinstance(value, str):
            value = bytes(int(p, 16) for p in value.replace('-', ':').split(':'))
        if isinstance(value, int):
            value = value.to_bytes(self.size // 8, 'big')
        self._b = bytes(value)

    def __bytes__(self):
        return self._b

    def __str__(self):
        return '-'.join('%02X' % b for b in self._b)

    __repr__ = __str__

    def __eq__(self, other):
        return isinstance(other, HWAddress) and self._b == other._b

    def __hash__(self):
        return hash(self._b)


class EUI48(HWAddress):
    size = 48
