"""Stand-in for certvalidator (its oscrypto back end cannot load libcrypto in the sandbox): only used to let
bp.app.bpsec import; certificate path validation itself is never exercised by the replays."""


class ValidationContext(object):
    def __init__(self, *args, **kwargs):
        self.args, self.kwargs = args, kwargs


class CertificateValidator(object):
    def __init__(self, *args, **kwargs):
        self.args, self.kwargs = args, kwargs

    def validate_usage(self, *args, **kwargs):
        return []
