"""Stand-in for zeroconf (not installed): import-only."""


class _Any(object):
    def __init__(self, *args, **kwargs):
        pass

    def __getattr__(self, name):
        return _Any()

    def __call__(self, *args, **kwargs):
        return _Any()


IPVersion = _Any()
ServiceBrowser = ServiceInfo = ServiceStateChange = Zeroconf = ServiceListener = _Any
