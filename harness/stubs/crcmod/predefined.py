"""Bit-wise reference CRCs (x-25 and crc-32c), used only for replay / bounded tier."""


def _reflected(poly_rev, width, init, xorout):
    mask = (1 << width) - 1

    def crc(data, _init=None):
        reg = init
        for b in bytes(data):
            reg ^= b
            for _ in range(8):
                reg = (reg >> 1) ^ poly_rev if reg & 1 else reg >> 1
        return (reg ^ xorout) & mask
    return crc


_DEFS = {'x-25': _reflected(0x8408, 16, 0xFFFF, 0xFFFF), 'crc-32c': _reflected(0x82F63B78, 32, 0xFFFFFFFF, 0xFFFFFFFF)}


def mkPredefinedCrcFun(name):
    return _DEFS[name]
