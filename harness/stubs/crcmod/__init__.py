from . import predefined  # noqa
