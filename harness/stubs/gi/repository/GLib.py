"""Virtual GLib main loop: sources are recorded; the harness pumps them."""
IO_IN = 1
IO_OUT = 4
IO_HUP = 16
IO_ERR = 8
PRIORITY_DEFAULT = 0

SOURCES = {}      # id -> dict(kind, func, args, delay, due)
_next = [1]
NOW = [0]


def _add(kind, func, args, delay=None, extra=None):
    sid = _next[0]
    _next[0] += 1
    SOURCES[sid] = dict(kind=kind, func=func, args=args, delay=delay, due=(NOW[0] + delay) if delay is not None else None, extra=extra)
    return sid


def idle_add(func, *args, **kw):
    return _add('idle', func, args)


def timeout_add(ms, func, *args, **kw):
    return _add('timeout', func, args, delay=ms)


def timeout_add_seconds(s, func, *args, **kw):
    return _add('timeout', func, args, delay=1000 * s)


def io_add_watch(sock, cond, func, *args, **kw):
    if not isinstance(cond, int):
        cond, func = func, cond
    return _add('io', func, args, extra=(sock, cond))


def source_remove(sid):
    return SOURCES.pop(sid, None) is not None


def reset():
    SOURCES.clear()
    _next[0] = 1
    NOW[0] = 0


def run_source(sid):
    src = SOURCES.get(sid)
    if src is None:
        return None
    if src['kind'] == 'io':
        keep = src['func'](src['extra'][0], src['extra'][1], *src['args'])
    else:
        keep = src['func'](*src['args'])
    if not keep and src['kind'] != 'io':
        SOURCES.pop(sid, None)
    elif not keep:
        SOURCES.pop(sid, None)
    elif src['kind'] == 'timeout' and sid in SOURCES:
        SOURCES[sid]['due'] = NOW[0] + src['delay']
    return keep


def pump_idle(limit=1000):
    """Run idle sources until none is left (or limit)."""
    n = 0
    while n < limit:
        ids = [i for i, s in SOURCES.items() if s['kind'] == 'idle']
        if not ids:
            break
        for i in ids:
            if i in SOURCES:
                run_source(i)
                n += 1
    return n


def advance(ms):
    """Advance virtual time, firing due timeouts in order."""
    target = NOW[0] + ms
    while True:
        due = [(s['due'], i) for i, s in SOURCES.items() if s['kind'] == 'timeout' and s['due'] <= target]
        if not due:
            break
        t, i = min(due)
        NOW[0] = max(NOW[0], t)
        run_source(i)
    NOW[0] = target


class MainLoop(object):
    def run(self):
        pass

    def quit(self):
        pass
