from . import GLib  # noqa
