"""Path setup for running the real repo code under the stub environment."""
import os
import sys

STUBS = os.path.join(os.path.dirname(os.path.abspath(__file__)), 'stubs')
REPO_SRC = os.environ.get('PYVC_REPO_SRC', '/repo/src')


def setup():
    for p in (REPO_SRC, STUBS):
        if p in sys.path:
            sys.path.remove(p)
    sys.path.insert(0, REPO_SRC)
    sys.path.insert(0, STUBS)
    sys.path.insert(1, REPO_SRC)
