"""C13 -- BOUNDED stand-in, never counted as proved.

The proof part (contracts/udpcl_agent.py) sizes transfer segments with an assumed encoding-length rule for cbor2
and takes cbor2.load as the inverse of cbor2.dumps; the per-message handling of a datagram (several messages,
padding) and the octets of the reassembly buffer are not in the proof.  Here, on the real code:

  R1  len(cbor2.dumps(x)) for the extension maps the agent builds equals the RFC 8949 size the contracts use,
      at the head boundaries 23/24, 255/256, 65535/65536
  S   Agent._send_transfer over a grid of bundle lengths x MTUs: one datagram (the bundle) or segments each
      <= MTU that decode to (id, total, offset, data) tiling the bundle exactly
  R   a receiving Agent fed those segments through Agent._recv_datagram in every order (all permutations up to
      5 segments, seeded shuffles above), with repeats, interleaved with a second transfer of the same id from
      another peer port and a second transfer id from the same peer: nothing queued while octets are missing,
      exactly one bundle per transfer once complete, equal to the original
  M   datagrams composed of several messages (bundle + bundle, segment + bundle) and trailing padding are
      handled per message

MTUs that leave no room for a single octet of data per segment (MTU <= 3 + head(id) + 3 * head(total)) must be
refused with ValueError before anything is produced (repaired defect: the segmentation loop used not to end).

Usage:  c13_bounded.py [--tier quick|thorough] [--replay FILE]   -> JSON on stdout, exit 0 ok / 1 failure.
"""
import itertools
import json
import logging
import os
import random
import sys
from io import BytesIO

HERE = os.path.dirname(os.path.abspath(__file__))
sys.path.insert(0, HERE)
import env  # noqa: E402
env.setup()
logging.disable(logging.CRITICAL)

import cbor2  # noqa: E402
import dbus.bus  # noqa: E402
import ipaddress  # noqa: E402
from gi.repository import GLib  # noqa: E402
import udpcl.agent as ua  # noqa: E402
from udpcl.config import Config  # noqa: E402


def hsize(n):
    return 1 if n < 24 else 2 if n < 256 else 3 if n < 65536 else 5 if n < 2 ** 32 else 9


def spec_size(tid, total, off, ln):
    return 1 + 1 + 1 + hsize(tid) + hsize(total) + hsize(off) + hsize(ln) + ln


def bundle_of(n, salt=0):
    # looks like a CBOR array (major type 4, indefinite) so that a whole bundle is taken as a bundle message
    body = bytes((i * 11 + 5 + salt * 17) % 253 for i in range(max(0, n - 2)))
    if n < 2:
        return b'\x80'[:n] if n else b''
    inner = cbor2.dumps(body)
    # [ bstr ] as definite array of one byte string, padded to the wanted length by the data itself
    out = b'\x81' + inner
    return out


def exact_bundle(n, salt=0, zeros=False):
    '''a CBOR item of exactly n octets whose first octet has major type 4 (n >= 1); zeros: a zero-filled payload, so
    that transfer segments end in 0x00 octets (what padding looks like)'''
    if n == 1:
        return b'\x80'

    def fill(k):
        return bytes(k) if zeros else bytes((i * 11 + 5 + salt * 17) % 253 for i in range(k))
    for k in range(max(0, n - 12), n):
        cand = b'\x81' + cbor2.dumps(fill(k))
        if len(cand) == n:
            return cand
    # lengths just above a head boundary cannot be hit with one byte string: use two items
    for k in range(max(0, n - 14), n):
        cand = b'\x82\x00' + cbor2.dumps(fill(k))
        if len(cand) == n:
            return cand
    raise ValueError(n)


def new_agent(mtu=None):
    cfg = Config()
    cfg._bus_conn = dbus.bus.BusConnection()
    cfg.mtu_default = mtu
    GLib.reset()
    return ua.Agent(cfg)


def segments_of(data, mtu, tid, limit=100000):
    ag = new_agent(mtu)
    ag._tx_id = tid
    item = ua.BundleItem(address='127.0.0.1', port=4556, file=BytesIO(data))
    ag._add_tx_item(item)
    return list(itertools.islice(ag._send_transfer(item), limit)), item


def conv_for(port, addr='192.0.2.7'):
    return ua.Conversation(family=2, peer_address=ipaddress.ip_address(addr), peer_port=port,
                           local_address=ipaddress.ip_address('192.0.2.1'), local_port=4556)


def queued(ag):
    out = []
    for k in sorted(ag._rx_queue):
        f = ag._rx_queue[k].file
        f.seek(0)
        out.append(f.read())
    return out


def check_length_rule(fails, stats):
    for tid in (0, 23, 24, 255, 256, 65535, 65536):
        for total in (0, 23, 24, 255, 256, 65535, 65536, 2 ** 32):
            for off in (0, 23, 24, 255, 256, 65535, 65536):
                for ln in (0, 1, 23, 24, 255, 256):
                    stats['evaluations'] += 1
                    got = len(cbor2.dumps({ua.ExtensionKey.TRANSFER: [tid, total, off, bytes(ln)]}))
                    if got != spec_size(tid, total, off, ln):
                        fails.append({'check': 'R1', 'case': {'tid': tid, 'total': total, 'off': off, 'len': ln}, 'got': got,
                                      'want': spec_size(tid, total, off, ln)})
                        return


def check_send(n, mtu, tid, fails, stats):
    '''-> (data, segments) or None'''
    stats['evaluations'] += 1
    case = {'length': n, 'mtu': mtu, 'tid': tid}
    # (every other length of the receive runs carries a zero-filled payload: segments ending in 0x00)
    data = exact_bundle(n, zeros=(tid == 24 and n % 20 == 0)) if n >= 1 else b''
    tiny = mtu is not None and n >= mtu and mtu <= 3 + hsize(tid) + 3 * hsize(n)
    import signal

    def too_long(_s, _f):
        raise TimeoutError('segmentation did not finish within 60 s')
    signal.signal(signal.SIGALRM, too_long)
    signal.alarm(60)
    try:
        segs, item = segments_of(data, mtu, tid, limit=4 * n + 8)
    except ValueError as e:
        # an MTU that cannot carry a single octet of data per segment is refused; nothing is produced
        if not tiny:
            fails.append({'check': 'S-refused-although-possible', 'case': case, 'got': str(e)})
        return None
    except Exception as e:  # noqa
        fails.append({'check': 'S-exception', 'case': case, 'got': '%s: %s' % (type(e).__name__, e)})
        return None
    finally:
        signal.alarm(0)
    name = None
    if tiny:
        fails.append({'check': 'S-tiny-mtu-not-refused', 'case': case, 'got': [len(x) for x in segs][:8]})
        return None
    if mtu is None or n < mtu:
        if segs != [data]:
            fails.append({'check': name or 'S-whole', 'case': case, 'got': [len(s) for s in segs][:8]})
            return None
        return data, segs
    if len(segs) == 1 and segs[0] == data and n <= mtu:
        return data, segs
    pos = 0
    for k, s in enumerate(segs):
        if len(s) > mtu:
            fails.append({'check': name or 'S-over-mtu', 'case': case, 'segment': k, 'got': len(s)})
            return None
        try:
            m = cbor2.loads(s)
            xid, total, off, frag = m[ua.ExtensionKey.TRANSFER]
        except Exception as e:  # noqa
            fails.append({'check': name or 'S-not-a-segment', 'case': case, 'segment': k, 'got': str(e)})
            return None
        if list(m.keys()) != [ua.ExtensionKey.TRANSFER] or xid != tid or total != n or off != pos or not frag or \
                frag != data[pos:pos + len(frag)]:
            fails.append({'check': name or 'S-tiling', 'case': case, 'segment': k, 'offset': off, 'expected': pos})
            return None
        pos += len(frag)
    if pos != n:
        fails.append({'check': name or 'S-tiling', 'case': case, 'covered': pos})
        return None
    return data, segs


def feed(order, fails, stats, label, case):
    '''order: list of (port, segment bytes, key); expectations computed from what each segment carries'''
    stats['evaluations'] += 1
    ag = new_agent()
    need, got, done, want_data = {}, {}, [], {}
    for (port, seg, key, data) in order:
        want_data[key] = data
        need[key] = len(data)
        got.setdefault(key, set())
    for step, (port, seg, key, data) in enumerate(order):
        try:
            ag._recv_datagram(None, seg, conv_for(port))
        except Exception as e:  # noqa
            fails.append({'check': 'R-exception', 'label': label, 'case': case, 'step': step, 'got': '%s: %s' % (type(e).__name__, e)})
            return
        m = cbor2.loads(seg)
        _x, _t, off, frag = m[ua.ExtensionKey.TRANSFER]
        got[key] |= set(range(off, off + len(frag)))
        if key not in done and len(got[key]) == need[key]:
            done.append(key)
            got[key] = set()      # a transfer whose segments all arrive again may be queued again: allowed
        q = queued(ag)
        want = [want_data[k] for k in done]
        if sorted(q) != sorted(want):
            fails.append({'check': 'R-queue', 'label': label, 'case': case, 'step': step, 'queued': [len(x) for x in q],
                          'expected': [len(x) for x in want]})
            return


def check_range_codec(fails, stats, rnd, tier):
    """Run-time cross-check of the contracts of range_encode / range_decode (contracts/udpcl_range.py) on the real
    functions: enumerated and random normalised interval sets; what the proof assumes about iteration (atomic intervals in
    ascending order, with .lower / .upper) is what the interval library stand-in (harness/stubs/portion.py) does."""
    import portion
    import udpcl.agent as UA
    sets = [[]]
    for n in range(1, 4):
        for bounds in itertools.combinations(range(0, 9), 2 * n):
            atoms = [(bounds[2 * i], bounds[2 * i + 1]) for i in range(n)]
            if all(atoms[i][1] < atoms[i + 1][0] for i in range(n - 1)):
                sets.append(atoms)
    for _ in range(200 if tier == 'quick' else 3000):
        n = rnd.randint(1, 12)
        pts = sorted(rnd.sample(range(0, 100000), 2 * n))
        atoms = [(pts[2 * i], pts[2 * i + 1]) for i in range(n)]
        if all(atoms[i][1] < atoms[i + 1][0] for i in range(n - 1)):
            sets.append(atoms)
    for atoms in sets:
        stats['evaluations'] += 1
        iv = portion.empty()
        for lo, hi in atoms:
            iv |= portion.closedopen(lo, hi)
        case = {'intervals': atoms[:6], 'count': len(atoms)}
        try:
            pairs = UA.range_encode(iv)
            back = UA.range_decode(pairs)
        except Exception as e:  # noqa
            fails.append({'check': 'G-range-exception', 'case': case, 'got': '%s: %s' % (type(e).__name__, e)})
            continue
        want = []
        last = 0
        for lo, hi in atoms:
            want += [lo - last, hi - lo]
            last = hi
        if pairs != want or any(p < 0 for p in pairs):
            fails.append({'check': 'G-range-encoding', 'case': case, 'got': pairs[:12], 'expected': want[:12]})
        elif back != iv:
            fails.append({'check': 'G-range-round-trip', 'case': case, 'got': str(back)[:200]})


def check_tx_path(fails, stats, tier):
    """The transmit path behind the segmentation: send_bundle_fileobj -> _process_tx_queue -> TxSendWait pacing -> socket,
    on a real agent with a recording UDP socket and a virtual clock (scaffolding of seeded/C13_e/demo_C13_e.py).  Every
    datagram handed to the socket is within the MTU -- also for the agent's first transfer (id 0) --, each transfer's
    datagrams reassemble at a fresh receiver to the bundle, bundles that fit go out as one datagram."""
    import importlib.util
    spec = importlib.util.spec_from_file_location(
        'c13_txscaffold', os.path.join(os.path.dirname(HERE), 'seeded', 'C13_e', 'demo_C13_e.py'))
    S = importlib.util.module_from_spec(spec)
    spec.loader.exec_module(S)
    n = 0
    for mtu in ((40, 64, 300) if tier == 'quick' else (40, 41, 64, 100, 300, 1400)):
        for order in ((3 * mtu + 5, mtu - 10, 2 * mtu), (mtu - 10, 3 * mtu + 5), (mtu, mtu + 1, mtu - 1)):
            n += 1
            GLib.reset()
            del S.SOCKS[:]
            ag = S.make_agent(mtu, '/c13/tx%d' % n)
            for k, length in enumerate(order):
                stats['evaluations'] += 1
                case = {'tx_path': True, 'mtu': mtu, 'lengths': list(order), 'transfer': k}
                data = S.make_bundle(max(length, 4), k)
                try:
                    _bid, dgrams = S.run_sender(ag, data, '192.0.2.9')
                except Exception as e:  # noqa
                    fails.append({'check': 'T-tx-exception', 'case': case, 'got': '%s: %s' % (type(e).__name__, e)})
                    break
                big = [len(d) for d, _a in dgrams if len(d) > mtu]
                if big:
                    fails.append({'check': 'T-tx-over-mtu', 'case': case, 'got': big[:5], 'datagrams': len(dgrams)})
                    break
                if len(data) < mtu and len(dgrams) != 1:
                    fails.append({'check': 'T-tx-fitting-bundle-segmented', 'case': case, 'datagrams': len(dgrams)})
                    break
                probs = []
                S.check_receive(mtu, data, dgrams, '%d.%d' % (n, k), probs)
                if probs:
                    fails.append({'check': 'T-tx-receive', 'case': case, 'got': probs[:3]})
                    break


def main(argv):
    tier = 'quick'
    if '--tier' in argv:
        tier = argv[argv.index('--tier') + 1]
    seed = int(os.environ.get('VERIF_SEED', '0') or 0)
    rnd = random.Random(seed)
    fails, stats = [], {'evaluations': 0}
    if '--replay' in argv:
        with open(argv[argv.index('--replay') + 1]) as f:
            one = json.load(f).get('failure') or {}
        print('replay of bounded check %s' % one.get('check'))
        c = one.get('case') or {}
        if one.get('check') == 'R1':
            check_length_rule(fails, stats)
        elif c.get('tx_path'):
            check_tx_path(fails, stats, 'thorough')
        elif str(one.get('check')).startswith('G-range'):
            check_range_codec(fails, stats, rnd, 'quick')
        elif 'length' in c:
            r = check_send(c['length'], c['mtu'], c['tid'], fails, stats)
            if r is not None and one.get('label'):
                run_receive(r[0], r[1], c, fails, stats, rnd, only=one.get('label'))
        print('  observed: %s' % json.dumps(fails)[:1500])
        print('REPRODUCED' if fails else 'NOT-REPRODUCED')
        return 1 if fails else 0
    check_length_rule(fails, stats)
    lengths = [1, 10, 23, 24, 30, 100, 255, 256, 300, 1000]
    mtus = [None, 5, 8, 11, 12, 13, 14, 15, 16, 20, 24, 30, 40, 64, 100, 255, 256, 257, 300, 1200]
    if tier == 'thorough':
        lengths += [25, 254, 257, 65535, 65536, 65600, 70000]
        mtus += [17, 18, 19, 21, 22, 23, 25, 26, 27, 28, 65535, 65536, 65550]
    samples = []
    for n in lengths:
        for mtu in mtus:
            for tid in (0, 24, 300):
                r = check_send(n, mtu, tid, fails, stats)
                if r is None or len(r[1]) < 2:
                    continue
                if tid == 24 and len(r[1]) <= (600 if tier == 'thorough' else 40):
                    run_receive(r[0], r[1], {'length': n, 'mtu': mtu, 'tid': tid}, fails, stats, rnd)
                    if len(samples) < 3:
                        samples.append({'length': n, 'mtu': mtu, 'segments': len(r[1])})
    check_composed(fails, stats)
    check_range_codec(fails, stats, rnd, tier)
    check_tx_path(fails, stats, tier)
    out = {'tool': 'enumeration on the real udpcl.agent.Agent (_send_transfer, _recv_datagram) and the real cbor2',
           'bound': 'bundle lengths %s x MTUs %s x transfer ids 0/24/300; arrival orders: all permutations up to 5 segments, '
                    'reversed / seeded shuffles above; repeats; interleaving with a second peer port and a second transfer id; '
                    'composed datagrams (several messages, padding); range_encode / range_decode on all normalised interval '
                    'sets with bounds below 9 (up to 3 intervals) and 200 (thorough: 3000) random ones; seed %d' % (lengths, mtus, seed),
           'evaluations': stats['evaluations'], 'distinct_nontrivial': stats['evaluations'],
           'rule': 'one case = one (length, MTU, id) segmentation, one arrival sequence fed to a fresh agent, or one '
                   'encoder length comparison',
           'samples': samples, 'failures': fails[:40], 'exhaustive': False}
    print(json.dumps(out))
    return 1 if fails else 0


def run_receive(data, segs, case, fails, stats, rnd, only=None):
    key = ('p1', case['tid'])
    base = [(5001, s, key, data) for s in segs]
    orders = []
    if len(segs) <= 5:
        orders = [('permutation', list(p)) for p in itertools.permutations(base)]
    else:
        orders = [('in-order', list(base)), ('reversed', list(reversed(base)))]
        for _ in range(3):
            o = list(base)
            rnd.shuffle(o)
            orders.append(('shuffled', o))
    # a repeat of every segment right after it, and the whole transfer twice
    rep = []
    for x in base:
        rep.extend([x, x])
    orders.append(('each-twice', rep))
    # interleaved with the same transfer id from another peer port (another transfer) carrying other data
    other_data = bytes((b + 1) % 256 for b in data)
    try:
        osegs, _item = segments_of(other_data, case['mtu'], case['tid'])
    except Exception:  # noqa
        osegs = []
    if osegs:
        o2 = [(5002, s, ('p2', case['tid']), other_data) for s in osegs]
        mixed = []
        for a, b in itertools.zip_longest(base, reversed(o2)):
            if a:
                mixed.append(a)
            if b:
                mixed.append(b)
        orders.append(('interleaved-peers', mixed))
    for label, o in orders:
        if only and label != only:
            continue
        n0 = len(fails)
        feed(o, fails, stats, label, case)
        if len(fails) > n0:
            return


def check_composed(fails, stats):
    b1, b2 = exact_bundle(40, 1), exact_bundle(17, 2)
    seg = cbor2.dumps({ua.ExtensionKey.TRANSFER: [7, 3, 0, b'\x80\x80\x80'[:3]]})
    cases = [
        ('two-bundles', b1 + b2, [b1, b2]),
        ('bundle-then-padding', b1 + bytes(11), [b1]),
        ('padding-only', bytes(9), []),
        ('segment-then-bundle', seg + b2, [b'\x80\x80\x80', b2]),
        ('bundle-segment-padding', b2 + seg + bytes(3), [b2, b'\x80\x80\x80']),
    ]
    for name, dgram, want in cases:
        stats['evaluations'] += 1
        ag = new_agent()
        try:
            ag._recv_datagram(None, dgram, conv_for(5001))
        except Exception as e:  # noqa
            fails.append({'check': 'M-exception', 'case': {'composed': name}, 'got': '%s: %s' % (type(e).__name__, e)})
            continue
        if queued(ag) != want:
            fails.append({'check': 'M-per-message', 'case': {'composed': name}, 'queued': [len(x) for x in queued(ag)],
                          'expected': [len(x) for x in want]})


if __name__ == '__main__':
    sys.exit(main(sys.argv[1:]))
