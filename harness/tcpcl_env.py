"""Run the real tcpcl.session code under the stub environment: fake sockets,
virtual GLib loop, recorded D-Bus signals; build a ContactHandler in a given
pre-state and observe one call."""
import io
import os
import sys

HERE = os.path.dirname(os.path.abspath(__file__))
sys.path.insert(0, HERE)
import env  # noqa: E402

env.setup()

import logging  # noqa: E402
logging.disable(logging.CRITICAL)

from gi.repository import GLib  # noqa: E402
import dbus.service  # noqa: E402
import dbus.bus  # noqa: E402
from tcpcl import session, messages, contact, extend  # noqa: E402
from tcpcl.config import Config  # noqa: E402


class FakeSocket(object):
    '''Socket stand-in: records what is sent; send() behaviour is scripted.'''

    def __init__(self, peer=('192.0.2.7', 4556), name='sock'):
        self.peer = peer
        self.sent = b''
        self.rx = []
        self.closed = False
        self.send_plan = []        # per-call: int (octets accepted), 'fail' (raise OSError); default: all
        self.name = name

    def setblocking(self, v):
        pass

    def fileno(self):
        return -1 if self.closed else 7

    def getpeername(self):
        return self.peer

    def recv(self, n):
        if self.rx:
            return self.rx.pop(0)
        return b''

    def send(self, data):
        plan = self.send_plan.pop(0) if self.send_plan else len(data)
        if plan == 'fail':
            raise OSError('scripted send failure')
        k = min(plan, len(data))
        self.sent += bytes(data[:k])
        return k

    def shutdown(self, how):
        pass

    cert_der = b''

    def getpeercert(self, binary_form=False):
        return self.cert_der if binary_form else {}

    def cipher(self):
        return ('TLS_AES_128_GCM_SHA256', 'TLSv1.3', 128)

    def unwrap(self):
        return self

    def close(self):
        self.closed = True

    def __repr__(self):
        return '<FakeSocket %s>' % self.name


class Recorder(object):
    '''Ghost recorders: events handed to send_message, signals, sources.'''

    def __init__(self, hdl):
        self.hdl = hdl
        self.trace = []
        orig = hdl.send_message

        def send_message(pkt):
            self.trace.append(event_of(pkt))
            return orig(pkt)
        hdl.send_message = send_message

    def signals(self):
        names = {'session_state_changed': 1, 'send_bundle_started': 2, 'send_bundle_intermediate': 3,
                 'send_bundle_finished': 4, 'recv_bundle_started': 5, 'recv_bundle_intermediate': 6,
                 'recv_bundle_finished': 7}
        out = []
        for obj, name, args in dbus.service.SIGNAL_LOG:
            if obj is not self.hdl or name == 'session_state_changed':
                continue
            a = list(args) + [None, None, None]
            out.append(dict(name=names.get(name, 0), bid=a[0], length=a[1], result=a[2] if len(args) > 2 else ''))
        return out


def event_of(pkt):
    '''Concrete twin of the ghost abstraction of a packet (contracts/tcpcl_models.py).'''
    ev = dict(kind=0, xid=0, flags=0, dlen=0, data=b'', has_len_ext=False, len_ext=0, reason=0, enc=bytes(pkt))
    K = dict(CH=1, SESS_INIT=2, SEG=3, ACK=4, REFUSE=5, KEEPALIVE=6, REJECT=7, TERM=8)
    if isinstance(pkt, contact.Head):
        ev['kind'] = K['CH']
        if isinstance(pkt.payload, contact.ContactV4):
            ev['flags'] = int(pkt.payload.flags)
        return ev
    pay = pkt.payload
    if isinstance(pay, messages.SessionInit):
        ev['kind'] = K['SESS_INIT']
    elif isinstance(pay, messages.SessionTerm):
        ev.update(kind=K['TERM'], flags=int(pay.flags), reason=int(pay.reason))
    elif isinstance(pay, messages.Keepalive):
        ev['kind'] = K['KEEPALIVE']
    elif isinstance(pay, messages.RejectMsg):
        ev.update(kind=K['REJECT'], reason=int(pay.reason or 0))
    elif isinstance(pay, messages.TransferRefuse):
        ev.update(kind=K['REFUSE'], xid=int(pay.transfer_id), reason=int(pay.reason))
    elif isinstance(pay, messages.TransferAck):
        ev.update(kind=K['ACK'], xid=int(pay.transfer_id), flags=int(pay.flags), dlen=int(pay.length or 0))
    elif isinstance(pay, messages.TransferSegment):
        data = pay.getfieldval('data')
        ev.update(kind=K['SEG'], xid=int(pay.transfer_id), flags=int(pay.flags), data=bytes(data), dlen=len(data))
        for item in (pay.ext_items or []):
            if isinstance(item.payload, extend.TransferTotalLength):
                ev.update(has_len_ext=True, len_ext=int(item.payload.total_length))
    return ev


def reset_world():
    GLib.reset()
    del dbus.service.SIGNAL_LOG[:]
    del dbus.service.TYPE_ERRORS[:]


def make_handler(passive=True, peer_name='peer.example.org', config=None, start=False):
    cfg = config or Config()
    cfg._bus_conn = dbus.bus.BusConnection()
    sock = FakeSocket()
    kw = dict(config=cfg, sock=sock)
    if passive:
        kw['fromaddr'] = (sock.peer[0], sock.peer[1])
    else:
        kw['toaddr'] = (peer_name, sock.peer[1])
    hdl = session.ContactHandler(hdl_kwargs=kw, bus_kwargs=dict(conn=cfg._bus_conn, object_path='/test/Contact0'))
    if start:
        hdl.start()
    return hdl, sock


def pump(limit=200):
    GLib.pump_idle(limit)
