"""Executable models for the TCPCL contracts: assumed contracts of sockets /
ssl / dbus, the ghost event abstraction of packets, and callback hooks."""
import z3

from pyvc import extmodels
from pyvc.sym import (V, Py, is_py, NONE, Unsupported, mk_int, mk_bool, fresh, fresh_name, truthy, coerce,
                      class_tag, func_tag, mk_str_const, int_and_const)
from pyvc.types import (TInt, TBool, TNone, TBytes, TStr, TOpt, TAny, TList, TTuple, TPkt, TRef, TDict, TSet, NAMED,
                        parse_type)

EXTERNS = {}
EXTERNS.update(extmodels.GLIB)
EXTERNS.update(extmodels.MISC)


def _maybe_raise(eng, exc, tag):
    if eng.branch(z3.Bool(fresh_name('ext_raises_' + tag))):
        eng.py_raise(exc)


# ---- sockets (assumed contract: DESIGN §3) ---------------------------------
def sock_recv(eng, args, kwargs):
    n = args[1]
    which = eng.choose(3)
    if which == 1:
        eng.py_raise('OSError')
    if which == 2:
        eng.py_raise('ssl.SSLWantReadError')
    data = fresh(TBytes, 'recv')
    eng.assume(z3.Length(data.z) <= n.z)
    return data


def sock_send(eng, args, kwargs):
    data = args[1]
    _maybe_raise(eng, 'OSError', 'send')
    k = z3.Int(fresh_name('sent'))
    eng.assume(z3.And(k >= 0, k <= z3.Length(data.z)))
    g = eng.st.ghost
    if 'wire_out' in g:
        g['wire_out'] = V(TBytes, z3.Concat(g['wire_out'].z, z3.Extract(data.z, 0, k)))
    return mk_int(k)


def sock_noop(eng, args, kwargs):
    return NONE


def sock_shutdown(eng, args, kwargs):
    _maybe_raise(eng, 'OSError', 'shutdown')
    return NONE


def sock_fileno(eng, args, kwargs):
    return mk_int(z3.Int(fresh_name('fileno')))


def sock_getpeername(eng, args, kwargs):
    host = fresh(TStr, 'peer_addr')
    return eng.mk_tuple([host, mk_int(z3.Int(fresh_name('peer_port')))])


def sock_getpeercert(eng, args, kwargs):
    return fresh(TAny('certdata'), 'peercert')


def ip_address(eng, args, kwargs):
    # assumed: a peer address string obtained from getpeername() always parses
    f = z3.Function('ip_of_str', TStr.sort(), TAny('ipaddr').sort())
    return V(TAny('ipaddr'), f(args[0].z))


def load_cert(eng, args, kwargs):
    return fresh(TAny('cert'), 'cert')


def default_backend(eng, args, kwargs):
    return fresh(TAny('backend'), 'backend')


def ssl_match_hostname(eng, args, kwargs):
    # "for reference" call; the attribute is absent on Python >= 3.12: whether the installation has it
    # is the same unknown constant that hasattr(ssl, 'match_hostname') reads (pyvc.builtins.bi_hasattr);
    # when present the documented contract applies: returns or raises CertificateError
    if not eng.branch(z3.Bool('env_has_ssl_match_hostname')):
        eng.py_raise('AttributeError')
    _maybe_raise(eng, 'ssl.CertificateError', 'match_hostname')
    return NONE


def cert_get_extension(eng, args, kwargs):
    '''cert.extensions.get_extension_for_oid(oid): the extension or ExtensionNotFound.'''
    cert, oid = args[0], args[1]
    name = oid.py[1].split('.')[-1] if is_py(oid, 'ext') else 'oid'
    has = z3.Function('cert_has_ext_' + name, TAny('cert').sort(), z3.BoolSort())
    if not eng.branch(has(cert.z)):
        eng.py_raise('cryptography.x509.ExtensionNotFound')
    f = z3.Function('cert_ext_' + name, TAny('cert').sort(), TAny('certext').sort())
    return V(TAny('certext'), f(cert.z))


def ext_values_for_type(eng, args, kwargs):
    '''ext.value.get_values_for_type(key): list of the SAN values of that type.'''
    ext, key = args[0], args[1]
    kname = key.py[1].split('.')[-1] if is_py(key, 'ext') else 'key'
    elem_t = TAny('ipaddr') if kname == 'IPAddress' else TStr
    lt = TList(elem_t)
    f = z3.Function('san_values_' + kname, TAny('certext').sort(), lt.sort())
    v = V(lt, f(ext.z))
    eng.assume_wf(v)
    return v


EXTERNS.update({
    'sock.recv': sock_recv, 'sock.send': sock_send, 'sock.setblocking': sock_noop, 'sock.close': sock_noop,
    'sock.shutdown': sock_shutdown, 'sock.fileno': sock_fileno, 'sock.getpeername': sock_getpeername,
    'sock.getpeercert': sock_getpeercert, 'sock.cipher': sock_noop,
    'ipaddress.ip_address': ip_address,
    'cryptography.x509.load_der_x509_certificate': load_cert,
    'cryptography.hazmat.backends.default_backend': default_backend,
    'ssl.match_hostname': ssl_match_hostname,
    'self.remove_from_connection': sock_noop,
    'cert.extensions.get_extension_for_oid': cert_get_extension,
    'certext.value.get_values_for_type': ext_values_for_type,
})


# ---- hooks -----------------------------------------------------------------
def cb_callback(eng, fv, args):
    '''Registered callbacks (_on_close, _in_sess_func, _in_term_func,
    _on_state_change): assumed not to touch this object's state and not to raise.'''
    return NONE


SIG_NAMES = {'session_state_changed': 1, 'send_bundle_started': 2, 'send_bundle_intermediate': 3,
             'send_bundle_finished': 4, 'recv_bundle_started': 5, 'recv_bundle_intermediate': 6,
             'recv_bundle_finished': 7}


def cb_signal(eng, name, args):
    g = eng.st.ghost
    if 'signals' not in g:
        return
    St = NAMED['Signal']

    def arg(i, t):
        if i < len(args) and args[i].t == t:
            return args[i].z
        if i < len(args) and isinstance(args[i].t, TOpt) and args[i].t.inner == t:
            return args[i].t.val(args[i].z)
        return z3.Const(fresh_name('sigarg'), t.sort())
    if name == 'session_state_changed':
        zs = [z3.IntVal(SIG_NAMES[name]), arg(0, TStr), z3.IntVal(0), mk_str_const('').z]
    else:
        zs = [z3.IntVal(SIG_NAMES.get(name, 0)), arg(0, TStr), arg(1, TInt), arg(2, TStr) if len(args) > 2 else mk_str_const('').z]
    sig = St.mk(*zs)
    from pyvc import lists as L
    g['signals'] = V(g['signals'].t, L.l_append(g['signals'].t, g['signals'].z, sig))
    S = TStr.sort()
    if name == 'send_bundle_finished' and 'tx_finished' in g and args[0].t is TStr:
        tf = g['tx_finished']
        bid = args[0].z
        # C18: a transfer never gets more than one finished signal
        eng.ob('finished_once', 'send_bundle_finished@%s' % eng.frame.name,
               z3.Implies(S.is_of_int(bid), z3.Not(z3.Select(tf.z, S.int_val(bid)))), props=('C18',))
        g['tx_finished'] = V(tf.t, z3.If(S.is_of_int(bid), z3.Store(tf.z, S.int_val(bid), True), tf.z))
        if 'tx_live' in g:
            tl = g['tx_live']
            g['tx_live'] = V(tl.t, z3.If(S.is_of_int(bid), z3.Store(tl.z, S.int_val(bid), False), tl.z))
    if name == 'recv_bundle_finished' and 'rx_live' in g and args[0].t is TStr:
        rl = g['rx_live']
        bid = args[0].z
        g['rx_live'] = V(rl.t, z3.If(S.is_of_int(bid), z3.Store(rl.z, S.int_val(bid), True), rl.z))


def cb_tuple(eng, v):
    if is_py(v, 'extmethod') and v.py[2] == 'locations':
        return fresh(TList(TInt), 'locations')
    return None


def cb_isinstance_ext(eng, v, clsname):
    if is_py(v, 'ext'):
        # a class object (x509.DNSName ...) is not an ObjectIdentifier instance
        return z3.BoolVal(False)
    if isinstance(v.t, TAny) and v.t.name == 'ipaddr' and clsname.endswith('_BaseAddress'):
        return z3.BoolVal(True)
    if clsname.endswith('_BaseAddress'):
        if isinstance(v.t, parse_type('ParamVal').__class__) and v.t == parse_type('ParamVal'):
            return v.t.is_('ip', v.z)
        return z3.BoolVal(False)
    return None


def cb_isinstance(eng, v, c):
    if is_py(c, 'builtin') and c.py[1] == 'int' and v.t == parse_type('ParamVal'):
        return mk_bool(v.t.is_('int', v.z))
    return None


CALLBACKS = {'callback': cb_callback, 'signal': cb_signal, 'tuple': cb_tuple, 'isinstance_ext': cb_isinstance_ext,
             'isinstance': cb_isinstance}


# ---- ghost abstraction of packets -------------------------------------------
def _fld(eng, pkt, layer_idx, name):
    layer = pkt.t.layers[layer_idx]
    sc = eng.pkt_schema(layer)
    ref = eng.pkt_layer_ref(pkt, layer_idx)
    return V(sc.fields[name], z3.Select(eng.heap_arr(('pkt:' + layer, name), sc.fields[name]), ref.z))


def _len_ext(eng, pkt):
    '''(has_len_ext, len_ext) of a TransferSegment: a TransferTotalLength item among ext_items.'''
    from pyvc import lists as L
    items = _fld(eng, pkt, 1, 'ext_items')
    n = L.l_len(items.t, items.z)
    teh = eng.pkt_schema('TransferExtendHeader')
    pcls = eng.heap_arr(('pkt:TransferExtendHeader', '_pcls'), TInt)
    pay = eng.heap_arr(('pkt:TransferExtendHeader', 'payload'), TInt)
    ttl_sc = eng.pkt_schema('TransferTotalLength')
    tl = eng.heap_arr(('pkt:TransferTotalLength', 'total_length'), ttl_sc.fields['total_length'])
    tag = class_tag('TransferTotalLength')
    tot = ttl_sc.fields['total_length']

    def is_ttl(i):
        return z3.And(n > i, z3.Select(pcls, L.l_get(items.t, items.z, i)) == tag)

    def val(i):
        return tot.val(z3.Select(tl, z3.Select(pay, L.l_get(items.t, items.z, i))))
    has = z3.Or(is_ttl(0), is_ttl(1))
    ln = z3.If(is_ttl(0), val(0), val(1))
    return has, ln


def event_of(eng, pkt):
    Ev = NAMED['Event']
    layers = pkt.t.layers
    c = eng.spec.consts
    zero = z3.IntVal(0)
    empty = z3.Empty(TBytes.sort())
    kind, xid, flags, dlen, data, has_ext, len_ext, reason = zero, zero, zero, zero, empty, z3.BoolVal(False), zero, zero
    if layers[0] == 'Head':
        kind = z3.IntVal(c['EV_CH'])
        if len(layers) > 1 and layers[1] == 'ContactV4':
            flags = _fld(eng, pkt, 1, 'flags').z
    elif layers[0] == 'MessageHead' and len(layers) > 1:
        p = layers[1]
        if p == 'SessionInit':
            kind = z3.IntVal(c['EV_SESS_INIT'])
        elif p == 'SessionTerm':
            kind = z3.IntVal(c['EV_TERM'])
            flags = _fld(eng, pkt, 1, 'flags').z
            reason = _fld(eng, pkt, 1, 'reason').z
        elif p == 'Keepalive':
            kind = z3.IntVal(c['EV_KEEPALIVE'])
        elif p == 'RejectMsg':
            kind = z3.IntVal(c['EV_REJECT'])
            r = _fld(eng, pkt, 1, 'reason')
            reason = r.t.val(r.z)
        elif p == 'TransferRefuse':
            kind = z3.IntVal(c['EV_REFUSE'])
            xid = _fld(eng, pkt, 1, 'transfer_id').z
            reason = _fld(eng, pkt, 1, 'reason').z
        elif p == 'TransferAck':
            kind = z3.IntVal(c['EV_ACK'])
            xid = _fld(eng, pkt, 1, 'transfer_id').z
            flags = _fld(eng, pkt, 1, 'flags').z
            ln = _fld(eng, pkt, 1, 'length')
            dlen = ln.t.val(ln.z)
        elif p == 'TransferSegment':
            kind = z3.IntVal(c['EV_SEG'])
            xid = _fld(eng, pkt, 1, 'transfer_id').z
            flags = _fld(eng, pkt, 1, 'flags').z
            data = _fld(eng, pkt, 1, 'data').z
            dlen = z3.Length(data)
            has_ext, len_ext = _len_ext(eng, pkt)
        else:
            raise Unsupported('event_of %s' % (layers,))
    else:
        raise Unsupported('event_of %s' % (layers,))
    enc = eng.pkt_bytes(pkt).z
    return V(Ev, Ev.mk(kind, xid, flags, dlen, data, has_ext, len_ext, reason, enc))


def pkt_enc(eng, pkt):
    return eng.pkt_bytes(pkt)


def pkt_kind(eng, pkt):
    '''static message kind of a received packet (EV_* code)'''
    ev = event_of(eng, pkt)
    return mk_int(ev.t.get(0, ev.z))


def is_layer(eng, pkt, name):
    return mk_bool(name.py[1] in pkt.t.layers)


SPECBUILTINS = {'event_of': event_of, 'pkt_enc': pkt_enc, 'is_layer': is_layer}


# ---- deterministic views of the TLS peer (so contracts can name them) --------
def _peer_addr_of(sockz):
    return z3.Function('peer_addr_of', TAny('sock').sort(), TStr.sort())(sockz)


def sock_getpeername(eng, args, kwargs):  # noqa: F811  (deterministic replacement)
    return eng.mk_tuple([V(TStr, _peer_addr_of(args[0].z)), mk_int(z3.Int(fresh_name('peer_port')))])


def _der_of(sockz):
    return z3.Function('peercert_der', TAny('sock').sort(), TAny('certdata').sort())(sockz)


def sock_getpeercert(eng, args, kwargs):  # noqa: F811
    if len(args) > 1:
        return V(TAny('certdata'), _der_of(args[0].z))
    return fresh(TAny('certdict'), 'peercert')


def _cert_of(derz):
    return z3.Function('cert_of_der', TAny('certdata').sort(), TAny('cert').sort())(derz)


def load_cert(eng, args, kwargs):  # noqa: F811
    return V(TAny('cert'), _cert_of(args[0].z))


EXTERNS.update({'sock.getpeername': sock_getpeername, 'sock.getpeercert': sock_getpeercert,
                'cryptography.x509.load_der_x509_certificate': load_cert})


def _cert_values(certz, kname):
    elem_t = TAny('ipaddr') if kname == 'IPAddress' else TStr
    lt = TList(elem_t)
    has = z3.Function('cert_has_ext_SUBJECT_ALTERNATIVE_NAME', TAny('cert').sort(), z3.BoolSort())
    ext = z3.Function('cert_ext_SUBJECT_ALTERNATIVE_NAME', TAny('cert').sort(), TAny('certext').sort())
    vals = z3.Function('san_values_' + kname, TAny('certext').sort(), lt.sort())
    from pyvc import lists as L
    return V(lt, z3.If(has(certz), vals(ext(certz)), L.l_empty(lt)))


def sb_cert_values(eng, cert, key):
    kname = key.py[1].split('.')[-1]
    ext = z3.Function('cert_ext_SUBJECT_ALTERNATIVE_NAME', TAny('cert').sort(), TAny('certext').sort())
    lt = TList(TAny('ipaddr') if kname == 'IPAddress' else TStr)
    eng.assume_wf(V(lt, z3.Function('san_values_' + kname, TAny('certext').sort(), lt.sort())(ext(cert.z))))
    return _cert_values(cert.z, kname)


def _app_sock(eng, s):
    '''the TLS socket of connection object s'''
    f = eng.spec.field('ContactHandler', '_Connection__s_tls')
    v = V(f[1], z3.Select(eng.heap_arr((f[0], '_Connection__s_tls'), f[1]), s.z))
    return f[1].val(v.z)


def _any_sock(eng, s):
    '''get_app_socket(): the TLS socket if present else the plain one'''
    f = eng.spec.field('ContactHandler', '_Connection__s_tls')
    g = eng.spec.field('ContactHandler', '_Connection__s_notls')
    tls = z3.Select(eng.heap_arr((f[0], '_Connection__s_tls'), f[1]), s.z)
    raw = z3.Select(eng.heap_arr((g[0], '_Connection__s_notls'), g[1]), s.z)
    return z3.If(f[1].is_none(tls), g[1].val(raw), f[1].val(tls))


def sb_peer_addr(eng, s):
    return V(TStr, _peer_addr_of(_any_sock(eng, s)))


def sb_ip_of(eng, st):
    f = z3.Function('ip_of_str', TStr.sort(), TAny('ipaddr').sort())
    return V(TAny('ipaddr'), f(st.z))


def _san(kname):
    def f(eng, s):
        return _cert_values(_cert_of(_der_of(_app_sock(eng, s))), kname)
    return f


def sb_union_is(eng, v, name):
    return mk_bool(v.t.is_(name.py[1], v.z))


def sb_union_get(eng, v, name):
    n = name.py[1]
    at = dict(v.t.alts)[n]
    return V(at, v.t.get(n, v.z))


def _items_of(eng, items):
    if isinstance(items.t, TOpt):
        return items.t.is_none(items.z), V(items.t.inner, items.t.val(items.z))
    return z3.BoolVal(False), items


def _len_ext_items(eng, items):
    from pyvc import lists as L
    isnone, lst = _items_of(eng, items)
    n = L.l_len(lst.t, lst.z)
    pcls = eng.heap_arr(('pkt:TransferExtendHeader', '_pcls'), TInt)
    pay = eng.heap_arr(('pkt:TransferExtendHeader', 'payload'), TInt)
    ttl_sc = eng.pkt_schema('TransferTotalLength')
    tot = ttl_sc.fields['total_length']
    tl = eng.heap_arr(('pkt:TransferTotalLength', 'total_length'), tot)
    tag = class_tag('TransferTotalLength')

    def is_ttl(i):
        return z3.And(z3.Not(isnone), n > i, z3.Select(pcls, L.l_get(lst.t, lst.z, i)) == tag)

    def val(i):
        return tot.val(z3.Select(tl, z3.Select(pay, L.l_get(lst.t, lst.z, i))))
    return z3.Or(is_ttl(0), is_ttl(1)), z3.If(is_ttl(0), val(0), val(1)), z3.If(isnone, 0, n)


def sb_ext_has_len(eng, items):
    return mk_bool(_len_ext_items(eng, items)[0])


def sb_ext_total(eng, items):
    return mk_int(_len_ext_items(eng, items)[1])


def sb_ext_len_items(eng, items):
    return mk_int(_len_ext_items(eng, items)[2])


SPECBUILTINS.update({'cert_values': sb_cert_values, 'peer_addr': sb_peer_addr, 'ip_of': sb_ip_of,
                     'san_ip': _san('IPAddress'), 'san_dns': _san('DNSName'), 'san_uri': _san('UniformResourceIdentifier'),
                     'union_is': sb_union_is, 'union_get': sb_union_get, 'ext_has_len': sb_ext_has_len,
                     'ext_total': sb_ext_total, 'ext_len_items': sb_ext_len_items})
