"""Contracts for the forwarding and transmit path of the BP agent (C11, C19, C08 ordering):
Agent._do_fwd, Agent.send_bundle, Agent._apply_primary, Agent._do_tx_step, Agent._finish_bundle and the
bundle-container operations they use."""
import z3

from pyvc.sym import V, mk_bool, mk_int, class_tag, is_py, Unsupported
from pyvc.types import TBytes, TPkt

AG = 'Ref[Agent]'
CTR = 'Ref[Ctr]'
BLK = 'Pkt[CanonicalBlock]'

WIRE_PRIMARY = 'ctr.bundle.primary is not None and pri(ctr).bundle_flags >= 0'

INLINE = ['bp.util:BundleContainer.log_name']

SPECFUNCS = {
    'blocks': (['c'], 'c.bundle.blocks'),
    'TT': (['s'], 's._config.tx_route_table'),
    # what _apply_primary may never touch on a bundle that was received from elsewhere (C11)
    'primary_kept': (['c'], 'pri(c).bp_version == old(pri(c).bp_version) and pri(c).bundle_flags == old(pri(c).bundle_flags) and '
                            'eqv(pri(c).destination, old(pri(c).destination)) and eqv(pri(c).source, old(pri(c).source)) and '
                            'eqv(pri(c).report_to, old(pri(c).report_to)) and pri(c).create_ts == old(pri(c).create_ts) and '
                            'pri(c).create_ts.dtntime == old(pri(c).create_ts.dtntime) and '
                            'pri(c).create_ts.seqno == old(pri(c).create_ts.seqno) and pri(c).lifetime == old(pri(c).lifetime)'),
    'received': (['c'], 'contains(c.actions, "receive")'),
    'clock_kept': ([], 'ghost.clock_reads == old(ghost.clock_reads) and ghost.clock_last == old(ghost.clock_last)'),
    'is_age': (['c', 'b'], 'contains(blocks(c), b) and b._pcls == tag_of("BundleAgeBlock")'),
    # a decoded Hop Count block: numbers present, cached block data (if any) is the encoding of the payload
    'hop_ok': (['b'], 'hop_of(b).count is not None and hop_of(b).limit is not None and unwrap(hop_of(b).count) >= 0 and '
                      '(b.btsd is None or unwrap(b.btsd) == enc_hop(hop_of(b).limit, hop_of(b).count))'),
    # every Hop Count block the bundle arrived with shows, on the wire, a count one greater
    'hops_done': (['c'], 'forall(b, "Pkt[CanonicalBlock]", implies(old(contains(blocks(c), b)) and '
                         'old(b._pcls) == tag_of("HopCountBlock") and old(pl(b)) != 0, '
                         'wire_btsd(b) == enc_hop(old(hop_of(b).limit), unwrap(old(hop_of(b).count)) + 1)))'),
    # state of _do_fwd between taking the head of the queue and sending it
    'fwd_common': (['s', 'c'],
                   'length(old(s._fwd_queue)) > 0 and c == old(s._fwd_queue)[0] and '
                   'length(s._fwd_queue) == length(old(s._fwd_queue)) - 1 and c.bundle == old(s._fwd_queue[0].bundle) and '
                   'c.bundle.primary is not None and eqv(c.bundle.primary, old(s._fwd_queue[0].bundle.primary)) and '
                   'primary_kept(c) and pri(c).bundle_flags >= 0 and pri(c).create_ts.dtntime >= 0 and '
                   'c.actions == old(s._fwd_queue[0].actions) and eqv(c.status_reason, old(s._fwd_queue[0].status_reason)) and '
                   'ghost.finished == old(ghost.finished) and ghost.tx_out == old(ghost.tx_out) and '
                   'ghost.wire_crc_ok == old(ghost.wire_crc_ok) and ghost.consumed == old(ghost.consumed) and '
                   'ghost.sched_send == old(ghost.sched_send) and admin_coherent(c.bundle) and crc_type_ok(pri(c)) and '
                   'forall(x, "Pkt[CanonicalBlock]", implies(existed(x) or contains(blocks(c), x), crc_type_ok(x)))'),
}


def sb_cls_tag(eng, clsv):
    '''integer tag of a block data class given as a value (the `_pcls` field of a block holds the tag of its payload class)'''
    if is_py(clsv, 'class'):
        return mk_int(class_tag(clsv.py[1]))
    raise Unsupported('cls_tag of a non-class value')


def _sel(eng, schema, field, ref):
    ft = eng.spec.schemas[schema].fields[field]
    return V(ft, z3.Select(eng.heap_arr((schema, field), ft), ref.z))


def sb_wire_btsd(eng, blk):
    '''What a Hop Count block contributes to the transmitted bundle: the cached block-type-specific data when
    present (CanonicalBlock.ensure_block_type_specific_data keeps it), otherwise the encoding of its payload.
    enc_hop is injective (a CBOR array of two unsigned integers).'''
    enc = z3.Function('enc_hop', z3.IntSort(), z3.IntSort(), TBytes.sort())
    key = ('enc_hop_inj',)
    if key not in eng.wf_seen:
        eng.wf_seen.add(key)
        a, b, c, d = z3.Ints('eh_a eh_b eh_c eh_d')
        eng.assume(z3.ForAll([a, b, c, d], z3.Implies(enc(a, b) == enc(c, d), z3.And(a == c, b == d)),
                             patterns=[z3.MultiPattern(enc(a, b), enc(c, d))]))
    btsd = _sel(eng, 'pkt:CanonicalBlock', 'btsd', blk)
    pay = V(TPkt(['HopCountBlock']), _sel(eng, 'pkt:CanonicalBlock', 'payload', blk).z)
    lim = _sel(eng, 'pkt:HopCountBlock', 'limit', pay)
    cnt = _sel(eng, 'pkt:HopCountBlock', 'count', pay)
    return V(TBytes, z3.If(btsd.t.is_none(btsd.z), enc(lim.t.val(lim.z), cnt.t.val(cnt.z)), btsd.t.val(btsd.z)))


def sb_enc_hop(eng, limit, count):
    enc = z3.Function('enc_hop', z3.IntSort(), z3.IntSort(), TBytes.sort())
    from pyvc.types import TOpt
    lz = limit.t.val(limit.z) if isinstance(limit.t, TOpt) else limit.z
    cz = count.t.val(count.z) if isinstance(count.t, TOpt) else count.z
    return V(TBytes, enc(lz, cz))


def sb_hop_of(eng, blk):
    return V(TPkt(['HopCountBlock']), _sel(eng, 'pkt:CanonicalBlock', 'payload', blk).z)


def sb_prev_of(eng, blk):
    return V(TPkt(['PreviousNodeBlock']), _sel(eng, 'pkt:CanonicalBlock', 'payload', blk).z)


def sb_age_of(eng, blk):
    return V(TPkt(['BundleAgeBlock']), _sel(eng, 'pkt:CanonicalBlock', 'payload', blk).z)


def sb_pl(eng, blk):
    '''reference of the payload packet of a block (0: none)'''
    return mk_int(_sel(eng, 'pkt:CanonicalBlock', 'payload', blk).z)


def sb_tag_of(eng, name):
    '''integer tag of a block data class given by name (what `_pcls` holds)'''
    if name.py and name.py[0] == 'strlit':
        return mk_int(class_tag(name.py[1]))
    raise Unsupported('tag_of needs a literal class name')


SPECBUILTINS = {'cls_tag': sb_cls_tag, 'enc_hop': sb_enc_hop, 'hop_of': sb_hop_of,
                'prev_of': sb_prev_of, 'age_of': sb_age_of, 'tag_of': sb_tag_of, 'pl': sb_pl}

FUNCS = {
    # ---------------------------------------------------------------------------------------------
    'bp.agent:Agent._finish_bundle': dict(
        self=AG, params={'ctr': CTR}, props=['C19'],
        requires=[('wire', 'ctr.bundle.primary is not None and pri(ctr).bundle_flags >= 0', [])],
        modifies=['ghost.finished', 'ghost.sched_send'],
        ghost_exit=['ghost.finished = ghost.finished + [ctr]'],
        ensures=[
            ('recorded', 'ghost.finished == old(ghost.finished) + [ctr]'),
            ('no_report_unless_requested_action_occurred',
             'implies(no_report_wanted(ctr) or not requested_occurred(ctr), ghost.sched_send == old(ghost.sched_send))', ['C19']),
            ('one_report_scheduled_when_due',
             'implies(not (no_report_wanted(ctr) or not requested_occurred(ctr)), '
             'length(ghost.sched_send) == length(old(ghost.sched_send)) + 1)', ['C19']),
            ('scheduled_report_is_new', 'implies(not (no_report_wanted(ctr) or not requested_occurred(ctr)), '
                                        'not existed(last(ghost.sched_send)))', ['C19']),
            ('scheduled_report_addressed_and_admin',
             'implies(not (no_report_wanted(ctr) or not requested_occurred(ctr)), '
             'eqv(pri(last(ghost.sched_send)).destination, pri(ctr).report_to) and '
             'pri(last(ghost.sched_send)).bundle_flags == F_ADMIN)', ['C19']),
        ],
    ),
    # ---------------------------------------------------------------------------------------------
    'bp.agent:Agent._apply_primary': dict(
        self=AG, params={'ctr': CTR}, props=['C11'],
        requires=[('wire', WIRE_PRIMARY, [])],
        modifies=['pkt:PrimaryBlock.source', 'pkt:PrimaryBlock.report_to', 'pkt:PrimaryBlock.create_ts',
                  'pkt:PrimaryBlock.lifetime', 'pkt:Timestamp.dtntime', 'pkt:Timestamp.seqno', 'Timestamper._time',
                  'Timestamper._seqno', 'ghost.crc_ok', 'ghost.clock_reads', 'ghost.clock_last'],
        # (ghost: whatever this function did, the CRC fields are considered stale afterwards)
        ghost_exit=['ghost.crc_ok = set_remove(ghost.crc_ok, ctr.bundle)'],
        ensures=[
            # C11: a bundle received from another node leaves with its primary block as it came
            ('received_bundle_primary_untouched', 'implies(received(ctr), primary_kept(ctr))', ['C11']),
            ('no_clock_reading_for_a_received_bundle', 'implies(received(ctr), clock_kept())', ['C11']),
            # C05: a fragment keeps the identity (creation time, also a zero one, and sequence number) it was given
            ('fragment_primary_untouched',
             'implies(flag(old(unwrap(ctr.bundle.primary).bundle_flags), F_IS_FRAGMENT), primary_kept(ctr))', ['C05', 'C11']),
            ('crc_considered_stale', 'not contains(ghost.crc_ok, ctr.bundle)', ['C08']),
        ],
    ),
    'bp.agent:Timestamper.__call__': dict(
        self='Ref[Timestamper]', returns='Pkt[Timestamp]', props=['C11'],
        trusted=True, trusted_reason='reads the system clock (datetime.now); only the shape of the result is assumed',
        modifies=['Timestamper._time', 'Timestamper._seqno', 'ghost.clock_reads', 'ghost.clock_last'],
        ensures=[('fresh_timestamp', 'not existed(result) and result.dtntime >= 0 and result.seqno >= 0'),
                 ('is_a_clock_reading', 'ghost.clock_reads == old(ghost.clock_reads) + 1 and result.dtntime == ghost.clock_last')],
    ),
    # date arithmetic is outside the modelled subset: the DTN time of a date is an arbitrary number (so a date that was
    # remembered earlier is not known to be a reading of the clock made now)
    'bp.encoding.fields:DtnTimeField.datetime_to_dtntime': dict(
        params={'val': 'Opt[Any[datetime]]'}, returns='Int', props=['C11'],
        trusted=True, trusted_reason='datetime subtraction and division (not modelled); the result is an arbitrary number',
        modifies=[], ensures=[],
    ),
    # ---- bundle container / bundle operations used on the transmit path: assumed contracts -------------------
    'bp.util:BundleContainer.block_type': dict(
        self=CTR, props=['C11'], live_view=True,
        trusted=True, trusted_reason='reads the block index map _block_type (a dict keyed by type code *or* payload class, '
                                     'not modelled); assumed coherent with bundle.blocks, as reload / add_block / '
                                     'remove_block keep it.  The list returned is the index entry itself (a live view)',
        cases=[{'name': 'prev_node', 'params': {'type_code': 'Class[PreviousNodeBlock]'},
                'returns': 'List[Pkt[CanonicalBlock, PreviousNodeBlock]]'},
               {'name': 'hop_count', 'params': {'type_code': 'Class[HopCountBlock]'},
                'returns': 'List[Pkt[CanonicalBlock, HopCountBlock]]'},
               {'name': 'bundle_age', 'params': {'type_code': 'Class[BundleAgeBlock]'},
                'returns': 'List[Pkt[CanonicalBlock, BundleAgeBlock]]'},
               {'name': 'integrity', 'params': {'type_code': 'Class[BlockIntegrityBlock]'},
                'returns': 'List[Pkt[CanonicalBlock, BlockIntegrityBlock]]'},
               {'name': 'confidentiality', 'params': {'type_code': 'Class[BlockConfidentialityBlock]'},
                'returns': 'List[Pkt[CanonicalBlock, BlockConfidentialityBlock]]'}],
        modifies=[],
        ensures=[('members_are_blocks_of_the_bundle', 'forall(i, 0, length(result), contains(blocks(self), result[i]))'),
                 ('members_have_the_class', 'forall(i, 0, length(result), result[i]._pcls == cls_tag(type_code) and '
                                            'pl(result[i]) != 0)'),
                 ('all_of_the_class_listed', 'forall(b, "Pkt[CanonicalBlock]", implies(contains(blocks(self), b) and '
                                             'b._pcls == cls_tag(type_code), exists(i, 0, length(result), result[i] == b)))'),
                 ('distinct', 'no_dup(result)')],
    ),
    'bp.util:BundleContainer.remove_block': dict(
        self=CTR, params={'blk': BLK}, props=['C11'], mutates_live_view=True,
        trusted=True, trusted_reason='list / index-map bookkeeping (enumerate comprehension, dict of lists keyed by class)',
        modifies=['pkt:Bundle.blocks', 'Ctr._block_num', 'ghost.crc_ok'],
        ensures=[('removed', 'not contains(blocks(self), blk)'),
                 ('others_kept', 'forall(b, "Pkt[CanonicalBlock]", implies(not (b == blk), '
                                 'contains(blocks(self), b) == old(contains(blocks(self), b))))'),
                 ('crc_stale', 'not contains(ghost.crc_ok, self.bundle)')],
    ),
    'bp.util:BundleContainer.add_block': dict(
        self=CTR, params={'blk': BLK}, props=['C11'], mutates_live_view=True,
        trusted=True, trusted_reason='list / index-map bookkeeping; block number assignment',
        raises={'KeyError': dict(modifies=[])},
        modifies=['pkt:Bundle.blocks', 'Ctr._block_num', 'Ctr._last_block_num', 'pkt:CanonicalBlock.block_num',
                  'pkt:CanonicalBlock.btsd', 'ghost.crc_ok'],
        ensures=[('added', 'contains(blocks(self), blk)'),
                 ('others_kept', 'forall(b, "Pkt[CanonicalBlock]", implies(not (b == blk), '
                                 'contains(blocks(self), b) == old(contains(blocks(self), b)) and '
                                 'eqv(b.btsd, old(b.btsd)) and eqv(b.block_num, old(b.block_num))))'),
                 ('crc_stale', 'not contains(ghost.crc_ok, self.bundle)')],
    ),
    'bp.util:BundleContainer.reload': dict(
        self=CTR, props=['C11'], mutates_live_view=True,
        trusted=True, trusted_reason='rebuilds the index maps; embeds payloads as block-type-specific data where that is unset',
        raises={'RuntimeError': dict(modifies=['Ctr._block_num'])},
        modifies=['Ctr._block_num', 'pkt:CanonicalBlock.btsd', 'ghost.crc_ok'],
        ensures=[('set_btsd_kept', 'forall(b, "Pkt[CanonicalBlock]", implies(old(b.btsd) is not None, eqv(b.btsd, old(b.btsd))))'),
                 ('hop_wire_kept', 'wire_kept()')],
    ),
    'bp.util:BundleContainer.fix_block_num': dict(
        self=CTR, props=['C11'],
        trusted=True, trusted_reason='assigns numbers to blocks that have none (unbounded search for a free number)',
        modifies=['pkt:CanonicalBlock.block_num', 'Ctr._last_block_num', 'ghost.crc_ok'],
        ensures=[('numbers_kept', 'forall(b, "Pkt[CanonicalBlock]", implies(old(b.block_num) is not None, '
                                  'eqv(b.block_num, old(b.block_num))))')],
    ),
    'bp.encoding.bundle:Bundle.fill_fields': dict(
        self='Pkt[Bundle]', props=['C08'],
        trusted=True, trusted_reason='contract assumed here: fills unset block-type-specific data and CRC placeholders '
                                     '(subject of the C08 contracts); its _update_from_admin step (payload-admin flag, type '
                                     'code and data of a block carrying an AdminRecord) is assumed not to change a bundle '
                                     'that was decoded from the wire, where flag and record already agree',
        modifies=['pkt:CanonicalBlock.btsd', 'pkt:CanonicalBlock.crc_value', 'pkt:PrimaryBlock.crc_value',
                  'pkt:PrimaryBlock._rx_items', 'pkt:CanonicalBlock._rx_items',
                  'pkt:PrimaryBlock.bundle_flags', 'pkt:CanonicalBlock.type_code', 'ghost.crc_ok'],
        ghost_exit=['ghost.crc_ok = set_remove(ghost.crc_ok, self)'],
        ensures=[('hop_wire_kept', 'wire_kept()'),
                 ('coherent_bundle_keeps_its_flags', 'implies(old(admin_coherent(self)), flags_kept(self))'),
                 ('flags_stay_nonnegative', 'flags_nonneg_kept()'),
                 ('only_this_bundle', 'forall(p, "Pkt[PrimaryBlock]", implies(not eqv(self.primary, p), '
                                      'p.bundle_flags == old(p.bundle_flags)))'),
                 ('crc_types_kept', 'forall(b, "Pkt[CanonicalBlock]", b.crc_type == old(b.crc_type))')],
    ),
    'bp.cla:AbstractAdaptor.send_bundle_func': dict(
        self='Ref[ClAdaptor]', params={'tx_params': 'Any[rawconfig]'}, returns='Func', props=['C11'],
        trusted=True, trusted_reason='abstract method of the convergence-layer adaptors (D-Bus proxies)',
        modifies=[],
        ensures=[],
    ),
    # ---------------------------------------------------------------------------------------------
    'bp.agent:Agent.send_bundle': dict(
        self=AG, params={'ctr': CTR}, props=['C11', 'C08', 'C19'],
        requires=[('wire', WIRE_PRIMARY, []),
                  ('crc_types_known', 'crc_types_known(ctr.bundle)', []),
                  # a bundle that was decoded from the wire: its payload-admin flag agrees with its payload object
                  ('received_as_decoded', 'implies(received(ctr), admin_coherent(ctr.bundle))', [])],
        raises={'RuntimeError': dict(ensures=[('nothing_handed_over', 'ghost.tx_out == old(ghost.tx_out)', ['C19']),
                                              ('primary_still_there', WIRE_PRIMARY, []),
                                              ('crc_flag', 'implies(old(ghost.wire_crc_ok), ghost.wire_crc_ok)', []),
                                              ('not_taken_over', 'ghost.consumed == old(ghost.consumed)', ['C19'])]),
                'Exception': dict(ensures=[('nothing_recorded', 'ghost.tx_out == old(ghost.tx_out)', []),
                                           ('primary_still_there', WIRE_PRIMARY, []),
                                           ('crc_flag', 'implies(old(ghost.wire_crc_ok), ghost.wire_crc_ok)', []),
                                           ('not_taken_over', 'ghost.consumed == old(ghost.consumed)', ['C19'])])},
        modifies=['Ctr.route', 'Ctr.sender', 'Ctr._block_num', 'Ctr._last_block_num',
                  'pkt:CanonicalBlock.btsd', 'pkt:CanonicalBlock.crc_value', 'pkt:CanonicalBlock.block_num',
                  'pkt:PrimaryBlock.bundle_flags', 'pkt:CanonicalBlock.type_code',
                  'pkt:PrimaryBlock.crc_value', 'pkt:PrimaryBlock._rx_items', 'pkt:CanonicalBlock._rx_items',
                  'pkt:PrimaryBlock.source', 'pkt:PrimaryBlock.report_to',
                  'pkt:PrimaryBlock.create_ts', 'pkt:PrimaryBlock.lifetime', 'pkt:Timestamp.dtntime', 'pkt:Timestamp.seqno',
                  'Timestamper._time', 'Timestamper._seqno', 'ghost.crc_ok', 'ghost.wire_crc_ok', 'ghost.tx_out',
                  'ghost.consumed', 'ghost.sched_send', 'ghost.step_failed', 'ghost.clock_reads', 'ghost.clock_last'],
        ghost_exit=['ghost.tx_out = ite(ctr.sender is None, ghost.tx_out, ghost.tx_out + [ctr])'],
        locals={'interrupted': 'Bool'},
        loops={0: dict(invariant=[
            ('not_interrupted_yet', 'not interrupted'),
            ('not_taken_over_yet', 'ghost.consumed == old(ghost.consumed) and ghost.sched_send == old(ghost.sched_send)'),
            ('no_step_failed_yet', 'ghost.step_failed == old(ghost.step_failed)'),
            ('primary_still_there', WIRE_PRIMARY),
            ('crc_types_known', 'crc_types_known(ctr.bundle)'),
            ('still_as_decoded', 'implies(old(received(ctr)), admin_coherent(ctr.bundle))'),
            ('received_primary_kept', 'implies(old(received(ctr)), primary_kept(ctr))'),
            ('clock_kept', 'implies(old(received(ctr)), clock_kept())'),
            ('nothing_sent_yet', 'ghost.tx_out == old(ghost.tx_out) and ghost.wire_crc_ok == old(ghost.wire_crc_ok)'),
            ('hop_wire_kept', 'wire_kept()'),
        ])},
        ensures=[
            # handed to a sender exactly once -- or taken over by a chain step (fragmentation), and then not sent here
            ('handed_to_a_sender_once_or_taken_over',
             'ghost.tx_out == old(ghost.tx_out) + [ctr] or (ghost.tx_out == old(ghost.tx_out) and contains(ghost.consumed, ctr))',
             ['C11', 'C19']),
            # C05 / C12: nothing is transmitted after a step of the transmit chain failed
            ('not_sent_after_failed_step', 'implies(ghost.step_failed and not old(ghost.step_failed), '
                                           'ghost.tx_out == old(ghost.tx_out))', ['C05', 'C12', 'C11']),
            # C08: the CRCs were updated after the last modification and before encoding
            ('encoded_with_current_crcs', 'implies(old(ghost.wire_crc_ok), ghost.wire_crc_ok)', ['C08', 'C11']),
            # C11: a received bundle leaves with its primary block unchanged ...
            ('received_primary_kept', 'implies(old(received(ctr)), primary_kept(ctr))', ['C11']),
            ('no_clock_reading_for_a_received_bundle', 'implies(old(received(ctr)), clock_kept())', ['C11']),
            # ... and what its Hop Count blocks contribute to the wire is what it was on entry
            ('hop_wire_kept', 'wire_kept()', ['C11']),
        ],
    ),
    'bp.agent:Agent._do_tx_step': dict(
        self=AG, params={'ctr': CTR}, props=['C10'],
        requires=[('has_destination', 'ctr.bundle.primary is not None and pri(ctr).destination is not None', [])],
        modifies=['Ctr.route'],
        locals={'found': 'Opt[Ref[TxRouteItem]]'},
        loops={0: dict(invariant=[
            ('none_before_matches', 'found is None and forall(j, 0, _i, not matches(TT(self)[j].eid_pattern, dest(ctr)))'),
            ('route_unset', 'eqv(ctr.route, old(ctr.route))'),
        ])},
        ensures=[
            ('existing_route_kept', 'implies(old(ctr.route) is not None, eqv(ctr.route, old(ctr.route)))', ['C10']),
            ('first_match_is_route',
             'implies(old(ctr.route) is None, forall(i, 0, length(TT(self)), implies('
             'matches(TT(self)[i].eid_pattern, dest(ctr)) and forall(j, 0, i, not matches(TT(self)[j].eid_pattern, dest(ctr))), '
             'eqv(ctr.route, TT(self)[i]))))', ['C10']),
            ('no_match_no_route',
             'implies(old(ctr.route) is None and forall(j, 0, length(TT(self)), not matches(TT(self)[j].eid_pattern, dest(ctr))), '
             'ctr.route is None)', ['C10']),
        ],
    ),
    # ---------------------------------------------------------------------------------------------
    'bp.agent:Agent._do_fwd': dict(
        self=AG, returns='Opt[Bool]', props=['C11', 'C19'],
        requires=[
            # what recv_bundle queues: received bundles with a primary block ...
            ('queued_are_received', 'forall(i, 0, length(self._fwd_queue), self._fwd_queue[i].bundle.primary is not None and '
                                    'pri(self._fwd_queue[i]).bundle_flags >= 0 and pri(self._fwd_queue[i]).create_ts.dtntime >= 0 and '
                                    'received(self._fwd_queue[i]) and contains(self._fwd_queue[i].actions, "forward") and '
                                    'not contains(self._fwd_queue[i].actions, "delete"))', []),
            ('payload_objects_not_shared', 'forall(b, "Pkt[CanonicalBlock]", forall(c, "Pkt[CanonicalBlock]", '
                                           'implies(pl(b) == pl(c) and pl(b) != 0, b == c)))', []),
            # ... whose Hop Count blocks are as the decoder left them: numbers present, and the cached
            # block-type-specific data (if any) is the encoding of the payload
            ('hop_blocks_as_decoded', 'forall(b, "Pkt[CanonicalBlock]", implies(b._pcls == tag_of("HopCountBlock") and pl(b) != 0, '
                                      'hop_ok(b)))', []),
            ('not_yet_taken_over', 'forall(i, 0, length(self._fwd_queue), not contains(ghost.consumed, self._fwd_queue[i]))', []),
            ('queued_as_decoded', 'forall(i, 0, length(self._fwd_queue), crc_type_ok(pri(self._fwd_queue[i])) and '
                                  'admin_coherent(self._fwd_queue[i].bundle))', []),
            ('crc_types_known', 'forall(x, "Pkt[CanonicalBlock]", crc_type_ok(x))', []),
        ],
        modifies=['Agent._fwd_queue', 'pkt:Bundle.blocks', 'pkt:HopCountBlock.count', 'pkt:CanonicalBlock.btsd',
                  'pkt:PrimaryBlock.bundle_flags',
                  'pkt:CanonicalBlock._pcls', 'pkt:CanonicalBlock.payload', 'pkt:CanonicalBlock.type_code',
                  'pkt:CanonicalBlock.block_flags', 'pkt:CanonicalBlock.crc_type',
                  'pkt:PreviousNodeBlock.node', 'pkt:PreviousNodeBlock.payload', 'pkt:BundleAgeBlock.age',
                  'pkt:BundleAgeBlock.payload', 'ghost.finished',
                  'Ctr.actions', 'Ctr.status_reason', 'Ctr.route', 'Ctr.sender', 'Ctr._block_num', 'Ctr._last_block_num',
                  'pkt:CanonicalBlock.crc_value', 'pkt:CanonicalBlock.block_num',
                  'pkt:PrimaryBlock.crc_value', 'pkt:PrimaryBlock._rx_items', 'pkt:CanonicalBlock._rx_items',
                  'pkt:PrimaryBlock.source', 'pkt:PrimaryBlock.report_to',
                  'pkt:PrimaryBlock.create_ts', 'pkt:PrimaryBlock.lifetime', 'pkt:Timestamp.dtntime', 'pkt:Timestamp.seqno',
                  'Timestamper._time', 'Timestamper._seqno', 'ghost.crc_ok', 'ghost.wire_crc_ok', 'ghost.tx_out',
                  'ghost.consumed', 'ghost.sched_send', 'ghost.step_failed', 'ghost.clock_reads', 'ghost.clock_last'],
        locals={'ctr': 'Ref[Ctr]'},
        loops={
            0: dict(invariant=[  # Previous Node blocks: remove every one
                ('head', 'fwd_common(self, ctr)'),
                ('hop_untouched', 'forall(b, "Pkt[CanonicalBlock]", not existed(b) or wire_btsd(b) == old(wire_btsd(b)) and '
                                  'eqv(hop_of(b).count, old(hop_of(b).count)) and eqv(hop_of(b).limit, old(hop_of(b).limit)) and '
                                  'b._pcls == old(b._pcls) and pl(b) == old(pl(b)) and eqv(b.btsd, old(b.btsd)))'),
                ('remaining_prev_node_blocks_still_listed',
                 'forall(b, "Pkt[CanonicalBlock]", implies(contains(blocks(ctr), b) and b._pcls == tag_of("PreviousNodeBlock"), '
                 'exists(k, _i, length(_seq), _seq[k] == b)))'),
                ('others_still_there', 'forall(b, "Pkt[CanonicalBlock]", implies(old(contains(blocks(self._fwd_queue[0]), b)) and '
                                       'not (b._pcls == tag_of("PreviousNodeBlock")), contains(blocks(ctr), b)))'),
                ('no_new_blocks', 'forall(b, "Pkt[CanonicalBlock]", implies(contains(blocks(ctr), b), '
                                  'existed(b) and old(contains(blocks(self._fwd_queue[0]), b))))'),
            ]),
            1: dict(invariant=[  # Hop Count blocks: count one greater, on the wire
                ('head', 'fwd_common(self, ctr)'),
                ('blocks_known', 'forall(b, "Pkt[CanonicalBlock]", implies(contains(blocks(ctr), b), '
                                 '(existed(b) and old(contains(blocks(self._fwd_queue[0]), b))) or '
                                 '(not existed(b) and b._pcls == tag_of("PreviousNodeBlock"))))'),
                ('done_incremented_on_wire',
                 'forall(b, "Pkt[CanonicalBlock]", implies(exists(k, 0, _i1, _seq1[k] == b), '
                 'wire_btsd(b) == enc_hop(old(hop_of(b).limit), unwrap(old(hop_of(b).count)) + 1)))'),
                ('others_untouched',
                 'forall(b, "Pkt[CanonicalBlock]", implies(existed(b) and not exists(k, 0, _i1, _seq1[k] == b), '
                 'wire_btsd(b) == old(wire_btsd(b)) and eqv(hop_of(b).count, old(hop_of(b).count)) and eqv(b.btsd, old(b.btsd)))) and '
                 'forall(b, "Pkt[CanonicalBlock]", implies(existed(b), eqv(hop_of(b).limit, old(hop_of(b).limit)) and '
                 'pl(b) == old(pl(b)) and b._pcls == old(b._pcls)))'),
                ('one_prev_node_block',
                 'forall(b, "Pkt[CanonicalBlock]", implies(contains(blocks(ctr), b) and b._pcls == tag_of("PreviousNodeBlock"), '
                 'not existed(b) and eqv(prev_of(b).node, self._config.node_id)))'),
                ('prev_node_block_present',
                 'exists(b, "Pkt[CanonicalBlock]", contains(blocks(ctr), b) and b._pcls == tag_of("PreviousNodeBlock"))'),
            ]),
            2: dict(invariant=[  # Bundle Age blocks: remove every one
                ('head', 'fwd_common(self, ctr)'),
                ('blocks_known', 'forall(b, "Pkt[CanonicalBlock]", implies(contains(blocks(ctr), b), '
                                 '(existed(b) and old(contains(blocks(self._fwd_queue[0]), b))) or '
                                 '(not existed(b) and b._pcls == tag_of("PreviousNodeBlock"))))'),
                ('hops_incremented_on_wire', 'hops_done(ctr)'),
                ('one_prev_node_block',
                 'forall(b, "Pkt[CanonicalBlock]", implies(contains(blocks(ctr), b) and b._pcls == tag_of("PreviousNodeBlock"), '
                 'not existed(b) and eqv(prev_of(b).node, self._config.node_id)))'),
                ('prev_node_block_present',
                 'exists(b, "Pkt[CanonicalBlock]", contains(blocks(ctr), b) and b._pcls == tag_of("PreviousNodeBlock"))'),
                ('remaining_age_blocks_still_listed',
                 'forall(b, "Pkt[CanonicalBlock]", implies(contains(blocks(ctr), b) and b._pcls == tag_of("BundleAgeBlock"), '
                 'exists(k, _i2, length(_seq2), _seq2[k] == b)))'),
            ]),
        },
        ensures=[
            ('nothing_to_do_when_queue_empty', 'implies(length(old(self._fwd_queue)) == 0, self._fwd_queue == old(self._fwd_queue) and '
                                               'ghost.finished == old(ghost.finished) and ghost.tx_out == old(ghost.tx_out))', ['C11']),
            ('head_taken_and_finished', 'implies(length(old(self._fwd_queue)) > 0, length(self._fwd_queue) == '
                                        'length(old(self._fwd_queue)) - 1 and ghost.finished == old(ghost.finished) + [old(self._fwd_queue)[0]])',
             ['C11', 'C19']),
            # C19: what is reported afterwards is what happened
            ('forward_recorded_iff_handed_over',
             'implies(length(old(self._fwd_queue)) > 0, contains(old(self._fwd_queue)[0].actions, "forward") == '
             '(ghost.tx_out == old(ghost.tx_out) + [old(self._fwd_queue)[0]] or '
             '(ghost.tx_out == old(ghost.tx_out) and contains(ghost.consumed, old(self._fwd_queue)[0]))))', ['C19']),
            ('failure_reported_as_deleted_not_forwarded',
             'implies(length(old(self._fwd_queue)) > 0 and ghost.tx_out == old(ghost.tx_out) and '
             'not contains(ghost.consumed, old(self._fwd_queue)[0]), '
             'contains(old(self._fwd_queue)[0].actions, "delete") and not contains(old(self._fwd_queue)[0].actions, "forward") and '
             'eqv(old(self._fwd_queue)[0].status_reason, 6))', ['C19']),
            ('fragmented_bundle_not_reported_deleted',
             'implies(length(old(self._fwd_queue)) > 0 and contains(ghost.consumed, old(self._fwd_queue)[0]), '
             'not contains(old(self._fwd_queue)[0].actions, "delete"))', ['C19']),
            # C11: when the bundle was handed to a sender ...
            ('primary_block_unchanged',
             'implies(length(old(self._fwd_queue)) > 0 and contains(old(self._fwd_queue)[0].actions, "forward"), '
             'primary_kept(old(self._fwd_queue)[0]))', ['C11']),
            ('hop_counts_one_greater_on_the_wire',
             'implies(length(old(self._fwd_queue)) > 0 and contains(old(self._fwd_queue)[0].actions, "forward"), '
             'hops_done(old(self._fwd_queue)[0]))', ['C11']),
            ('exactly_one_previous_node_block_naming_this_node',
             'implies(length(old(self._fwd_queue)) > 0 and contains(old(self._fwd_queue)[0].actions, "forward"), '
             'exists(b, "Pkt[CanonicalBlock]", contains(blocks(old(self._fwd_queue)[0]), b) and '
             'b._pcls == tag_of("PreviousNodeBlock")) and '
             'forall(b, "Pkt[CanonicalBlock]", implies(contains(blocks(old(self._fwd_queue)[0]), b) and '
             'b._pcls == tag_of("PreviousNodeBlock"), not existed(b) and eqv(prev_of(b).node, self._config.node_id))))', ['C11']),
            ('crcs_current_when_encoded', 'implies(old(ghost.wire_crc_ok), ghost.wire_crc_ok)', ['C11', 'C08']),
            # C11: at most one Bundle Age block, made here, whose age is the time since creation as the node's clock shows it
            # while the bundle is being forwarded (a reading made in this call, not one remembered from earlier)
            ('at_most_one_age_block',
             'implies(length(old(self._fwd_queue)) > 0 and contains(old(self._fwd_queue)[0].actions, "forward"), '
             'forall(b, "Pkt[CanonicalBlock]", forall(c, "Pkt[CanonicalBlock]", implies(is_age(old(self._fwd_queue)[0], b) and '
             'is_age(old(self._fwd_queue)[0], c), b == c))))', ['C11']),
            ('age_block_made_here_from_a_clock_reading_of_this_call',
             'implies(length(old(self._fwd_queue)) > 0 and contains(old(self._fwd_queue)[0].actions, "forward"), '
             'forall(b, "Pkt[CanonicalBlock]", implies(is_age(old(self._fwd_queue)[0], b), not existed(b) and '
             'ghost.clock_reads > old(ghost.clock_reads) and '
             'eqv(age_of(b).age, ghost.clock_last - pri(old(self._fwd_queue)[0]).create_ts.dtntime))))', ['C11']),
            ('age_block_present_when_creation_time_known',
             'implies(length(old(self._fwd_queue)) > 0 and contains(old(self._fwd_queue)[0].actions, "forward") and '
             'pri(old(self._fwd_queue)[0]).create_ts.dtntime != 0, '
             'exists(b, "Pkt[CanonicalBlock]", is_age(old(self._fwd_queue)[0], b)))', ['C11']),
            ('no_age_block_for_a_clockless_source',
             'implies(length(old(self._fwd_queue)) > 0 and contains(old(self._fwd_queue)[0].actions, "forward") and '
             'pri(old(self._fwd_queue)[0]).create_ts.dtntime == 0, '
             'forall(b, "Pkt[CanonicalBlock]", not is_age(old(self._fwd_queue)[0], b)))', ['C11']),
        ],
    ),
}
