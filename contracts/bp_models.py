"""Assumed contracts of what the BP agent code calls outside the verified functions
(regular expressions, GLib idle sources, processing-chain step callables, datetime)."""
import z3

from pyvc import extmodels
from pyvc.sym import V, Py, is_py, NONE, Unsupported, mk_int, mk_bool, fresh, fresh_name, truthy
from pyvc.types import TInt, TBool, TStr, TOpt, TAny, TRef, TBytes

EXTERNS = {}
EXTERNS.update(extmodels.MISC)


def pattern_match(eng, args, kwargs):
    '''re.Pattern.match(text): a pure function of (pattern, text); the match object itself is opaque.'''
    pat, text = args[0], args[1]
    if isinstance(text.t, TOpt):
        eng.need(z3.Not(text.t.is_none(text.z)), 'TypeError')
        text = V(text.t.inner, text.t.val(text.z))
    f = z3.Function('re_match', TAny('pattern').sort(), TStr.sort(), z3.BoolSort())
    t = TOpt(TAny('match'))
    m = fresh(TAny('match'), 'match')
    return V(t, z3.If(f(pat.z, text.z), t.some(m.z), t.none()))


def _pattern_other(kind):
    def model(eng, args, kwargs):
        """re.Pattern.fullmatch / search: pure functions of (pattern, text) too, but other relations than match --
        fullmatch implies match (a match of the whole text starts at its beginning), nothing else is known"""
        pat, text = args[0], args[1]
        if isinstance(text.t, TOpt):
            eng.need(z3.Not(text.t.is_none(text.z)), 'TypeError')
            text = V(text.t.inner, text.t.val(text.z))
        f = z3.Function('re_' + kind, TAny('pattern').sort(), TStr.sort(), z3.BoolSort())
        if kind == 'fullmatch':
            g = z3.Function('re_match', TAny('pattern').sort(), TStr.sort(), z3.BoolSort())
            eng.assume(z3.Implies(f(pat.z, text.z), g(pat.z, text.z)))
        t = TOpt(TAny('match'))
        m = fresh(TAny('match'), 'match')
        return V(t, z3.If(f(pat.z, text.z), t.some(m.z), t.none()))
    return model


def sb_matches(eng, pat, text):
    f = z3.Function('re_match', TAny('pattern').sort(), TStr.sort(), z3.BoolSort())
    if isinstance(text.t, TOpt):
        text = V(text.t.inner, text.t.val(text.z))
    return mk_bool(f(pat.z, text.z))


def _ghost_append(eng, name, ref):
    from pyvc import lists as L
    g = eng.st.ghost.get(name)
    if g is not None:
        eng.st.ghost[name] = V(g.t, L.l_append(g.t, g.z, ref.z))


def glib_idle_add(eng, args, kwargs):
    '''Schedules a callable for a later event-loop iteration: nothing runs now.  A bundle container scheduled
    for Agent.send_bundle / Agent.recv_bundle is recorded in the ghost lists sched_send / sched_recv.'''
    fv = args[0]
    if len(args) > 1 and isinstance(args[1].t, TOpt) and isinstance(args[1].t.inner, TRef):
        # (a value known to be not None at this point of the code: `if status:`)
        args = [args[0], V(args[1].t.inner, args[1].t.val(args[1].z))] + list(args[2:])
    if is_py(fv, 'bound') and len(args) > 1 and isinstance(args[1].t, TRef) and args[1].t.cls == 'Ctr':
        name = fv.py[3].name
        # a bundle handed to any other entry point would bypass what the contracts of these two guarantee (C10: every
        # bundle that is processed went through the seen-identity check of recv_bundle): an obligation at every
        # such scheduling (trivially true for the two entry points)
        eng.ob('call_pre', 'idle_add@%s.bundle_scheduled_only_for_send_bundle_or_recv_bundle' % eng.frame.name,
               z3.BoolVal(name in ('send_bundle', 'recv_bundle')), props=('C10',))
        if name == 'send_bundle':
            _ghost_append(eng, 'sched_send', args[1])
        elif name == 'recv_bundle':
            _ghost_append(eng, 'sched_recv', args[1])
    return mk_int(z3.Int(fresh_name('srcid')))


def dt_timedelta(eng, args, kwargs):
    return fresh(TAny('timedelta'), 'td')


def td_total_seconds(eng, args, kwargs):
    from pyvc.types import TFloat
    return V(TFloat, z3.Const(fresh_name('flt'), TFloat.sort()))


EXTERNS.update({
    'datetime.timedelta': dt_timedelta,
    'timedelta.total_seconds': td_total_seconds,
    'pattern.match': pattern_match,
    'pattern.fullmatch': _pattern_other('fullmatch'),
    'pattern.search': _pattern_other('search'),
    'gi.repository.GLib.idle_add': glib_idle_add,
})


def cb_callback(eng, fv, args):
    '''A processing-chain step of some application (ChainStep.action) or a sender callable.

    Assumed (bp_types.NOTES): it may change the bundle container handed to it -- recorded actions,
    status reason, route, sender -- and may raise any Exception; it returns a truth value; it does not
    touch the agent's seen-identity set, forwarding queue or routing tables.'''
    if args and isinstance(args[0].t, TRef) and args[0].t.cls == 'Ctr':
        ctr = args[0]
        # (assumed) the steps of the transmit chain choose route / sender or take the bundle over; they do not
        # record actions on it -- only receive-chain steps do (deliver / forward / delete decisions)
        tx_chain = eng.frame is not None and eng.frame.name == 'send_bundle'
        for fn in (('route', 'sender') if tx_chain else ('actions', 'status_reason', 'route', 'sender')):
            f = eng.spec.field('Ctr', fn)
            eng.write_heap(ctr, (f[0], fn), f[1], fresh(f[1], 'step_' + fn))
        if eng.branch(z3.Bool(fresh_name('step_raises'))):
            gf = eng.st.ghost.get('step_failed')
            if gf is not None:
                eng.st.ghost['step_failed'] = V(gf.t, z3.BoolVal(True))
            eng.py_raise('Exception')
        res = fresh(TOpt(TBool), 'step_result')
        # a step that interrupts the chain (returns a true value) may have taken over the bundle: the
        # fragmentation step of bp.app.fragment does exactly this (route and sender cleared, the fragments
        # scheduled for Agent.send_bundle); recorded in ghost.consumed
        g = eng.st.ghost.get('consumed')
        if g is not None:
            fsn = eng.spec.field('Ctr', 'sender')
            snd = z3.Select(eng.heap_arr((fsn[0], 'sender'), fsn[1]), ctr.z)
            # (assumed) interrupting the chain and leaving no sender means: this step took the bundle over
            frt = eng.spec.field('Ctr', 'route')
            rte = z3.Select(eng.heap_arr((frt[0], 'route'), frt[1]), ctr.z)
            took = z3.And(truthy(res), fsn[1].is_none(snd), frt[1].is_none(rte))
            eng.st.ghost['consumed'] = V(g.t, z3.If(took, z3.Store(g.z, ctr.z, True), g.z))
            gs = eng.st.ghost.get('sched_send')
            if gs is not None:
                # fragments scheduled: some unknown longer list with the old one as prefix (only when consuming)
                more = fresh(gs.t, 'sched_more')
                from pyvc import lists as L
                eng.assume(L.canon(gs.t, more.z))
                eng.st.ghost['sched_send'] = V(gs.t, z3.If(took, L.l_concat(gs.t, gs.z, more.z), gs.z))
        return res
    if args and args[0].t is TBytes:
        # a convergence-layer sender handed the encoded bundle: no effect on the verified state, may raise
        if eng.branch(z3.Bool(fresh_name('sender_raises'))):
            eng.py_raise('Exception')
        return NONE
    # other callables (on_stop ...): no effect on the verified state
    return NONE


def cb_pkt_bytes(eng, v):
    '''bytes(packet) for the mutable BP packets: an unspecified octet string (the encoders are scapy_cbor / cbor2);
    encoding a whole Bundle additionally records whether its CRC fields were up to date (ghost.wire_crc_ok).'''
    from pyvc.types import TBytes as _B
    if v.t.layers and v.t.layers[0] == 'Bundle':
        g = eng.st.ghost.get('wire_crc_ok')
        ok = eng.st.ghost.get('crc_ok')
        if g is not None and ok is not None:
            eng.st.ghost['wire_crc_ok'] = V(g.t, z3.And(g.z, z3.Select(ok.z, v.z)))
    return fresh(_B, 'enc')


def _rd(eng, ref, schema, field):
    f = eng.spec.schemas[schema].fields[field]
    return V(f, z3.Select(eng.heap_arr((schema, field), f), ref.z))


def sb_ident_of(eng, ctr):
    '''The bundle identity as the property states it: (source, creation time, sequence number) and, for
    fragments only, (fragment offset, total application data length, payload length) -- as a list value, so that two
    identities are equal exactly when they have the same components.'''
    from pyvc import lists as L
    from pyvc.types import NAMED, TList
    et = NAMED['IdentElem']
    lt = TList(et)
    bundle = _rd(eng, ctr, 'Ctr', 'bundle')
    prim_o = _rd(eng, bundle, 'pkt:Bundle', 'primary')
    prim = V(prim_o.t.inner, prim_o.t.val(prim_o.z))
    src = _rd(eng, prim, 'pkt:PrimaryBlock', 'source')
    ts = _rd(eng, prim, 'pkt:PrimaryBlock', 'create_ts')
    flags = _rd(eng, prim, 'pkt:PrimaryBlock', 'bundle_flags')
    e_src = z3.If(src.t.is_none(src.z), et.mk('none'), et.mk('str', src.t.val(src.z)))
    e = [e_src, et.mk('int', _rd(eng, ts, 'pkt:Timestamp', 'dtntime').z), et.mk('int', _rd(eng, ts, 'pkt:Timestamp', 'seqno').z)]
    # ... and the fragment's own payload length (the data of block number 1, when there is one)
    bn = _rd(eng, ctr, 'Ctr', '_block_num')
    has1 = z3.Select(bn.t.dom(bn.z), z3.IntVal(1))
    pblk = V(bn.t.v, z3.Select(bn.t.map(bn.z), z3.IntVal(1)))
    btsd = _rd(eng, pblk, 'pkt:CanonicalBlock', 'btsd')
    plen = z3.If(z3.And(has1, z3.Not(btsd.t.is_none(btsd.z))), et.mk('int', z3.Length(btsd.t.val(btsd.z))), et.mk('none'))
    frag = [et.mk('int', _rd(eng, prim, 'pkt:PrimaryBlock', 'fragment_offset').z),
            et.mk('int', _rd(eng, prim, 'pkt:PrimaryBlock', 'total_app_data_len').z), plen]
    from pyvc.sym import int_and_const
    is_frag = int_and_const(flags.z, 1) != 0
    return V(lt, z3.If(is_frag, L.l_from_items(lt, e + frag), L.l_from_items(lt, e)))


def sb_crc_all_valid(eng, bundle):
    '''Uninterpreted here: "every block of the bundle passes its CRC check" (defined by the C08 contracts).'''
    f = z3.Function('crc_all_valid', z3.IntSort(), z3.BoolSort())
    return mk_bool(f(bundle.z))


CALLBACKS = {'callback': cb_callback, 'pkt_bytes': cb_pkt_bytes}
SPECBUILTINS = {'matches': sb_matches, 'ident_of': sb_ident_of, 'crc_all_valid': sb_crc_all_valid}
