"""Assumed contracts of what the BP agent code calls outside the verified functions
(regular expressions, GLib idle sources, processing-chain step callables, datetime)."""
import z3

from pyvc import extmodels
from pyvc.sym import V, Py, is_py, NONE, Unsupported, mk_int, mk_bool, fresh, fresh_name, truthy
from pyvc.types import TInt, TBool, TStr, TOpt, TAny, TRef

EXTERNS = {}
EXTERNS.update(extmodels.MISC)


def pattern_match(eng, args, kwargs):
    '''re.Pattern.match(text): a pure function of (pattern, text); the match object itself is opaque.'''
    pat, text = args[0], args[1]
    if isinstance(text.t, TOpt):
        eng.need(z3.Not(text.t.is_none(text.z)), 'TypeError')
        text = V(text.t.inner, text.t.val(text.z))
    f = z3.Function('re_match', TAny('pattern').sort(), TStr.sort(), z3.BoolSort())
    t = TOpt(TAny('match'))
    m = fresh(TAny('match'), 'match')
    return V(t, z3.If(f(pat.z, text.z), t.some(m.z), t.none()))


def sb_matches(eng, pat, text):
    f = z3.Function('re_match', TAny('pattern').sort(), TStr.sort(), z3.BoolSort())
    if isinstance(text.t, TOpt):
        text = V(text.t.inner, text.t.val(text.z))
    return mk_bool(f(pat.z, text.z))


def glib_idle_add(eng, args, kwargs):
    '''Schedules a callable for a later event-loop iteration: nothing runs now.  The (callable, argument)
    pair is recorded in the ghost list `scheduled` when that ghost exists.'''
    return mk_int(z3.Int(fresh_name('srcid')))


EXTERNS.update({
    'pattern.match': pattern_match,
    'gi.repository.GLib.idle_add': glib_idle_add,
})


def cb_callback(eng, fv, args):
    '''A processing-chain step of some application (ChainStep.action) or a sender callable.

    Assumed (bp_types.NOTES): it may change the bundle container handed to it -- recorded actions,
    status reason, route, sender -- and may raise any Exception; it returns a truth value; it does not
    touch the agent's seen-identity set, forwarding queue or routing tables.'''
    if args and isinstance(args[0].t, TRef) and args[0].t.cls == 'Ctr':
        ctr = args[0]
        for fn in ('actions', 'status_reason', 'route', 'sender'):
            f = eng.spec.field('Ctr', fn)
            eng.write_heap(ctr, (f[0], fn), f[1], fresh(f[1], 'step_' + fn))
        if eng.branch(z3.Bool(fresh_name('step_raises'))):
            eng.py_raise('Exception')
        return fresh(TOpt(TBool), 'step_result')
    # other callables (senders, on_stop): no effect on the verified state
    return NONE


def _rd(eng, ref, schema, field):
    f = eng.spec.schemas[schema].fields[field]
    return V(f, z3.Select(eng.heap_arr((schema, field), f), ref.z))


def sb_ident_of(eng, ctr):
    '''The bundle identity as the property states it: (source, creation time, sequence number) and, for
    fragments only, (fragment offset, total application data length) -- as a list value, so that two
    identities are equal exactly when they have the same components.'''
    from pyvc import lists as L
    from pyvc.types import NAMED, TList
    et = NAMED['IdentElem']
    lt = TList(et)
    bundle = _rd(eng, ctr, 'Ctr', 'bundle')
    prim_o = _rd(eng, bundle, 'pkt:Bundle', 'primary')
    prim = V(prim_o.t.inner, prim_o.t.val(prim_o.z))
    src = _rd(eng, prim, 'pkt:PrimaryBlock', 'source')
    ts = _rd(eng, prim, 'pkt:PrimaryBlock', 'create_ts')
    flags = _rd(eng, prim, 'pkt:PrimaryBlock', 'bundle_flags')
    e_src = z3.If(src.t.is_none(src.z), et.mk('none'), et.mk('str', src.t.val(src.z)))
    e = [e_src, et.mk('int', _rd(eng, ts, 'pkt:Timestamp', 'dtntime').z), et.mk('int', _rd(eng, ts, 'pkt:Timestamp', 'seqno').z)]
    frag = [et.mk('int', _rd(eng, prim, 'pkt:PrimaryBlock', 'fragment_offset').z),
            et.mk('int', _rd(eng, prim, 'pkt:PrimaryBlock', 'total_app_data_len').z)]
    from pyvc.sym import int_and_const
    is_frag = int_and_const(flags.z, 1) != 0
    return V(lt, z3.If(is_frag, L.l_from_items(lt, e + frag), L.l_from_items(lt, e)))


def sb_crc_all_valid(eng, bundle):
    '''Uninterpreted here: "every block of the bundle passes its CRC check" (defined by the C08 contracts).'''
    f = z3.Function('crc_all_valid', z3.IntSort(), z3.BoolSort())
    return mk_bool(f(bundle.z))


CALLBACKS = {'callback': cb_callback}
SPECBUILTINS = {'matches': sb_matches, 'ident_of': sb_ident_of, 'crc_all_valid': sb_crc_all_valid}
