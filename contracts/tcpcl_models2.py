"""More executable models for the TCPCL contracts (io.BytesIO, comprehension
idioms, dict value conformance for D-Bus)."""
import ast
import z3

from pyvc.sym import (V, Py, is_py, NONE, Unsupported, mk_int, mk_bool, fresh, fresh_name, truthy, coerce,
                      mk_str_const)
from pyvc.types import TInt, TBool, TNone, TBytes, TStr, TOpt, TAny, TList, TRef, TDict, TSet, NAMED, parse_type
from pyvc import dbus_sig


def bytesio_new(eng, args, kwargs):
    ref = V(TRef('BytesIO'), eng.new_ref())
    data = args[0] if args else V(TBytes, z3.Empty(TBytes.sort()))
    eng.write_heap(ref, ('BytesIO', 'content'), TBytes, data)
    eng.write_heap(ref, ('BytesIO', 'pos'), TInt, mk_int(0))
    return ref


def file_open(eng, args, kwargs):
    '''open(path, 'rb'): a readable file object, modelled like BytesIO with
    arbitrary content (assumption: the path is readable); 'wb' files are opaque.'''
    mode = args[1].py[1] if len(args) > 1 and args[1].py and args[1].py[0] == 'strlit' else 'r'
    if 'w' in mode:
        return fresh(TAny('outfile'), 'outfile')
    ref = V(TRef('BytesIO'), eng.new_ref())
    eng.write_heap(ref, ('BytesIO', 'content'), TBytes, fresh(TBytes, 'filecontent'))
    eng.write_heap(ref, ('BytesIO', 'pos'), TInt, mk_int(0))
    return ref


EXTERNS = {'io.BytesIO': bytesio_new}


def comprehension(eng, node, src):
    '''[bytes([val]) for val in data]  ->  the octets of data, one bytes object each
       [str(bid) for bid in d.keys()]  ->  list of str(key)'''
    g = node.generators[0]
    if g.ifs or not isinstance(g.target, ast.Name):
        return None
    tgt = g.target.id
    elt = node.elt
    txt = ast.unparse(elt)
    if txt == 'bytes([%s])' % tgt and (src.t is TBytes or (isinstance(src.t, TList) and src.t.elem is TInt)):
        return V(TList(TBytes), z3.Const(fresh_name('octets'), TList(TBytes).sort()),
                 py=('bytes_of_ints', V(TBytes, src.z)))
    if txt == 'str(%s)' % tgt and isinstance(src.t, TList) and src.t.elem is TInt:
        # order-preserving map with the injective str(): modelled by an uninterpreted map function
        lt = TList(TStr)
        f = z3.Function('map_str', TList(TInt).sort(), lt.sort())
        from pyvc import lists as L
        out = f(src.z)
        i = z3.Int('ms_i')
        S = TStr.sort()
        eng.assume(L.canon(lt, out))
        eng.assume(L.l_len(lt, out) == L.l_len(src.t, src.z))
        sel = L.l_get(lt, out, i)
        eng.assume(z3.ForAll([i], z3.Implies(z3.And(i >= 0, i < L.l_len(src.t, src.z)),
                                             sel == S.of_int(L.l_get(src.t, src.z, i))), patterns=[sel]))
        return V(lt, out)
    return None


def cb_open(eng, args, kwargs):
    return file_open(eng, args, kwargs)


def dict_values_conform(eng, d, code):
    '''every value of the dict marshals as `code` (used for a{sv})'''
    t = d.t
    k = z3.Const(fresh_name('k'), t.k.sort())
    val = V(t.v, z3.Select(t.map(d.z), k))
    return z3.ForAll([k], z3.Implies(z3.Select(t.dom(d.z), k), dbus_sig.conforms(eng, val, code)))


CALLBACKS = {'open': cb_open, 'dict_values_conform': dict_values_conform}
NOTES = {'comprehension_hook': comprehension}
