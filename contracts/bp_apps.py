"""Contracts for the fragmentation application (C05: Fragment._create, C06: Fragment._reassemble)."""
import z3

from pyvc.sym import V, mk_int, mk_bool, fresh, fresh_name
from pyvc.types import TInt, TBytes, TPkt

CTR = 'Ref[Ctr]'
FRAG = 'Ref[FragmentApp]'

SCHEMAS = {
    'FragmentApp': {'pyclass': ('bp.app.fragment', 'Fragment'),
                    'fields': {'_agent': 'Ref[Agent]', '_config': 'Opt[Ref[BpConfig]]', '_app_name': 'Str',
                               '_reassembly': 'Dict[List[IdentElem], Ref[Reassembly]]'}},
    # portion.Interval values are modelled as sets of integers (closedopen(a, b) = {i | a <= i < b})
    'Reassembly': {'pyclass': ('bp.app.fragment', 'Reassembly'),
                   'fields': {'ident': 'List[IdentElem]', 'total_length': 'Int', 'first_frag': 'Opt[Pkt[Bundle]]',
                              'total_valid': 'Opt[Set[Int]]', 'valid': 'Opt[Set[Int]]', 'data': 'Opt[Bytes]'}},
}


def portion_closedopen(eng, args, kwargs):
    from pyvc.types import TSet
    a, b = eng.as_int(args[0]), eng.as_int(args[1])
    i = z3.Int(fresh_name('pi'))
    return V(TSet(TInt), z3.Lambda([i], z3.And(a <= i, i < b)))


def portion_empty(eng, args, kwargs):
    from pyvc.types import TSet
    t = TSet(TInt)
    return V(t, t.empty())


def sb_interval(eng, a, b):
    from pyvc.types import TSet
    i = z3.Int(fresh_name('pi'))
    return V(TSet(TInt), z3.Lambda([i], z3.And(a.z <= i, i < b.z)))


def sb_set_union(eng, a, b):
    x = z3.Const(fresh_name('u'), a.t.elem.sort())
    return V(a.t, z3.Lambda([x], z3.Or(a.z[x], b.z[x])))


def sb_orig_payload(eng, ident):
    '''(ghost) the payload of the bundle that the fragments with this identity were cut from'''
    f = z3.Function('orig_payload', ident.t.sort(), TBytes.sort())
    return V(TBytes, f(ident.z))


EXTERNS = {'portion.closedopen': portion_closedopen, 'portion.empty': portion_empty}

GHOST = {
    # one entry per fragment scheduled by Fragment._create, in order
    'frag_off': 'List[Int]',      # offset of its data in the original payload
    'frag_len': 'List[Int]',      # number of payload octets it carries
    'frag_size': 'List[Int]',     # its encoded size (by the encoding-length rule below)
    'frag_data_ok': 'Bool',       # each fragment carries exactly the payload octets of its range
    'frag_hdr_ok': 'Bool',        # each fragment, when scheduled, had the right primary block (see hdr_ok)
    'frag_payload': 'Bytes',      # the payload data taken from the bundle being fragmented
    # what len(<bundle>) returned, per bundle object measured (cb_pkt_len): the size a fragment is given by the contract is
    # the one measured on that very fragment, not a number remembered from another one
    'len_meas': 'Dict[Pkt[Bundle], Int]',
}


def sb_hsize(eng, n):
    '''size of the CBOR head of an unsigned integer / of a byte string of that length (RFC 8949)'''
    z = n.z
    return mk_int(z3.If(z < 24, 1, z3.If(z < 256, 2, z3.If(z < 65536, 3, z3.If(z < 4294967296, 5, 9)))))


def cb_pkt_len(eng, v):
    '''len(bundle): the encoded size, an unknown non-negative number (scapy_cbor / cbor2)'''
    r = fresh(TInt, 'enc_len')
    eng.assume(r.z >= 0)
    cur = eng.st.ghost.get('len_meas')
    if cur is not None and isinstance(v.t, TPkt) and v.t.layers[0] == 'Bundle' and not eng.spec_mode:
        t = cur.t
        eng.st.ghost['len_meas'] = V(t, t.mk(z3.Store(t.dom(cur.z), v.z, True), z3.Store(t.map(cur.z), v.z, r.z)))
    return r


SPECBUILTINS = {'empty_interval': lambda eng: portion_empty(eng, [], {}), 'hsize': sb_hsize, 'interval': sb_interval, 'orig_payload': sb_orig_payload, 'set_union': sb_set_union}
CALLBACKS = {'pkt_len': cb_pkt_len}

ASSUMPTIONS = [
    'BP/C05 encoding-length rule: a bundle whose payload block carries L octets of block-type-specific data encodes to '
    '(its encoded size with an empty payload) - 1 + hsize(L) + L octets, hsize being the CBOR head size; '
    'len(cbor2.dumps(n)) == hsize(n) for an unsigned integer n (cross-checked on the real encoders by the bounded part)',
]

SPECFUNCS = {
    # ---- C06 -------------------------------------------------------------------------------------
    # identity of the bundle a fragment belongs to: (source, creation time, sequence number)
    'rid': (['c'], 'slice(ident_of(c), 0, 3)'),
    'entry_ok': (['r'], 'r.data is not None and r.valid is not None and r.total_valid is not None and '
                        'r.total_length == length(orig_payload(r.ident)) and length(unwrap(r.data)) == r.total_length and '
                        'unwrap(r.total_valid) == interval(0, r.total_length) and '
                        'forall(i, "Int", implies(contains(unwrap(r.valid), i), 0 <= i and i < r.total_length)) and '
                        'implies(contains(unwrap(r.valid), 0), r.first_frag is not None) and '
                        'implies(r.first_frag is not None, unwrap(r.first_frag).primary is not None and '
                        'unwrap(unwrap(r.first_frag).primary).bundle_flags >= 0 and '
                        'unwrap(unwrap(r.first_frag).primary).fragment_offset == 0)'),
    # after this fragment every octet of the original is there
    # (as sets of octet positions: what was valid before, joined with this fragment's range, is the whole payload range)
    'covered_after': (['s', 'c'], 'set_union(ite(old(contains(s._reassembly, rid(c))), '
                                  'unwrap(old(lookup(s._reassembly, rid(c)).valid)), empty_interval()), '
                                  'interval(npri(c).fragment_offset, npri(c).fragment_offset + '
                                  'length(unwrap(old(lookup(c._block_num, 1).btsd))))) == '
                                  'interval(0, length(orig_payload(rid(c))))'),
    # reassembly records of other bundles keep all their fields
    'entries_untouched': (['s', 'c'], 'forall(r, "Ref[Reassembly]", implies(existed(r) and not (old(contains(s._reassembly, rid(c))) and '
                                      'r == old(lookup(s._reassembly, rid(c)))), r.ident == old(r.ident) and '
                                      'r.total_length == old(r.total_length) and eqv(r.first_frag, old(r.first_frag)) and '
                                      'eqv(r.total_valid, old(r.total_valid)) and eqv(r.valid, old(r.valid)) and '
                                      'eqv(r.data, old(r.data))))'),
    # ---- C05 -------------------------------------------------------------------------------------
    'npri': (['c'], 'unwrap(c.bundle.primary)'),
    # primary block of a fragment container fc made from container c at offset off of a payload of `total` octets
    'hdr_ok': (['fc', 'c', 'off', 'total'],
               'fc.bundle.primary is not None and (npri(fc).bundle_flags == npri(c).bundle_flags + 1 or '
               'npri(fc).bundle_flags == npri(c).bundle_flags + 1 + F_ADMIN) and '
               'npri(fc).fragment_offset == off and npri(fc).total_app_data_len == total and '
               'eqv(npri(fc).source, npri(c).source) and eqv(npri(fc).destination, npri(c).destination) and '
               'eqv(npri(fc).report_to, npri(c).report_to) and npri(fc).lifetime == npri(c).lifetime and '
               'npri(fc).create_ts.dtntime == npri(c).create_ts.dtntime and '
               'npri(fc).create_ts.seqno == npri(c).create_ts.seqno and npri(fc).crc_type == npri(c).crc_type and '
               'npri(fc).bp_version == npri(c).bp_version'),
    'hdr_src_kept': (['c'], 'npri(c).bundle_flags == old(npri(c).bundle_flags) and eqv(npri(c).source, old(npri(c).source)) and '
                            'eqv(npri(c).destination, old(npri(c).destination)) and eqv(npri(c).report_to, old(npri(c).report_to)) and '
                            'npri(c).lifetime == old(npri(c).lifetime) and npri(c).create_ts == old(npri(c).create_ts) and '
                            'npri(c).create_ts.dtntime == old(npri(c).create_ts.dtntime) and '
                            'npri(c).create_ts.seqno == old(npri(c).create_ts.seqno) and npri(c).crc_type == old(npri(c).crc_type) and '
                            'npri(c).bp_version == old(npri(c).bp_version) and npri(c).bundle_flags >= 0'),
    'nfrag': ([], 'length(ghost.frag_off) - length(old(ghost.frag_off))'),
    'base': ([], 'length(old(ghost.frag_off))'),
    'may_fragment': (['c'], 'c.route is not None and unwrap(c.route).mtu is not None and '
                            'not flag(npri(c).bundle_flags, F_NO_FRAGMENT) and not flag(npri(c).bundle_flags, F_IS_FRAGMENT)'),
}

LISTS_ALIGNED = ('length(ghost.frag_len) == length(ghost.frag_off) and length(ghost.frag_size) == length(ghost.frag_off) and '
                 'length(ghost.sched_send) - length(old(ghost.sched_send)) == nfrag() and nfrag() >= 0')

FUNCS = {
    'bp.util:BundleContainer.block_num': dict(
        self=CTR, params={'num': 'Int'}, returns='Pkt[CanonicalBlock]', props=['C05'],
        trusted=True, trusted_reason='reads the block index map _block_num, assumed coherent with bundle.blocks (reload)',
        raises={'KeyError': dict(when='not contains(self._block_num, num)', iff=True, modifies=[])},
        modifies=[],
        ensures=[('is_that_block', 'contains(self.bundle.blocks, result) and eqv(result.block_num, num) and '
                                   'result == lookup(self._block_num, num)')],
    ),
    'bp.app.fragment:Fragment._create': dict(
        self=FRAG, params={'ctr': CTR}, returns='Opt[Bool]', props=['C05'],
        requires=[('wire', 'ctr.bundle.primary is not None and npri(ctr).bundle_flags >= 0', []),
                  ('block_flags_nonneg', 'forall(b, "Pkt[CanonicalBlock]", b.block_flags >= 0)', []),
                  ('mtu_positive', 'implies(ctr.route is not None and unwrap(ctr.route).mtu is not None, '
                                   'unwrap(unwrap(ctr.route).mtu) > 0)', []),
                  ('lists_aligned', 'length(ghost.frag_len) == length(ghost.frag_off) and length(ghost.frag_size) == '
                                    'length(ghost.frag_off) and ghost.frag_data_ok and '
                                    'ghost.frag_hdr_ok', [])],
        raises={'RuntimeError': dict(), 'KeyError': dict(), 'TypeError': dict()},
        modifies=['Ctr.route', 'Ctr.sender', 'Ctr.bundle', 'Ctr.actions', 'Ctr.status_reason', 'Ctr._last_block_num',
                  'Ctr._block_num', 'pkt:Bundle.primary', 'pkt:Bundle.blocks', 'pkt:CanonicalBlock.btsd',
                  'pkt:CanonicalBlock.payload', 'pkt:CanonicalBlock._pcls', 'pkt:CanonicalBlock.crc_value',
                  'pkt:CanonicalBlock.type_code', 'pkt:CanonicalBlock.block_num', 'pkt:CanonicalBlock.block_flags',
                  'pkt:CanonicalBlock.crc_type', 'pkt:PrimaryBlock.crc_value', 'pkt:PrimaryBlock.bundle_flags',
                  'pkt:PrimaryBlock._rx_items', 'pkt:CanonicalBlock._rx_items',
                  'pkt:PrimaryBlock.fragment_offset', 'pkt:PrimaryBlock.total_app_data_len', 'pkt:PrimaryBlock.bp_version',
                  'pkt:PrimaryBlock.crc_type', 'pkt:PrimaryBlock.destination', 'pkt:PrimaryBlock.source',
                  'pkt:PrimaryBlock.report_to', 'pkt:PrimaryBlock.create_ts', 'pkt:PrimaryBlock.lifetime',
                  'ghost.crc_ok', 'ghost.sched_send', 'ghost.frag_off', 'ghost.frag_len', 'ghost.frag_size',
                  'ghost.frag_data_ok', 'ghost.frag_hdr_ok', 'ghost.frag_payload', 'ghost.len_meas'],
        locals={'frag_offset': 'Int', 'payload_size': 'Int', 'pyld_size_enc': 'Int', 'mtu': 'Opt[Int]',
                'payload_data': 'Opt[Bytes]'},
        loops={
            0: dict(
                invariant=[
                    ('lists_aligned', LISTS_ALIGNED),
                    ('sizes_known', 'payload_data is not None and payload_size == length(unwrap(payload_data)) and '
                                    'pyld_size_enc == hsize(payload_size) and mtu is not None and unwrap(mtu) > 0 and '
                                    'frag_offset >= 0 and eqv(mtu, old(unwrap(ctr.route).mtu)) and '
                                    'implies(nfrag() > 0, ghost.frag_payload == unwrap(payload_data))'),
                    # C05: every fragment scheduled so far fits the MTU ...
                    ('fragments_fit', 'forall(k, base(), length(ghost.frag_off), ghost.frag_size[k] <= unwrap(mtu))'),
                    # ... their payload ranges tile [0, frag_offset) without gap or overlap ...
                    ('tiling', 'forall(k, base(), length(ghost.frag_off), ghost.frag_len[k] > 0 and ghost.frag_off[k] >= 0 and '
                               'ghost.frag_off[k] + ghost.frag_len[k] <= payload_size) and ghost.frag_data_ok and '
                               'forall(k, base(), length(ghost.frag_off) - 1, ghost.frag_off[k + 1] == ghost.frag_off[k] + ghost.frag_len[k]) and '
                               'implies(nfrag() > 0, ghost.frag_off[base()] == 0)'),
                    ('covered_so_far', 'ite(nfrag() == 0, frag_offset == 0, '
                                       'frag_offset >= last(ghost.frag_off) + last(ghost.frag_len) and '
                                       'ite(frag_offset < payload_size, frag_offset == last(ghost.frag_off) + last(ghost.frag_len), '
                                       'last(ghost.frag_off) + last(ghost.frag_len) == payload_size))'),
                    ('headers_ok', 'ghost.frag_hdr_ok and ghost.sched_recv == old(ghost.sched_recv)'),
                    ('original_primary_kept', 'ctr.bundle == old(ctr.bundle) and eqv(ctr.bundle.primary, old(ctr.bundle.primary)) and '
                                              'ctr.bundle.primary is not None and hdr_src_kept(ctr)'),
                ],
                # (puts the measurement map into the loop's write set: len() is otherwise a pure function)
                ghost_begin=['ghost.len_meas = ghost.len_meas\n'],
                ghost_end=[
                    'ghost.frag_off = ghost.frag_off + [frag_offset - frag_size]\n'
                    'ghost.frag_len = ghost.frag_len + [length(frag_data)]\n'
                    'ghost.frag_data_ok = ghost.frag_data_ok and frag_data == slice(unwrap(payload_data), frag_offset - frag_size, frag_offset - frag_size + length(frag_data))\n'
                    # the encoding-length rule (ASSUMPTIONS): measured size with an empty payload, minus that empty
                    # byte-string head, plus head and octets of the data now put in
                    'ghost.frag_size = ghost.frag_size + [lookup(ghost.len_meas, fctr.bundle) - 1 + hsize(length(frag_data)) + length(frag_data)]\n'
                    'ghost.frag_hdr_ok = ghost.frag_hdr_ok and hdr_ok(fctr, ctr, frag_offset - frag_size, payload_size)\n'
                    'ghost.frag_payload = unwrap(payload_data)\n'
                ],
            ),
            1: dict(invariant=[('block_flags_nonneg', 'forall(b, "Pkt[CanonicalBlock]", b.block_flags >= 0)')]),
        },
        ensures=[
            # bundles that must not or need not be fragmented are left exactly as they were and nothing is scheduled
            ('untouched_when_not_fragmenting',
             'implies(result is None, ghost.sched_send == old(ghost.sched_send) and eqv(ctr.route, old(ctr.route)) and '
             'eqv(ctr.sender, old(ctr.sender)) and ghost.frag_off == old(ghost.frag_off))', ['C05']),
            ('never_fragments_when_forbidden',
             'implies(not old(may_fragment(ctr)), result is None)', ['C05']),
            ('takes_the_bundle_over_when_fragmenting',
             'implies(result is not None, ctr.route is None and ctr.sender is None and nfrag() > 0)', ['C05']),
            ('one_scheduled_send_per_fragment', LISTS_ALIGNED, ['C05']),
            ('every_fragment_within_mtu',
             'implies(result is not None, forall(k, base(), length(ghost.frag_off), ghost.frag_size[k] <= '
             'unwrap(old(unwrap(ctr.route).mtu))))', ['C05']),
            ('ranges_tile_the_payload',
             'implies(result is not None, ghost.frag_off[base()] == 0 and '
             'forall(k, base(), length(ghost.frag_off) - 1, ghost.frag_off[k + 1] == ghost.frag_off[k] + ghost.frag_len[k]) and '
             'forall(k, base(), length(ghost.frag_off), ghost.frag_len[k] > 0) and '
             'last(ghost.frag_off) + last(ghost.frag_len) == length(ghost.frag_payload) and ghost.frag_data_ok)', ['C05']),
            ('fragment_headers', 'ghost.frag_hdr_ok', ['C05']),
        ],
    ),
    # ------------------------------------------------------------------------------------------- C06
    'bp.app.fragment:Fragment._reassemble': dict(
        # (C10 as well: what is reassembled re-enters through Agent.recv_bundle, i.e. through the seen-identity check)
        self=FRAG, params={'ctr': CTR}, returns='Opt[Bool]', props=['C06', 'C10'], handler=True,
        # nothing is claimed about the octets of the reassembly buffer (see MANIFEST): buffer writes are opaque
        opaque_slice_store=True,
        solver_route='cli',    # set / interval reasoning: decided by the command-line solvers, stalls in process
        requires=[
            ('wire', 'ctr.bundle.primary is not None and npri(ctr).bundle_flags >= 0', []),
            # (well-formed input) a fragment offered for delivery is a piece of one original payload per identity
            ('fragment_of_the_original',
             'implies(contains(ctr.actions, "deliver") and flag(npri(ctr).bundle_flags, F_IS_FRAGMENT), '
             'contains(ctr._block_num, 1) and lookup(ctr._block_num, 1).btsd is not None and '
             'npri(ctr).fragment_offset >= 0 and npri(ctr).total_app_data_len == length(orig_payload(rid(ctr))) and '
             'npri(ctr).fragment_offset + length(unwrap(lookup(ctr._block_num, 1).btsd)) <= npri(ctr).total_app_data_len and '
             'length(unwrap(lookup(ctr._block_num, 1).btsd)) > 0)', []),
        ],
        raises={'KeyError': dict(), 'RuntimeError': dict()},
        modifies=['FragmentApp._reassembly', 'Reassembly.ident', 'Reassembly.total_length', 'Reassembly.first_frag',
                  'Reassembly.total_valid', 'Reassembly.valid', 'Reassembly.data', 'Ctr.actions', 'ghost.sched_recv',
                  'Ctr.bundle', 'Ctr.status_reason', 'Ctr.route', 'Ctr.sender', 'Ctr._last_block_num', 'Ctr._block_num',
                  'pkt:Bundle.primary', 'pkt:Bundle.blocks', 'pkt:CanonicalBlock.btsd', 'pkt:CanonicalBlock.crc_type',
                  'pkt:CanonicalBlock.crc_value', 'pkt:PrimaryBlock.bundle_flags', 'pkt:PrimaryBlock.crc_type',
                  'pkt:PrimaryBlock.crc_value', 'pkt:PrimaryBlock._rx_items', 'pkt:CanonicalBlock._rx_items', 'ghost.crc_ok'],
        locals={'reassm': 'Opt[Ref[Reassembly]]'},
        # complete coverage includes octet 0, and the fragment that brought octet 0 was kept as first fragment
        hints=[dict(label='octet_0_is_there', before='del self._reassembly[final_ident]',
                    **{'assert': 'contains(unwrap(unwrap(reassm).valid), 0)'}),
               dict(label='first_fragment_held', before='rctr = BundleContainer()',
                    **{'assert': 'unwrap(reassm).first_frag is not None'})],
        loops={0: dict(invariant=[('nothing_else', 'ghost.sched_recv == old(ghost.sched_recv) and '
                                                  'not contains(self._reassembly, rid(ctr)) and '
                                                  'forall(k, "List[IdentElem]", implies(not (k == rid(ctr)), '
                                                  'contains(self._reassembly, k) == old(contains(self._reassembly, k)) and '
                                                  'implies(contains(self._reassembly, k), lookup(self._reassembly, k) == '
                                                  'old(lookup(self._reassembly, k))))) and entries_untouched(self, ctr)')])},
        ensures=[
            ('ignored_unless_a_delivered_fragment',
             'implies(not old(contains(ctr.actions, "deliver")) or not flag(npri(ctr).bundle_flags, F_IS_FRAGMENT), '
             'result is None and self._reassembly == old(self._reassembly) and ghost.sched_recv == old(ghost.sched_recv) and '
             'ctr.actions == old(ctr.actions))', ['C06']),
            ('fragment_consumed', 'implies(old(contains(ctr.actions, "deliver")) and flag(npri(ctr).bundle_flags, F_IS_FRAGMENT), '
                                  'result is not None and is_empty_set(dom(ctr.actions)))', ['C06']),
            # fragments of different bundles (different source or creation timestamp) never mix
            ('other_bundles_untouched',
             'forall(k, "List[IdentElem]", implies(not (k == rid(ctr)), '
             'contains(self._reassembly, k) == old(contains(self._reassembly, k)) and '
             'implies(contains(self._reassembly, k), lookup(self._reassembly, k) == old(lookup(self._reassembly, k))))) and '
             'entries_untouched(self, ctr)', ['C06']),
            # nothing is delivered while any payload octet is still missing; exactly one bundle once all are there
            ('delivers_once_complete',
             'implies(old(contains(ctr.actions, "deliver")) and flag(npri(ctr).bundle_flags, F_IS_FRAGMENT) and '
             'covered_after(self, ctr), length(ghost.sched_recv) == length(old(ghost.sched_recv)) + 1 and '
             'not contains(self._reassembly, rid(ctr)))', ['C06']),
            ('nothing_delivered_while_octets_missing',
             'implies(old(contains(ctr.actions, "deliver")) and flag(npri(ctr).bundle_flags, F_IS_FRAGMENT) and '
             'not covered_after(self, ctr), ghost.sched_recv == old(ghost.sched_recv) and '
             'contains(self._reassembly, rid(ctr)))', ['C06']),
            ('reassembled_bundle_is_no_fragment',
             'implies(length(ghost.sched_recv) == length(old(ghost.sched_recv)) + 1, '
             'last(ghost.sched_recv).bundle.primary is not None and '
             'not flag(npri(last(ghost.sched_recv)).bundle_flags, F_IS_FRAGMENT))', ['C06']),
        ],
    ),
}

INVARIANTS = {'FragmentApp': [
    # every reassembly in progress: buffer of the announced size, the octets marked valid are in range and are the
    # original's octets, the first fragment is held once octet 0 is there
    ('entries_ok', 'forall(k, "List[IdentElem]", implies(contains(self._reassembly, k), '
                   'entry_ok(lookup(self._reassembly, k)) and lookup(self._reassembly, k).ident == k))', ['C06']),
]}
