"""Contract of the UDPCL transmit pacing (C18, UDPCL send side): TxSendWait._update_send announces every transfer it
takes from its queue as finished exactly once -- when its datagram iterator is exhausted -- with arguments that
conform to the signal's D-Bus signature 'sts'.

Token-bucket arithmetic is floating point: not modelled (arbitrary values, so both outcomes of every comparison
are explored).  The datagram iterator of an item (Agent._send_transfer's generator) and the sender callable are
abstract: next() yields some octets or raises StopIteration; the sender may raise.
"""
import z3

from pyvc.sym import V, Py, is_py, NONE, Unsupported, mk_int, mk_bool, fresh, fresh_name
from pyvc.types import TInt, TBytes, TStr, TOpt, TAny

SCHEMAS = {
    'TxSendItem': {'pyclass': ('udpcl.agent', 'TxSendItem'),
                   'fields': {'item': 'Ref[UBundleItem]', 'sender': 'Func', 'dgram_iter': 'Any[iter]'}},
    'TxSendWait': {'pyclass': ('udpcl.agent', 'TxSendWait'),
                   'fields': {'agent': 'Ref[UAgent]', 'tok_avail': 'Float', 'tok_rate': 'Float',
                              'pri_item_queue': 'List[Ref[TxSendItem]]', 'tx_item_queue': 'List[Ref[TxSendItem]]',
                              'cur_item': 'Opt[Ref[TxSendItem]]', 'cur_dgram': 'Opt[Bytes]'}},
}

GHOST = {
    'u_tx_finished': 'List[Str]',      # transfer ids (as text) announced by send_bundle_finished, in order
}


def cb_next(eng, args):
    '''next(datagram iterator): some octets, or StopIteration when exhausted (or whatever the generator raises)'''
    it = args[0]
    if not isinstance(it.t, TAny):
        return None
    which = eng.choose(3)
    if which == 1:
        eng.py_raise('StopIteration')
    if which == 2:
        eng.py_raise('ValueError')      # e.g. Agent._send_transfer refusing an MTU too small
    return fresh(TBytes, 'dgram')


def cb_callback(eng, fv, args):
    '''the sender callable of an item: hands the datagram to the socket layer; may raise'''
    if eng.branch(z3.Bool(fresh_name('sender_raises'))):
        eng.py_raise('OSError')
    return NONE


def cb_signal(eng, name, args):
    from pyvc import lists as L
    g = eng.st.ghost
    if name == 'recv_bundle_finished' and 'u_rx_finished' in g and args and args[0].t is TStr:
        g['u_rx_finished'] = V(g['u_rx_finished'].t, L.l_append(g['u_rx_finished'].t, g['u_rx_finished'].z, args[0].z))
    if name == 'send_bundle_finished' and 'u_tx_finished' in g and args and args[0].t is TStr:
        g['u_tx_finished'] = V(g['u_tx_finished'].t, L.l_append(g['u_tx_finished'].t, g['u_tx_finished'].z, args[0].z))


CALLBACKS = {'next': cb_next, 'callback': cb_callback, 'signal': cb_signal}

SPECFUNCS = {
    # what the D-Bus signature 'sts' of send_bundle_finished needs of an item: a length that marshals as 't'
    'item_ok': (['t'], 't.item.total_length is not None and unwrap(t.item.total_length) >= 0 and '
                       'unwrap(t.item.total_length) < 18446744073709551616'),
    'cur': (['s'], 'ite(s.cur_item is None, 0, 1)'),
    'nfin': ([], 'length(ghost.u_tx_finished) - length(old(ghost.u_tx_finished))'),
    'queue_ok': (['s'], 'forall(k, 0, length(s.tx_item_queue), item_ok(s.tx_item_queue[k])) and '
                        'implies(s.cur_item is not None, item_ok(unwrap(s.cur_item)))'),
}

W = 'Ref[TxSendWait]'

FUNCS = {
    'udpcl.agent:TxSendWait._update_send': dict(
        self=W, params={'diff_ns': 'Int'}, returns='Bool', props=['C18'],
        requires=[
            # as Agent._add_tx_item / Agent._process_tx_queue leave the items: length measured
            ('items_measured', 'queue_ok(self)', []),
        ],
        # a sender that fails, or a datagram generator that refuses (MTU too small), escapes to the timer callback
        raises={'OSError': dict(), 'ValueError': dict()},
        modifies=['TxSendWait.tok_avail', 'TxSendWait.pri_item_queue', 'TxSendWait.tx_item_queue', 'TxSendWait.cur_item',
                  'TxSendWait.cur_dgram', 'ghost.u_tx_finished'],
        locals={'pri_dgram': 'Bytes'},
        loops={
            0: dict(invariant=[('transfers_untouched', 'self.tx_item_queue == old(self.tx_item_queue) and '
                                                       'eqv(self.cur_item, old(self.cur_item)) and nfin() == 0')]),
            1: dict(invariant=[('transfers_untouched', 'self.tx_item_queue == old(self.tx_item_queue) and '
                                                       'eqv(self.cur_item, old(self.cur_item)) and nfin() == 0')]),
            2: dict(invariant=[
                ('items_measured', 'queue_ok(self)'),
                # every transfer that left (queue + current) was announced finished exactly once
                ('conservation', 'cur(self) + length(self.tx_item_queue) + nfin() == '
                                 'old(cur(self)) + length(old(self.tx_item_queue)) and nfin() >= 0'),
            ]),
        },
        ensures=[
            ('one_finished_signal_per_transfer_that_left',
             'cur(self) + length(self.tx_item_queue) + nfin() == old(cur(self)) + length(old(self.tx_item_queue))', ['C18']),
            ('says_whether_something_is_pending', 'implies(not result, self.cur_item is None and length(self.tx_item_queue) == 0)', ['C18']),
        ],
    ),
}

NOTES = {'callback_writes': {'sender': []}}
