"""Contract of the framing loop Messenger.recv_raw (C07 (a)) relative to the abstract
parser P (tcpcl_models4.py), and of the socket read callback."""
from tcpcl_messenger import CH
from tcpcl_handler import INVARIANTS

INV = [(c[0], c[1]) for c in INVARIANTS['ContactHandler']]

STREAM = 'ghost.rx_consumed + self._Messenger__rx_buf'

FUNCS = {
    'tcpcl.session:Messenger.recv_raw': dict(
        # (C17 as well: this is the entry point the socket callback calls; a message is not handled on a closed connection)
        self=CH, params={'data': 'Bytes'}, handler=True, props=['C07', 'C17'],
        requires=[('open', 'not closed(self)', []),
                  ('peer_name_nonempty', 'length(self._peer_name) > 0', []),
                  ('no_modulation', 'self._config.modulate_target_ack_time is None', []),
                  ('some_octets', 'length(data) > 0', [])],
        modifies=['*'],
        # C14: any received octets count as traffic -- the idle timer is restarted before the buffer is looked at,
        # whether or not the octets complete a message
        hints=[dict(label='idle_timer_restarted_by_received_octets', before='while self.__rx_buf:',
                    **{'assert': 'ghost.idle_resets == old(ghost.idle_resets) + 1'})],
        loops={0: dict(
            invariant=INV + [
                ('stream_conserved', '%s == old(%s) + data' % (STREAM, STREAM)),
                ('configuration_kept', 'length(self._peer_name) > 0 and self._config.modulate_target_ack_time is None'),
                ('consumed_grows', 'length(ghost.rx_consumed) >= length(old(ghost.rx_consumed))'),
                ('trace_grows', 'length(ghost.trace) >= length(old(ghost.trace))'),
                ('in_sess_monotone', 'implies(old(self._in_sess), self._in_sess)'),
                ('keepalive_rearmed_only_by_sending', 'implies(old(self._in_sess), ka_kept(self))'),
                # until the first message has been taken off nothing at all has happened; afterwards the
                # buffer as it stood on entry did start with a complete message
                ('first_or_progressed',
                 'ite(length(ghost.rx_consumed) == length(old(ghost.rx_consumed)), '
                 'self._Messenger__rx_buf == old(self._Messenger__rx_buf) + data and ghost.trace == old(ghost.trace) and '
                 'ghost.rx_consumed == old(ghost.rx_consumed) and self._in_conn == old(self._in_conn), '
                 'p_ok(old(self._in_conn), old(self._Messenger__rx_buf) + data))'),
            ],
            ghost_begin=['_b0 = self._Messenger__rx_buf'],
            ghost_end=['ghost.rx_consumed = ghost.rx_consumed + slice(_b0, 0, length(_b0) - length(self._Messenger__rx_buf))'],
        )},
        ensures=[
            # no octet of the stream is lost, duplicated or reordered between "consumed as messages" and "kept"
            ('stream_conserved', '%s == old(%s) + data' % (STREAM, STREAM), ['C07']),
            # a prefix that is not yet a complete message is left untouched (whatever the chunking so far)
            ('partial_left_untouched',
             'implies(not p_ok(old(self._in_conn), old(self._Messenger__rx_buf) + data), '
             'self._Messenger__rx_buf == old(self._Messenger__rx_buf) + data and ghost.trace == old(ghost.trace) and '
             'ghost.rx_consumed == old(ghost.rx_consumed))', ['C07']),
            # C14: received octets alone never postpone the keepalive this endpoint owes its peer
            ('keepalive_rearmed_only_by_sending', 'implies(old(self._in_sess), ka_kept(self))', ['C14']),
            # every complete message in the buffer has been acted on: what is kept is not (yet) a complete message
            ('complete_messages_acted_on',
             'closed(self) or length(self._Messenger__rx_buf) == 0 or '
             'not p_ok(self._in_conn, self._Messenger__rx_buf)', ['C07']),
        ],
    ),
}
