"""Sidecar contracts for the BTP-U agent (/repo/src/btpu): record schemas and the models of what the agent calls
outside the verified functions (scapy build / dissection of the message classes, portion, io, dataclasses.astuple).

Only *names* are taken from the code: field names bind to the real attributes / fields_desc entries.
"""
import z3

from pyvc import extmodels
from pyvc.sym import V, Py, is_py, NONE, Unsupported, mk_int, mk_bool, fresh, fresh_name, class_tag
from pyvc.types import TInt, TBytes, TStr, TOpt, TAny, TList, TSet, TRef, TPkt

from udpcl_types import copy_copy, bytesio_new, str_of_any
from tcpcl_models2 import comprehension

MODULES = ['btpu.agent', 'btpu.messages', 'btpu.config']

TYPES = {
    # key of the table of transfers in progress: (channel key, transfer number)
    'BKey': ('tuple', [('chan', 'Any[chankey]'), ('num', 'Int')]),
}

SCHEMAS = {
    'BytesIO': {'fields': {'content': 'Bytes', 'pos': 'Int'}},
    'BConfig': {'pyclass': ('btpu.config', 'Config'), 'fields': {'mtu_default': 'Opt[Int]'}},
    'BBundleItem': {'pyclass': ('btpu.agent', 'BundleItem'),
                    'fields': {'address': 'Str', 'file': 'Ref[BytesIO]', 'local_if': 'Opt[Str]', 'local_address': 'Opt[Str]',
                               'transfer_id': 'Opt[Int]', 'total_length': 'Opt[Int]'}},
    # portion integer intervals are modelled as sets of integers
    'RxTransfer': {'pyclass': ('btpu.agent', 'RxTransfer'),
                   'fields': {'got_end': 'Opt[Int]', 'got_idx': 'Set[Int]', 'data': 'Dict[Int, Bytes]', 'timeout_id': 'Opt[Int]'}},
    'Channel': {'pyclass': ('btpu.agent', 'EthernetChannel'),
                'fields': {'local_if': 'Opt[Str]', 'peer_address': 'Opt[Any[mac]]', 'local_address': 'Opt[Any[mac]]',
                           'vlan_tag': 'Opt[Int]'}},
    'BAgent': {'pyclass': ('btpu.agent', 'Agent'),
               'fields': {'_config': 'Ref[BConfig]', '_tx_id': 'Int', '_tx_queue': 'List[Ref[BBundleItem]]',
                          '_rx_progres': 'Dict[BKey, Ref[RxTransfer]]', '_rx_id': 'Int',
                          '_rx_queue': 'Dict[Int, Ref[BBundleItem]]'}},
    # ---- scapy packet records (field names are checked against the real fields_desc) ----------------------------
    'pkt:HintHead': {'pyclass': ('btpu.messages', 'HintHead'), 'pkt': True,
                     'fields': {'hint_type': 'Opt[Int]', 'h_flag': 'Opt[Int]', 'length': 'Opt[Int]', 'payload': 'Int'}},
    'pkt:MessageHead': {'pyclass': ('btpu.messages', 'MessageHead'), 'pkt': True,
                        'fields': {'msg_type': 'Opt[Int]', 'flags': 'Opt[Int]', 'length': 'Opt[Int]',
                                   'hints': 'List[Pkt[HintHead]]', 'payload': 'Int', '_pcls': 'Int'}},
    'pkt:Raw': {'pyclass': None, 'extclass': 'scapy.packet.Raw', 'pkt': True, 'fields': {'load': 'Bytes', 'payload': 'Int'}},
    'pkt:BundlePdu': {'pyclass': ('btpu.messages', 'BundlePdu'), 'pkt': True, 'fields': {'load': 'Bytes', 'payload': 'Int'}},
    'pkt:TransferSeg': {'pyclass': ('btpu.messages', 'TransferSeg'), 'pkt': True,
                        'fields': {'xfer_num': 'Int', 'seg_idx': 'Int', 'payload': 'Int'}},
    'pkt:TransferEnd': {'pyclass': ('btpu.messages', 'TransferEnd'), 'pkt': True,
                        'fields': {'xfer_num': 'Int', 'seg_idx': 'Int', 'payload': 'Int'}},
    'pkt:MessageSet': {'pyclass': ('btpu.messages', 'MessageSet'), 'pkt': True,
                       'fields': {'msgs': 'List[Pkt[MessageHead]]', 'payload': 'Int'}},
}

GHOST = {
    # one entry per segment message produced by Agent._send_transfer, in order
    'bs_off': 'List[Int]',      # offset of its data in the bundle
    'bs_len': 'List[Int]',      # number of bundle octets it carries
    'bs_size': 'List[Int]',     # its encoded size (by the encoding-length rule below)
    'bs_ok': 'Bool',            # each is TransferSeg / TransferEnd (the last) with this transfer's number, its index in
                                # order from 0 and exactly the bundle octets of its range
    # receiver: transfer ids (as text) announced by recv_bundle_finished, in order
    'b_rx_finished': 'List[Str]',
    # receiver loop bookkeeping (Agent._recv_msg): per message, was exactly the expected number of bundles queued
    'b_ok': 'Bool', 'b_n0': 'Int', 'b_expect': 'Bool',
}


# ---- scapy build of the message classes: assumed sizes -------------------------------------------------------------
def _hints_len():
    return z3.Function('btpu_head_len', TList(TPkt(['HintHead'])).sort(), z3.IntSort())


def head_len(eng, pkt):
    '''len(MessageHead with these hints and no payload): 4 octets of header plus the hints'''
    ft = eng.spec.schemas['pkt:MessageHead'].fields['hints']
    hints = V(ft, z3.Select(eng.heap_arr(('pkt:MessageHead', 'hints'), ft), pkt.z))
    n = _hints_len()(hints.z)
    from pyvc import lists as L
    eng.assume(z3.If(L.l_len(ft, hints.z) == 0, n == 4, n >= 4))
    return n


def cb_pkt_len(eng, v):
    if v.t.layers and v.t.layers[0] == 'MessageHead' and len(v.t.layers) == 1:
        return mk_int(head_len(eng, v))
    return None


def cb_pkt_bytes(eng, v):
    '''bytes(MessageHead / TransferSeg|TransferEnd / Raw(d)) and bytes(MessageHead / BundlePdu(d)): an unspecified octet
    string of the size the encoding-length rule gives'''
    ls = v.t.layers
    if ls and ls[0] == 'MessageHead':
        r = fresh(TBytes, 'enc')
        if len(ls) == 3 and ls[1] in ('TransferSeg', 'TransferEnd') and ls[2] == 'Raw':
            raw = eng.pkt_layer_ref(v, 2)
            load = z3.Select(eng.heap_arr(('pkt:Raw', 'load'), TBytes), raw.z)
            eng.assume(z3.Length(r.z) == head_len(eng, v) + 8 + z3.Length(load))
            return r
        if len(ls) == 2 and ls[1] == 'BundlePdu':
            pdu = eng.pkt_layer_ref(v, 1)
            load = z3.Select(eng.heap_arr(('pkt:BundlePdu', 'load'), TBytes), pdu.z)
            eng.assume(z3.Length(r.z) == head_len(eng, v) + z3.Length(load))
            return r
    return None


def int_to_bytes(eng, args, kwargs):
    '''int.to_bytes(n, 'big'): n octets; OverflowError when the number does not fit'''
    x, n = args[0], args[1]
    eng.need(z3.And(x.z >= 0, x.z < 256 ** (z3.simplify(n.z).as_long())), 'OverflowError')
    r = fresh(TBytes, 'be')
    eng.assume(z3.Length(r.z) == n.z)
    return r


def astuple(eng, args, kwargs):
    '''dataclasses.astuple(channel): a function of the channel's fields'''
    c = args[0]
    sc = eng.spec.schemas['Channel']
    doms = []
    vals = []
    for fn, ft in sc.fields.items():
        vals.append(z3.Select(eng.heap_arr(('Channel', fn), ft), c.z))
        doms.append(ft.sort())
    t = TAny('chankey')
    f = z3.Function('chan_key', *(doms + [t.sort()]))
    return V(t, f(*vals))


EXTERNS = {}
EXTERNS.update(extmodels.MISC)
EXTERNS.update(extmodels.GLIB)
EXTERNS.update({'copy.copy': copy_copy, 'io.BytesIO': bytesio_new, 'dataclasses.astuple': astuple})

CALLBACKS = {'pkt_len': cb_pkt_len, 'pkt_bytes': cb_pkt_bytes, 'str_of_any': str_of_any, 'int_method': int_to_bytes}
NOTES = {'comprehension_hook': comprehension}

ASSUMPTIONS = [
    'BTP-U/C20 encoding-length rule (scapy build of btpu.messages is outside the verifier\'s reach): '
    'len(bytes(MessageHead(hints=H) / TransferSeg|TransferEnd(...) / Raw(d))) == len(MessageHead(hints=H)) + 8 + len(d), '
    'len(MessageHead(hints=H)) >= 4 and == 4 without hints, len(bytes(MessageHead() / BundlePdu(d))) == 4 + len(d) '
    '(cross-checked on the real classes by the bounded part, which also checks that declared lengths equal actual '
    'lengths and that decode / encode are inverse on the frames the agent builds)',
    'BTP-U: MessageSet(data) (scapy dissection) yields a list of messages whose payload is a BundlePdu, TransferSeg, '
    'TransferEnd or something else; nothing more is assumed about how the octets map to messages',
    'BTP-U: portion integer intervals are sets of integers (singleton(i) = {i}, closed(a, b) = {i | a <= i <= b}, | union, '
    '== set equality; iterate(closed(0, e), step=1) visits 0..e in order)',
    'BTP-U: a generator body is taken as run to completion; a packet object it yields is taken as its encoding (which '
    'is what EthernetSender makes of it)',
]


# ---- packet constructors outside the declarative subset ---------------------------------------------------------
def _new_raw(eng, layer, data):
    ref = V(TPkt([layer]), eng.new_ref())
    if isinstance(data.t, TOpt):
        eng.need(z3.Not(data.t.is_none(data.z)), 'TypeError')
        data = V(data.t.inner, data.t.val(data.z))
    eng.write_heap(ref, ('pkt:' + layer, 'load'), TBytes, data)
    eng.write_heap(ref, ('pkt:' + layer, 'payload'), TInt, mk_int(0))
    return ref


def raw_new(eng, args, kwargs):
    '''scapy.packet.Raw(octets): a raw layer carrying exactly these octets'''
    data = args[0] if args else kwargs.get('load')
    if data is None:
        data = V(TBytes, z3.Empty(TBytes.sort()))
    return _new_raw(eng, 'Raw', data)


def cb_dissect(eng, ci, args):
    '''Class(octets): BundlePdu is a raw layer (carries the octets); MessageSet(data) is scapy dissection: some list of
    messages, or an exception (caught by the caller)'''
    if ci.qualname == 'BundlePdu':
        return _new_raw(eng, 'BundlePdu', args[0])
    if ci.qualname == 'MessageSet':
        if eng.branch(z3.Bool(fresh_name('dissect_fails'))):
            eng.py_raise('Exception')
        ref = V(TPkt(['MessageSet']), eng.new_ref())
        ft = eng.spec.schemas['pkt:MessageSet'].fields['msgs']
        msgs = fresh(ft, 'msgs')
        eng.assume_wf(msgs)
        eng.write_heap(ref, ('pkt:MessageSet', 'msgs'), ft, msgs)
        eng.write_heap(ref, ('pkt:MessageSet', 'payload'), TInt, mk_int(0))
        return ref
    return None


EXTERNS['scapy.packet.Raw'] = raw_new
CALLBACKS['dissect'] = cb_dissect


def sb_is_layer(eng, pkt, name):
    return mk_bool(name.py[1] in pkt.t.layers)


SPECBUILTINS = {'pkt_len': lambda eng, p: mk_int(head_len(eng, p)), 'is_layer': sb_is_layer}


# ---- fields of a message's payload (class known only at run time: tag in MessageHead._pcls) ----------------------
def _msg_payload(eng, owner):
    sc = eng.spec.schemas['pkt:MessageHead']
    plz = z3.Select(eng.heap_arr(('pkt:MessageHead', 'payload'), sc.fields['payload']), owner.z)
    tagz = z3.Select(eng.heap_arr(('pkt:MessageHead', '_pcls'), sc.fields['_pcls']), owner.z)
    return plz, tagz


def _xfer_field(eng, owner, fn):
    plz, tagz = _msg_payload(eng, owner)
    ft = eng.spec.schemas['pkt:TransferSeg'].fields[fn]
    a = z3.Select(eng.heap_arr(('pkt:TransferSeg', fn), ft), plz)
    b = z3.Select(eng.heap_arr(('pkt:TransferEnd', fn), ft), plz)
    return V(ft, z3.If(tagz == class_tag('TransferEnd'), b, a))


def cb_dynpayload_attr(eng, owner, attr):
    if not (isinstance(owner.t, TPkt) and owner.t.layers[0] == 'MessageHead'):
        return None
    plz, tagz = _msg_payload(eng, owner)
    if attr == 'load':
        # (read under isinstance(msg.payload, BundlePdu))
        return V(TBytes, z3.Select(eng.heap_arr(('pkt:BundlePdu', 'load'), TBytes), plz))
    if attr in ('xfer_num', 'seg_idx'):
        v = _xfer_field(eng, owner, attr)
        if not eng.spec_mode:
            # (scapy IntField: an unsigned 32-bit number after dissection)
            eng.assume(z3.And(v.z >= 0, v.z < 4294967296))
        return v
    if attr == 'payload':
        return Py('extobj', 'xferdata', owner)
    return None


def cb_extobj_attr(eng, base, attr):
    if base.py[1] == 'xferdata' and attr == 'load':
        # the data of a transfer segment: the raw layer after the transfer header; a segment without data has no
        # such layer (scapy NoPayload has no attribute load)
        p2 = _xfer_field(eng, base.py[2], 'payload')
        if not eng.spec_mode:
            eng.need(p2.z != 0, 'AttributeError')
        return V(TBytes, z3.Select(eng.heap_arr(('pkt:Raw', 'load'), TBytes), p2.z))
    return None


def sb_seg_data(eng, msg):
    p2 = _xfer_field(eng, msg, 'payload')
    return V(TBytes, z3.Select(eng.heap_arr(('pkt:Raw', 'load'), TBytes), p2.z))


def sb_msg_kind(eng, msg):
    '''1 bundle PDU, 3 transfer segment, 4 transfer end, 0 anything else (as isinstance on the payload decides)'''
    plz, tagz = _msg_payload(eng, msg)
    return mk_int(z3.If(plz == 0, 0, z3.If(tagz == class_tag('BundlePdu'), 1, z3.If(tagz == class_tag('TransferSeg'), 3,
                  z3.If(tagz == class_tag('TransferEnd'), 4, 0)))))


def sb_has_seg_data(eng, msg):
    return mk_bool(_xfer_field(eng, msg, 'payload').z != 0)


CALLBACKS['dynpayload_attr'] = cb_dynpayload_attr
CALLBACKS['extobj_attr'] = cb_extobj_attr
SPECBUILTINS.update({'msg_kind': sb_msg_kind, 'seg_num': lambda eng, m: _xfer_field(eng, m, 'xfer_num'),
                     'seg_index': lambda eng, m: _xfer_field(eng, m, 'seg_idx'), 'seg_data': sb_seg_data,
                     'has_seg_data': sb_has_seg_data})


# ---- portion integer intervals ------------------------------------------------------------------------------------
def iv_empty(eng, args, kwargs):
    t = TSet(TInt)
    return V(t, t.empty())


def iv_singleton(eng, args, kwargs):
    t = TSet(TInt)
    return V(t, z3.Store(t.empty(), eng.as_int(args[0]), True))


def iv_closed(eng, args, kwargs):
    t = TSet(TInt)
    vs = []
    for x in args[:2]:
        if isinstance(x.t, TOpt):
            if not eng.spec_mode:
                eng.need(z3.Not(x.t.is_none(x.z)), 'TypeError')
            x = V(x.t.inner, x.t.val(x.z))
        vs.append(eng.as_int(x))
    a, b = vs
    i = z3.Int(fresh_name('pi'))
    return V(t, z3.Lambda([i], z3.And(a <= i, i <= b)), py=('closed', a, b))


def iv_iterate(eng, args, kwargs):
    '''portion.iterate(closed(a, b), step=1): a, a+1, ..., b'''
    s = args[0]
    if not (s.py and s.py[0] == 'closed'):
        raise Unsupported('portion.iterate over an interval not built by closed() in the same function')
    from pyvc import lists as L
    a, b = s.py[1], s.py[2]
    lt = TList(TInt)
    r = fresh(lt, 'iter')
    i = z3.Int('it_i')
    sel = L.l_get(lt, r.z, i)
    eng.assume(L.canon(lt, r.z))
    eng.assume(L.l_len(lt, r.z) == z3.If(b >= a, b - a + 1, 0))
    eng.assume(z3.ForAll([i], z3.Implies(z3.And(i >= 0, i < L.l_len(lt, r.z)), sel == a + i), patterns=[sel]))
    return r


EXTERNS.update({'portion.iterate': iv_iterate})
EXTERNS.update({'btpu.agent.apiIntInterval.empty': iv_empty, 'btpu.agent.apiIntInterval.singleton': iv_singleton,
                'btpu.agent.apiIntInterval.closed': iv_closed})


def sb_chan_key(eng, conv):
    return astuple(eng, [conv], {})


def sb_closed_ints(eng, a, b):
    return iv_closed(eng, [a, b], {})


SPECBUILTINS.update({'chan_key': sb_chan_key, 'closed_ints': sb_closed_ints, 'empty_ints': lambda eng: iv_empty(eng, [], {})})


def cb_signal(eng, name, args):
    '''recv_bundle_finished is recorded (its transfer id text) in ghost.b_rx_finished'''
    from pyvc import lists as L
    g = eng.st.ghost.get('b_rx_finished')
    if name == 'recv_bundle_finished' and g is not None and args and args[0].t is TStr:
        eng.st.ghost['b_rx_finished'] = V(g.t, L.l_append(g.t, g.z, args[0].z))


CALLBACKS['signal'] = cb_signal

NOTES['extern_writes'] = {'timeout_add': [], 'idle_add': [], 'io_add_watch': [], 'source_remove': []}


def dc_field(eng, args, kwargs):
    '''dataclasses.field(default_factory=dict | list): the default is a new empty container'''
    f = kwargs.get('default_factory')
    if f is not None and is_py(f, 'builtin') and f.py[1] == 'dict':
        from pyvc.types import TDict
        dt = TDict(TInt, TInt)
        return V(dt, None, py=('emptydict',))
    if f is not None and is_py(f, 'builtin') and f.py[1] == 'list':
        lt = TList(TInt)
        from pyvc import lists as L
        return V(lt, L.l_empty(lt), py=('emptylist',))
    raise Unsupported('dataclasses.field(%s)' % sorted(kwargs))


EXTERNS['dataclasses.field'] = dc_field
