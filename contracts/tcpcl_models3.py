"""Input-side (peer) legality of received packets, by static packet shape."""
import z3

from pyvc.sym import V, mk_bool, truthy
from pyvc.types import TOpt


def _is_none(eng, s, field):
    f = eng.spec.field('ContactHandler', field)
    v = z3.Select(eng.heap_arr((f[0], field), f[1]), s.z)
    return f[1].is_none(v)


def legal_in(eng, s, pkt):
    '''Does the received packet respect the peer's RFC 9174 output automaton, as far as
    this endpoint can tell from what it has recorded?'''
    layers = pkt.t.layers
    if layers[0] == 'Head':
        return mk_bool(_is_none(eng, s, '_conhead_peer'))
    p = layers[1] if len(layers) > 1 else None
    if p == 'SessionInit':
        sc = eng.pkt_schema('SessionInit')
        ref = eng.pkt_layer_ref(pkt, 1)
        mru = z3.Select(eng.heap_arr(('pkt:SessionInit', 'segment_mru'), sc.fields['segment_mru']), ref.z)
        return mk_bool(z3.And(_is_none(eng, s, '_sessinit_peer'), mru > 0))
    return mk_bool(z3.Not(_is_none(eng, s, '_sessinit_peer')))


SPECBUILTINS = {'legal_in': legal_in}
