"""Abstract parser P for tcpcl.session.Messenger.recv_raw (DESIGN 10/C07 (a)).

`msgcls(buf)` followed by `bytes(pkt)` is scapy's dissector applied to the
declarative packet classes: outside the reach of the VC generator.  It enters
the proof of the framing loop as an assumed contract (checked on the real
classes by the bounded C07 (b) stand-in):

  P1  success returns a packet m and its encoding is a non-empty prefix of buf:
      1 <= |enc(m)| <= |buf|,  enc(m) == buf[0:|enc(m)|]
  P2  otherwise formats.VerifyError is raised ("no complete message yet")
  P4  no other exception
  the outcome (complete or not, and the length) is a function of (phase, buf)
  -- p_ok / p_len below -- and its field values are wire values (ranges WIRE).
  P3  (prefix stability: p_ok(buf) => p_ok(buf ++ x) with the same length) is
      needed only for the paper step from the per-call contract of recv_raw to
      "independent of chunking"; it is stated in DESIGN.md, not used by a proof.
"""
import z3

from pyvc.sym import V, Py, is_py, NONE, Unsupported, mk_int, mk_bool, fresh, fresh_name, truthy
from pyvc.types import TInt, TBytes, TPkt, TOpt, TList

SHAPES = {
    'Head': [('contact', ['Head', 'ContactV4']), ('contact_other_version', ['Head'])],
    'MessageHead': [('sess_init', ['MessageHead', 'SessionInit']), ('sess_term', ['MessageHead', 'SessionTerm']),
                    ('keepalive', ['MessageHead', 'Keepalive']), ('reject', ['MessageHead', 'RejectMsg']),
                    ('segment', ['MessageHead', 'TransferSegment']), ('ack', ['MessageHead', 'TransferAck']),
                    ('refuse', ['MessageHead', 'TransferRefuse']), ('unknown_type', ['MessageHead', 'Raw'])],
}


def fresh_pkt(eng, layers):
    refs = []
    for i, layer in enumerate(layers):
        sc = eng.pkt_schema(layer)
        ref = V(TPkt(layers[i:]), eng.new_ref())
        for fn, ft in sc.fields.items():
            if fn == 'payload':
                continue
            if fn.startswith('_'):
                eng.write_heap(ref, ('pkt:' + layer, fn), ft, mk_int(0))
                continue
            val = fresh(ft, 'rx_' + fn)
            if isinstance(ft, TList):
                from pyvc import lists as L
                eng.assume(L.canon(ft, val.z))
                eng.assume(L.l_len(ft, val.z) == 0)   # extension items of received messages are not interpreted
            eng.write_heap(ref, ('pkt:' + layer, fn), ft, val)
        refs.append(ref)
    for i, ref in enumerate(refs):
        nxt = refs[i + 1].z if i + 1 < len(refs) else z3.IntVal(0)
        eng.write_heap(ref, ('pkt:' + layers[i], 'payload'), TInt, mk_int(nxt))
    return refs[0]


def cb_dissect(eng, ci, args):
    if ci.qualname not in SHAPES or len(args) != 1 or args[0].t is not TBytes:
        return None
    import ast
    from tcpcl_msg import WIRE
    buf = args[0]
    phase = z3.IntVal(1 if ci.qualname == 'MessageHead' else 0)
    p_ok = z3.Function('p_ok', z3.IntSort(), TBytes.sort(), z3.BoolSort())
    p_len = z3.Function('p_len', z3.IntSort(), TBytes.sort(), z3.IntSort())
    if not eng.branch(p_ok(phase, buf.z)):
        ver = eng.prog.cls('tcpcl.formats', 'VerifyError')
        eng.py_raise(eng.register_exc_class(ver))
    shapes = SHAPES[ci.qualname]
    k = eng.choose(len(shapes))
    name, layers = shapes[k]
    pkt = fresh_pkt(eng, layers)
    wire = {'contact': 'contact', 'contact_other_version': 'contact_other'}.get(name, name)
    if wire in WIRE:
        cond = eng.spec_eval(ast.parse(WIRE[wire].strip(), mode='eval').body, {'pkt': pkt, 'self': eng.frame.locals.get('self')})
        eng.assume(truthy(cond))
    n = p_len(phase, buf.z)
    eng.assume(z3.And(n >= 1, n <= z3.Length(buf.z)))
    enc = eng.pkt_bytes(pkt)
    eng.assume(z3.Length(enc.z) == n)
    # enc(m) == buf[0:n] is part of P1; the loop only uses the length -- the equation itself is
    # recorded as a ghost fact for the conservation invariant
    eng.frame.locals['__last_parse_len'] = mk_int(n)
    return pkt


CALLBACKS = {'dissect': cb_dissect}


def sb_p_ok(eng, phase, buf):
    f = z3.Function('p_ok', z3.IntSort(), TBytes.sort(), z3.BoolSort())
    return mk_bool(f(z3.If(truthy(phase), 1, 0), buf.z))


def sb_p_len(eng, phase, buf):
    f = z3.Function('p_len', z3.IntSort(), TBytes.sort(), z3.IntSort())
    return mk_int(f(z3.If(truthy(phase), 1, 0), buf.z))


SPECBUILTINS = {'p_ok': sb_p_ok, 'p_len': sb_p_len}
