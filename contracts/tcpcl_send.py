"""Contracts for the Messenger send_* wrappers, timers, close, and the
negotiation functions (C04, C09, C14, C15)."""
from tcpcl_messenger import CH, SEND_MODS, TIMER_MODS, AUTO_MODS, SEND_READY_MODS

# A non-segment event leaves the transfer part of the automaton alone
NONSEG = [
    ('cur_kept', 'eqv(ghost.cur_xid, old(ghost.cur_xid))', []),
    ('started_kept', 'ghost.started == old(ghost.started)', []),
]
ONE_EVENT = ('one_event', 'ghost.trace == old(ghost.trace) + [last(ghost.trace)]', ['C04'])
BUFFERED = ('buffered', 'self._Messenger__tx_buf == old(self._Messenger__tx_buf) + last(ghost.trace).enc and '
                        'ghost.enc_stream == old(ghost.enc_stream) + last(ghost.trace).enc', ['C04'])
TIMERS = [('keepalive_rearmed', 'ka_armed(self)', ['C14']), ('idle_rearmed', 'idle_armed(self)', ['C14']),
          ('timers_ok', 'timers_ok(self)', [])]
FLAGS_KEPT = {
    'ch': ('ch_kept', 'ghost.ch_sent == old(ghost.ch_sent)', []),
    'si': ('si_kept', 'ghost.si_sent == old(ghost.si_sent)', []),
    'term': ('term_kept', 'ghost.term_sent == old(ghost.term_sent)', []),
}


def kept(*names):
    return [FLAGS_KEPT[n] for n in names]


NOT_IN_SESS = dict(when='not self._in_sess', iff=True, modifies=[])

SPECFUNCS = {
    # ---- C15: decision table written from the property statement -----------
    # inputs: the SAN value lists of the peer certificate and the reference identifiers
    'present': (['vals'], 'length(vals) > 0'),
    'ip_ref': (['s'], 'ip_of(peer_addr(s))'),
    'dns_ref_exists': (['s'], 'not s._as_passive and not (s._peer_name == peer_addr(s))'),
    'node_ref': (['s'], 's._sessinit_peer.nodeid_data'),
    'contradicts': (['s'],
                    '(present(san_ip(s)) and not contains(san_ip(s), ip_ref(s))) or '
                    '(dns_ref_exists(s) and present(san_dns(s)) and not contains(san_dns(s), s._peer_name)) or '
                    '(present(san_uri(s)) and not contains(san_uri(s), node_ref(s)))'),
    'host_matched': (['s'], 'contains(san_ip(s), ip_ref(s)) or '
                            '(dns_ref_exists(s) and contains(san_dns(s), s._peer_name))'),
    'node_matched': (['s'], 'contains(san_uri(s), node_ref(s))'),
    'establish_ok': (['s'], 'not contradicts(s) and '
                            'implies(s._config.require_host_authn, host_matched(s)) and '
                            'implies(s._config.require_node_authn, node_matched(s))'),
    'secured': (['s'], 's._Connection__s_tls is not None'),
}

FUNCS = {
    'tcpcl.session:Messenger.send_contact_header': dict(
        self=CH, returns='Pkt[Head, ContactV4]', props=['C04', 'C15'],
        requires=[('legal_out', 'implies(ghost.peer_legal, not ghost.ch_sent)'), ('timers_ok', 'timers_ok(self)', [])],
        modifies=SEND_MODS,
        ensures=[ONE_EVENT, BUFFERED,
                 ('is_contact_header', 'last(ghost.trace).kind == EV_CH'),
                 ('can_tls_from_config', 'last(ghost.trace).flags == ite(self._config.tls_enable, 1, 0) and '
                                         'result.payload.flags == ite(self._config.tls_enable, 1, 0)'),
                 ('ch_sent', 'ghost.ch_sent', [])] + kept('si', 'term') + NONSEG + TIMERS,
    ),
    'tcpcl.session:Messenger.send_sess_init': dict(
        self=CH, returns='Pkt[MessageHead, SessionInit]', props=['C04', 'C14'],
        requires=[('legal_out', 'implies(ghost.peer_legal, ghost.ch_sent and not ghost.si_sent)'),
                  ('timers_ok', 'timers_ok(self)', [])],
        modifies=SEND_MODS,
        ensures=[ONE_EVENT, BUFFERED,
                 ('is_sess_init', 'last(ghost.trace).kind == EV_SESS_INIT'),
                 ('announces_config', 'result.payload.keepalive == self._config.keepalive_time and '
                                      'result.payload.segment_mru == self._config.segment_size_mru and '
                                      'result.payload.nodeid_data == self._config.node_id'),
                 ('si_sent', 'ghost.si_sent', [])] + kept('ch', 'term') + NONSEG + TIMERS,
    ),
    'tcpcl.session:Messenger.send_sess_term': dict(
        self=CH, params={'reason': 'Int', 'is_reply': 'Bool'}, props=['C04', 'C09'],
        requires=[('legal_out', 'implies(ghost.peer_legal and self._in_sess and not self._in_term, '
                                'ghost.si_sent and not ghost.term_sent)'),
                  ('timers_ok', 'timers_ok(self)', [])],
        raises={'RuntimeError': dict(when='not self._in_sess or self._in_term', iff=True, modifies=[])},
        modifies=SEND_MODS + ['Messenger._in_term', 'Messenger._state'],
        ensures=[ONE_EVENT, BUFFERED,
                 ('is_sess_term', 'last(ghost.trace).kind == EV_TERM and last(ghost.trace).reason == reason and '
                                  'last(ghost.trace).flags == ite(is_reply, 1, 0)'),
                 ('terminating', 'self._in_term and ghost.term_sent and eqv(self._state, "ending")')]
        + kept('ch', 'si') + NONSEG + TIMERS,
    ),
    'tcpcl.session:Messenger.send_reject': dict(
        self=CH, params={'reason': 'Opt[Int]', 'pkt': 'Pkt[MessageHead]'}, props=['C04', 'C17'],
        requires=[('legal_out', 'implies(ghost.peer_legal, ghost.si_sent)'), ('timers_ok', 'timers_ok(self)', [])],
        modifies=SEND_MODS,
        ensures=[ONE_EVENT, BUFFERED,
                 ('is_reject', 'last(ghost.trace).kind == EV_REJECT and '
                               'implies(reason is not None, eqv(reason, last(ghost.trace).reason))')]
        + kept('ch', 'si', 'term') + NONSEG + TIMERS,
    ),
    'tcpcl.session:Messenger.send_xfer_data': dict(
        self=CH, params={'transfer_id': 'Int', 'data': 'Bytes', 'flg': 'Int',
                         'ext_items': 'Opt[List[Pkt[TransferExtendHeader]]]'}, props=['C04', 'C01'],
        requires=[('legal_out', 'implies(ghost.peer_legal and self._in_sess, ghost.si_sent and '
                                'self._sessinit_peer is not None and length(data) <= self._sessinit_peer.segment_mru and '
                                'ite(flag(flg, 2), is_none(ghost.cur_xid) and not contains(ghost.started, transfer_id) '
                                '    and not ghost.term_sent and ext_has_len(ext_items), '
                                '    eqv(ghost.cur_xid, transfer_id) and not ext_has_len(ext_items)))'),
                  ('flags_nonneg', 'flg >= 0', []),
                  ('timers_ok', 'timers_ok(self)', [])],
        raises={'RuntimeError': dict(when='not self._in_sess or (ext_len_items(ext_items) > 0 and not flag(flg, 2))',
                                     iff=True, modifies=[])},
        modifies=SEND_MODS,
        ensures=[ONE_EVENT, BUFFERED,
                 ('is_segment', 'last(ghost.trace).kind == EV_SEG and last(ghost.trace).xid == transfer_id and '
                                'last(ghost.trace).flags == flg and last(ghost.trace).data == data and '
                                'last(ghost.trace).dlen == length(data) and '
                                'last(ghost.trace).has_len_ext == ext_has_len(ext_items) and '
                                'implies(ext_has_len(ext_items), last(ghost.trace).len_ext == ext_total(ext_items))'),
                 ('auto_cur', 'eqv(ghost.cur_xid, ite(flag(flg, 1), None, some(transfer_id)))', []),
                 ('auto_started', 'ghost.started == ite(flag(flg, 2), set_add(old(ghost.started), transfer_id), '
                                  'old(ghost.started))', [])] + kept('ch', 'si', 'term') + TIMERS,
    ),
    'tcpcl.session:Messenger.send_xfer_ack': dict(
        self=CH, params={'transfer_id': 'Int', 'length': 'Int', 'flg': 'Int'}, props=['C04', 'C01'],
        requires=[('legal_out', 'implies(ghost.peer_legal and self._in_sess, ghost.si_sent and ghost.rx_have_last and '
                                'transfer_id == ghost.rx_last_id and flg == ghost.rx_last_flags and '
                                'length == ghost.rx_cum)'),
                  ('timers_ok', 'timers_ok(self)', [])],
        raises={'RuntimeError': NOT_IN_SESS},
        modifies=SEND_MODS,
        ensures=[ONE_EVENT, BUFFERED,
                 ('is_ack', 'last(ghost.trace).kind == EV_ACK and last(ghost.trace).xid == transfer_id and '
                            'last(ghost.trace).flags == flg and last(ghost.trace).dlen == length')]
        + kept('ch', 'si', 'term') + NONSEG + TIMERS,
    ),
    'tcpcl.session:Messenger.send_xfer_refuse': dict(
        self=CH, params={'transfer_id': 'Int', 'reason': 'Int'}, props=['C04'],
        requires=[('legal_out', 'implies(ghost.peer_legal and self._in_sess, ghost.si_sent)'),
                  ('timers_ok', 'timers_ok(self)', [])],
        raises={'RuntimeError': NOT_IN_SESS},
        modifies=SEND_MODS,
        ensures=[ONE_EVENT, BUFFERED, ('is_refuse', 'last(ghost.trace).kind == EV_REFUSE and last(ghost.trace).xid == transfer_id')]
        + kept('ch', 'si', 'term') + NONSEG + TIMERS,
    ),
    # ---- negotiation ------------------------------------------------------------
    'tcpcl.session:Messenger.merge_contact_params': dict(
        self=CH, props=['C15'],
        requires=[('headers', 'self._conhead_this is not None and self._conhead_peer is not None', []),
                  ('flags_nonneg', 'self._conhead_this.flags >= 0 and self._conhead_peer.flags >= 0', [])],
        modifies=['Messenger._tls_attempt'],
        ensures=[('attempt_iff_both_offer', 'iff(self._tls_attempt != 0, flag(self._conhead_this.flags, 1) and '
                                            'flag(self._conhead_peer.flags, 1))'),
                 ('attempt_is_bit', 'self._tls_attempt == 0 or self._tls_attempt == 1', [])],
    ),
    'tcpcl.session:match_id': dict(
        props=['C15'],
        params={'ref_id': 'Str', 'cert': 'Any[cert]', 'san_key': 'Ext[cryptography.x509.DNSName]',
                'logger': 'Any[logger]', 'log_name': 'Str'},
        cases=[
            {'name': 'ip', 'params': {'ref_id': 'Any[ipaddr]', 'san_key': 'Ext[cryptography.x509.IPAddress]'},
             'returns': 'AuthnIp'},
            {'name': 'dns', 'params': {'ref_id': 'Opt[Str]', 'san_key': 'Ext[cryptography.x509.DNSName]'},
             'returns': 'AuthnStr'},
            {'name': 'uri', 'params': {'ref_id': 'Str', 'san_key': 'Ext[cryptography.x509.UniformResourceIdentifier]'},
             'returns': 'AuthnStr'},
        ],
        returns='AuthnStr',
        ensures=[('none_iff_no_values', 'iff(result is None, not present(cert_values(cert, san_key)))'),
                 ('value_iff_member', 'iff(union_is(result, "val"), present(cert_values(cert, san_key)) and '
                                      'contains(cert_values(cert, san_key), ref_id))'),
                 ('value_is_ref', 'implies(union_is(result, "val"), eqv(union_get(result, "val"), ref_id))')],
    ),
}
