"""Contracts for status reporting (C19): BundleContainer.create_report, Agent._finish_bundle."""
import z3

from pyvc.sym import V, mk_bool
from pyvc.types import TPkt

CTR = 'Ref[Ctr]'
AG = 'Ref[Agent]'

SPECFUNCS = {
    'pri': (['c'], 'unwrap(c.bundle.primary)'),
    'asked': (['c', 'a', 'f'], 'contains(c.actions, a) and flag(pri(c).bundle_flags, f)'),
    # some action that occurred was also requested to be reported
    'requested_occurred': (['c'], 'asked(c, "delete", F_REQ_DELETION) or asked(c, "deliver", F_REQ_DELIVERY) or '
                                  'asked(c, "forward", F_REQ_FORWARD) or asked(c, "receive", F_REQ_RECEPTION)'),
    'no_report_wanted': (['c'], 'pri(c).report_to is None or pri(c).report_to == "dtn:none"'),
    # loop bookkeeping of create_report: action name a is among the first i keys iterated
    'proc': (['seq', 'i', 'a'], 'exists(k, 0, i, seq[k] == a)'),
    'slot_st': (['c', 'info', 'seq', 'i', 'a', 'f'],
                'info.status == (proc(seq, i, a) and flag(pri(c).bundle_flags, f))'),
    'slot_at': (['c', 'info', 'a', 'ts'],
                '(info.at is not None) == (info.status and ts) and '
                'implies(info.at is not None, eqv(info.at, lookup(c.actions, a)))'),
    # one assertion of the report: made exactly when the action occurred and its report was requested; time iff requested
    'assertion_ok': (['c', 'info', 'a', 'f'],
                     'info.status == asked(c, a, f) and '
                     '(info.at is not None) == (asked(c, a, f) and flag(pri(c).bundle_flags, F_REQ_STATUS_TIME)) and '
                     'implies(info.at is not None, eqv(info.at, lookup(c.actions, a)))'),
}


def _hop(eng, pkt, layer, nxt):
    '''the payload of `pkt` (layer `layer`) as a packet of class `nxt`'''
    ref = z3.Select(eng.heap_arr(('pkt:' + layer, 'payload'), eng.pkt_schema(layer).fields['payload']), pkt.z)
    return V(TPkt([nxt]), ref)


def sb_report_of(eng, blk):
    '''CanonicalBlock / AdminRecord / StatusReport: the status report carried by a payload block'''
    return _hop(eng, _hop(eng, blk, 'CanonicalBlock', 'AdminRecord'), 'AdminRecord', 'StatusReport')


def sb_admin_of(eng, blk):
    return _hop(eng, blk, 'CanonicalBlock', 'AdminRecord')


def sb_carries_report(eng, blk):
    '''the block's payload chain really is AdminRecord / StatusReport (class tags written by the `/` operator)'''
    from pyvc.sym import class_tag
    t1 = z3.Select(eng.heap_arr(('pkt:CanonicalBlock', '_pcls'), eng.pkt_schema('CanonicalBlock').fields['_pcls']), blk.z)
    adm = _hop(eng, blk, 'CanonicalBlock', 'AdminRecord')
    t2 = z3.Select(eng.heap_arr(('pkt:AdminRecord', '_pcls'), eng.pkt_schema('AdminRecord').fields['_pcls']), adm.z)
    return mk_bool(z3.And(t1 == class_tag('AdminRecord'), t2 == class_tag('StatusReport'), adm.z != 0,
                          _hop(eng, adm, 'AdminRecord', 'StatusReport').z != 0))


SPECBUILTINS = {'report_of': sb_report_of, 'admin_of': sb_admin_of, 'carries_report': sb_carries_report}

FUNCS = {
    'bp.util:BundleContainer.__init__': dict(
        self=CTR, params={'bundle': 'Opt[Pkt[Bundle]]'}, props=['C19'],
        trusted=True, trusted_reason='constructor: field initialisation and the block index maps of reload(); the index '
                                     'maps are not part of the status-report argument',
        modifies=['Ctr.bundle', 'Ctr.actions', 'Ctr.status_reason', 'Ctr.route', 'Ctr.sender', 'Ctr._last_block_num',
                  'Ctr._block_num'],
        modifies_self_only=True,
        ensures=[('fresh_container', 'is_empty_set(dom(self.actions)) and self.status_reason is None and self.route is None '
                                     'and self.sender is None'),
                 ('fresh_bundle', 'implies(bundle is None, not existed(self.bundle) and self.bundle.primary is None and '
                                  'length(self.bundle.blocks) == 0)'),
                 ('given_bundle', 'implies(bundle is not None, self.bundle == unwrap(bundle))')],
    ),
    'bp.util:BundleContainer.create_report': dict(
        self=CTR, returns='Opt[Ref[Ctr]]', props=['C19'],
        requires=[('wire', 'self.bundle.primary is not None and pri(self).bundle_flags >= 0', [])],
        modifies=[],
        locals={'status_ts': 'Bool', 'any_status': 'Bool'},
        loops={0: dict(invariant=[
            # among the action names handled so far, assertions were made exactly for the requested ones
            ('deleted_slot', 'slot_st(self, status_array.deleted, _seq, _i, "delete", F_REQ_DELETION)'),
            ('delivered_slot', 'slot_st(self, status_array.delivered, _seq, _i, "deliver", F_REQ_DELIVERY)'),
            ('forwarded_slot', 'slot_st(self, status_array.forwarded, _seq, _i, "forward", F_REQ_FORWARD)'),
            ('received_slot', 'slot_st(self, status_array.received, _seq, _i, "receive", F_REQ_RECEPTION)'),
            ('deleted_time', 'slot_at(self, status_array.deleted, "delete", status_ts)'),
            ('delivered_time', 'slot_at(self, status_array.delivered, "deliver", status_ts)'),
            ('forwarded_time', 'slot_at(self, status_array.forwarded, "forward", status_ts)'),
            ('received_time', 'slot_at(self, status_array.received, "receive", status_ts)'),
            ('status_time_flag', 'status_ts == flag(pri(self).bundle_flags, F_REQ_STATUS_TIME)'),
            ('any_status', 'any_status == (status_array.deleted.status or status_array.delivered.status or '
                           'status_array.forwarded.status or status_array.received.status)'),
        ])},
        ensures=[
            ('report_iff_requested_action_occurred',
             '(result is None) == (no_report_wanted(self) or not requested_occurred(self))', ['C19']),
            ('report_is_new_container', 'implies(result is not None, not existed(unwrap(result)))', []),
            ('addressed_to_report_to',
             'implies(result is not None, eqv(pri(unwrap(result)).destination, pri(self).report_to))', ['C19']),
            ('is_admin_record_and_requests_nothing',
             'implies(result is not None, pri(unwrap(result)).bundle_flags == F_ADMIN and '
             'length(unwrap(result).bundle.blocks) == 1 and unwrap(result).bundle.blocks[0].type_code == 1 and '
             'carries_report(unwrap(result).bundle.blocks[0]) and admin_of(unwrap(result).bundle.blocks[0]).type_code is None)',
             ['C19']),
            ('crc_requested_on_report',
             'implies(result is not None, pri(unwrap(result)).crc_type == 2 and unwrap(result).bundle.blocks[0].crc_type == 2)',
             ['C19']),
            ('identifies_subject',
             'implies(result is not None, eqv(report_of(unwrap(result).bundle.blocks[0]).subj_source, pri(self).source) and '
             'report_of(unwrap(result).bundle.blocks[0]).subj_ts.dtntime == pri(self).create_ts.dtntime and '
             'report_of(unwrap(result).bundle.blocks[0]).subj_ts.seqno == pri(self).create_ts.seqno)', ['C19']),
            ('asserts_exactly_requested_actions_that_occurred',
             'implies(result is not None, '
             'assertion_ok(self, report_of(unwrap(result).bundle.blocks[0]).status.deleted, "delete", F_REQ_DELETION) and '
             'assertion_ok(self, report_of(unwrap(result).bundle.blocks[0]).status.delivered, "deliver", F_REQ_DELIVERY) and '
             'assertion_ok(self, report_of(unwrap(result).bundle.blocks[0]).status.forwarded, "forward", F_REQ_FORWARD) and '
             'assertion_ok(self, report_of(unwrap(result).bundle.blocks[0]).status.received, "receive", F_REQ_RECEPTION))',
             ['C19']),
            ('reason_is_last_recorded',
             'implies(result is not None, report_of(unwrap(result).bundle.blocks[0]).reason_code == '
             'ite(self.status_reason is None or unwrap(self.status_reason) == 0, 0, unwrap(self.status_reason)))', ['C19']),
        ],
    ),
}
