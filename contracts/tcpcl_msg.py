"""Contract of Messenger.recv_message -- the dispatcher of every received
contact header / message -- by static packet shape (C04, C14, C15, C17)."""
from tcpcl_messenger import CH, SEND_MODS, TIMER_MODS, AUTO_MODS, SEND_READY_MODS

U64 = 2 ** 64 - 1

SPECFUNCS = {
    'proceed_ok': (['s'], 's._config.require_tls is None or '
                          '(eqv(s._config.require_tls, s._tls_attempt != 0) and eqv(s._config.require_tls, secured(s)))'),
    'both_offer_tls': (['s'], 'flag(s._conhead_this.flags, 1) and flag(s._conhead_peer.flags, 1)'),
    'queues_kept': (['s'], 's._tx_pend_start == old(s._tx_pend_start) and eqv(s._tx_tmp, old(s._tx_tmp)) and '
                           's._tx_map == old(s._tx_map) and s._tx_pend_ack == old(s._tx_pend_ack) and '
                           'eqv(s._rx_tmp, old(s._rx_tmp)) and s._rx_bundles == old(s._rx_bundles) and '
                           's._rx_map == old(s._rx_map)'),
    'one_reject': (['s'], 'ghost.trace == old(ghost.trace) + [last(ghost.trace)] and last(ghost.trace).kind == EV_REJECT'),
}

ENTRY_GHOST = 'ghost.peer_legal = ghost.peer_legal and legal_in(self, pkt)'

WIRE = {
    'contact': 'pkt.version == 4 and pkt.payload.flags >= 0 and pkt.payload.flags <= 255',
    'contact_other': 'not (pkt.version == 4)',
    'sess_init': 'pkt.payload.keepalive >= 0 and pkt.payload.keepalive <= 65535 and pkt.payload.segment_mru >= 1 '
                 'and pkt.payload.segment_mru <= U64 and pkt.payload.transfer_mru >= 0 and pkt.payload.transfer_mru <= U64',
    'sess_term': 'pkt.payload.flags >= 0 and pkt.payload.flags <= 255 and pkt.payload.reason >= 0 and pkt.payload.reason <= 255',
    'segment': 'pkt.payload.flags >= 0 and pkt.payload.flags <= 255 and pkt.payload.transfer_id >= 0 and '
               'pkt.payload.transfer_id <= U64',
    'ack': 'pkt.payload.flags >= 0 and pkt.payload.flags <= 255 and pkt.payload.transfer_id >= 0 and '
           'pkt.payload.transfer_id <= U64 and pkt.payload.length is not None and pkt.payload.length >= 0 and '
           'pkt.payload.length <= U64',
    'refuse': 'pkt.payload.reason >= 0 and pkt.payload.reason <= 255 and pkt.payload.transfer_id >= 0 and '
              'pkt.payload.transfer_id <= U64',
    'unknown_type': 'pkt.msg_id is not None and pkt.msg_id >= 0 and pkt.msg_id <= 255',
}

# the parser (recv_raw) hands contact headers only before, and messages only after, the contact exchange
PHASE_C = 'not self._in_conn'
PHASE_M = 'self._in_conn'

CASES = [
    {'name': 'contact', 'params': {'pkt': 'Pkt[Head, ContactV4]'}, 'requires': [PHASE_C, WIRE['contact']]},
    {'name': 'contact_other_version', 'params': {'pkt': 'Pkt[Head]'}, 'requires': [PHASE_C, WIRE['contact_other']]},
    {'name': 'sess_init', 'params': {'pkt': 'Pkt[MessageHead, SessionInit]'}, 'requires': [PHASE_M, WIRE['sess_init']]},
    {'name': 'sess_term', 'params': {'pkt': 'Pkt[MessageHead, SessionTerm]'}, 'requires': [PHASE_M, WIRE['sess_term']]},
    {'name': 'keepalive', 'params': {'pkt': 'Pkt[MessageHead, Keepalive]'}, 'requires': [PHASE_M]},
    {'name': 'reject', 'params': {'pkt': 'Pkt[MessageHead, RejectMsg]'}, 'requires': [PHASE_M]},
    {'name': 'segment', 'params': {'pkt': 'Pkt[MessageHead, TransferSegment]'}, 'requires': [PHASE_M, WIRE['segment']]},
    {'name': 'ack', 'params': {'pkt': 'Pkt[MessageHead, TransferAck]'}, 'requires': [PHASE_M, WIRE['ack']]},
    {'name': 'refuse', 'params': {'pkt': 'Pkt[MessageHead, TransferRefuse]'}, 'requires': [PHASE_M, WIRE['refuse']]},
    {'name': 'unknown_type', 'params': {'pkt': 'Pkt[MessageHead, Raw]'}, 'requires': [PHASE_M, WIRE['unknown_type']]},
]

FUNCS = {
    'tcpcl.session:Messenger.recv_message': dict(
        self=CH, params={'pkt': 'AnyPkt'}, cases=CASES, handler=True, props=['C17'],
        requires=[('open', 'not closed(self)', []),
                  ('peer_name_nonempty', 'length(self._peer_name) > 0', []),
                  ('no_modulation', 'self._config.modulate_target_ack_time is None', [])],
        ghost_entry=[ENTRY_GHOST],
        modifies=['*'],
        probes={'in_conn': 'self._in_conn', 'in_sess': 'self._in_sess', 'in_term': 'self._in_term',
                'as_passive': 'self._as_passive', 'secured': 'secured(self)', 'state': 'self._state',
                'require_tls': 'self._config.require_tls', 'tls_enable': 'self._config.tls_enable',
                'peer_legal': 'ghost.peer_legal'},
        # the pre-TLS flush loop `while self.__tx_buf: self._avail_tx_notls()`
        loops={0: dict(invariant=[('timers', 'timers_ok(self) and implies(self._keepalive_timer_id is not None or '
                                             'self._idle_timer_id is not None, self._in_sess and not closed(self))'),
                                  ('not_secured', 'not secured(self)'),
                                  ('wire_grows', 'slice(ghost.wire_out, 0, length(old(ghost.wire_out))) == old(ghost.wire_out)')])},
        ensures=[
            # the framing state belongs to recv_raw: message handling never touches it
            ('rx_buffer_untouched', 'self._Messenger__rx_buf == old(self._Messenger__rx_buf) and '
                                    'ghost.rx_consumed == old(ghost.rx_consumed)', ['C07']),
            ('trace_only_grows', 'length(ghost.trace) >= length(old(ghost.trace))', []),
            ('in_sess_monotone', 'implies(old(self._in_sess), self._in_sess)', []),
            # C14: the keepalive interval counts from the last message *sent*: receiving re-arms it only by sending
            ('keepalive_rearmed_only_by_sending', 'implies(old(self._in_sess), ka_kept(self))', ['C14']),
            ('configuration_kept', 'self._peer_name == old(self._peer_name) and '
                                   '(self._config.modulate_target_ack_time is None) == '
                                   'old(self._config.modulate_target_ack_time is None)', []),
            # ---- C17: out-of-place messages ----------------------------------------------------------------
            ('pre_session_transfer_msg_rejected',
             'implies((is_layer(pkt, "TransferSegment") or is_layer(pkt, "TransferAck") or is_layer(pkt, "TransferRefuse") '
             'or is_layer(pkt, "SessionTerm")) and not old(self._in_sess), one_reject(self) and queues_kept(self))', ['C17']),
            ('unmatched_segment_rejected',
             'implies(is_layer(pkt, "TransferSegment") and old(self._in_sess) and not flag(pkt.payload.flags, 2) and '
             '(old(self._rx_tmp) is None or not eqv(old(self._rx_tmp.transfer_id), pkt.payload.transfer_id)), '
             'one_reject(self) and queues_kept(self))', ['C17']),
            ('unknown_ack_rejected',
             'implies(is_layer(pkt, "TransferAck") and old(self._in_sess) and '
             'not contains(old(self._tx_map), pkt.payload.transfer_id), one_reject(self) and queues_kept(self))', ['C17']),
            ('unknown_refuse_rejected',
             'implies(is_layer(pkt, "TransferRefuse") and old(self._in_sess) and '
             'not contains(old(self._tx_map), pkt.payload.transfer_id), one_reject(self) and queues_kept(self))', ['C17']),
            ('unknown_type_rejected',
             'implies(is_layer(pkt, "Raw"), one_reject(self) and queues_kept(self) and last(ghost.trace).reason == 1)',
             ['C17']),
            ('bad_contact_header_closes',
             'implies(is_layer(pkt, "Head") and (not (pkt.magic == contact.MAGIC_HEAD) or not (pkt.version == 4)), '
             'closed(self) and ghost.trace == old(ghost.trace))', ['C17']),
            ('second_sess_init_rejected',
             'implies(is_layer(pkt, "SessionInit") and old(self._in_sess), one_reject(self) and '
             'eqv(self._sessinit_peer, old(self._sessinit_peer)) and self._keepalive_time == old(self._keepalive_time) and '
             'self._send_segment_size == old(self._send_segment_size))', ['C17']),
            ('own_queue_untouched',
             'self._tx_pend_start == old(self._tx_pend_start) or (is_layer(pkt, "SessionTerm") and old(self._in_sess))',
             ['C17']),
            # ---- C15: TLS policy -------------------------------------------------------------------------------
            ('no_sess_init_against_tls_policy',
             'implies(is_layer(pkt, "Head") and ghost.si_sent and not old(ghost.si_sent), proceed_ok(self))', ['C15']),
            ('tls_only_if_both_offer',
             'implies(is_layer(pkt, "Head") and secured(self) and not old(secured(self)), both_offer_tls(self))', ['C15']),
            ('tls_attempted_if_both_offer',
             'implies(is_layer(pkt, "ContactV4") and pkt.magic == contact.MAGIC_HEAD and not closed(self), '
             'secured(self) == both_offer_tls(self))', ['C15']),
            ('established_only_if_authenticated',
             'implies(is_layer(pkt, "SessionInit") and not old(self._in_sess) and eqv(self._state, "established"), '
             'implies(secured(self), establish_ok(self)))', ['C15']),
            ('authentication_failure_terminates',
             'implies(is_layer(pkt, "SessionInit") and not old(self._in_sess) and secured(self) and not establish_ok(self), '
             'last(ghost.trace).kind == EV_TERM and last(ghost.trace).reason == 4 and '
             'not eqv(self._state, "established"))', ['C15']),
            # ---- C14: negotiated values ----------------------------------------------------------------------------
            ('negotiated_on_establishment',
             'implies(is_layer(pkt, "SessionInit") and not old(self._in_sess) and eqv(self._state, "established"), '
             'self._keepalive_time == min(self._sessinit_this.keepalive, self._sessinit_peer.keepalive) and '
             'self._send_segment_size == min(self._config.segment_size_tx_initial, self._sessinit_peer.segment_mru) and '
             'ka_armed(self) and idle_armed(self))', ['C14']),
            # ---- C09: reply to the peer's SESS_TERM ------------------------------------------------------------------
            ('sess_term_answered_once',
             'implies(is_layer(pkt, "SessionTerm") and old(self._in_sess), self._in_term and '
             'implies(not old(self._in_term), last(ghost.trace).kind == EV_TERM and last(ghost.trace).flags == 1 and '
             '        last(ghost.trace).reason == pkt.payload.reason) and '
             'implies(old(self._in_term), ghost.trace == old(ghost.trace)))', ['C09']),
        ],
    ),
}
