"""Contracts for session negotiation, closing and the idle timer (C14, C15, C09)."""
from tcpcl_messenger import CH, SEND_MODS, TIMER_MODS, AUTO_MODS, SEND_READY_MODS
from tcpcl_send import ONE_EVENT, BUFFERED, TIMERS, NONSEG, kept

LISTEN_IDS = ['Connection._Connection__avail_rx_notls_id', 'Connection._Connection__avail_tx_notls_id',
              'Connection._Connection__avail_rx_tls_id', 'Connection._Connection__avail_tx_tls_id']
CLOSE_MODS = ['Connection._Connection__s_notls', 'Connection._Connection__s_tls'] + LISTEN_IDS + TIMER_MODS
MCLOSE_MODS = CLOSE_MODS + ['Messenger._keepalive_timer_id', 'Messenger._idle_timer_id']

SPECFUNCS = {
    # sources left armed by Connection.close: exactly the old ones minus the four socket listeners
    'unlistened': (['s', 'a'], 'rm_opt(rm_opt(rm_opt(rm_opt(a, s._Connection__avail_rx_tls_id), '
                               's._Connection__avail_tx_tls_id), s._Connection__avail_rx_notls_id), '
                               's._Connection__avail_tx_notls_id)'),
}

NEG_MODS = ['Messenger._keepalive_time', 'Messenger._idle_time', 'Messenger._keepalive_timer_id',
            'Messenger._idle_timer_id', 'Messenger._send_segment_size', 'Messenger._segment_tx_times',
            'Messenger._segment_last_ack_len', 'Messenger._segment_pid_err_last', 'Messenger._segment_pid_err_accum',
            'Messenger._sess_parameters'] + TIMER_MODS

FUNCS = {
    'tcpcl.session:Messenger.merge_session_params': dict(
        self=CH, props=['C14', 'C15'],
        requires=[('inits', 'self._sessinit_this is not None and self._sessinit_peer is not None', []),
                  ('open', 'not closed(self)', []),
                  ('wire_values', 'self._sessinit_this.keepalive >= 0 and self._sessinit_peer.keepalive >= 0 and '
                                  'self._sessinit_peer.segment_mru >= 0 and self._sessinit_peer.transfer_mru >= 0', []),
                  # the peer name is the textual address or host name given to connect(): never empty
                  ('peer_name_nonempty', 'length(self._peer_name) > 0', []),
                  ('timers_ok', 'timers_ok(self)', [])],
        raises={'TerminateError': dict(
            # C15: under TLS the session is established only if the decision table says so
            when='secured(self) and not establish_ok(self)', iff=True, modifies=[],
            attrs={'reason': '4'})},
        modifies=NEG_MODS,
        probes={'secured': 'secured(self)', 'as_passive': 'self._as_passive', 'peer_name': 'self._peer_name',
                'peer_addr': 'peer_addr(self)', 'dns_ref_exists': 'dns_ref_exists(self)',
                'san_ip': 'san_ip(self)', 'ip_ref': 'ip_ref(self)', 'san_dns': 'san_dns(self)',
                'san_uri': 'san_uri(self)', 'node_ref': 'node_ref(self)',
                'require_host_authn': 'self._config.require_host_authn',
                'require_node_authn': 'self._config.require_node_authn',
                'contradicts': 'contradicts(self)', 'host_matched': 'host_matched(self)',
                'node_matched': 'node_matched(self)', 'establish_ok': 'establish_ok(self)'},
        ensures=[
            ('keepalive_is_min', 'self._keepalive_time == min(self._sessinit_this.keepalive, '
                                 'self._sessinit_peer.keepalive)', ['C14']),
            ('idle_from_config', 'self._idle_time == self._config.idle_time', ['C14']),
            ('segment_size_clamped', 'self._send_segment_size == min(self._config.segment_size_tx_initial, '
                                     'self._sessinit_peer.segment_mru)', ['C14', 'C04']),
            ('keepalive_armed', 'ka_armed(self)', ['C14']),
            ('idle_armed', 'idle_armed(self)', ['C14']),
            ('timers_ok', 'timers_ok(self)', []),
            ('reports_keepalive', 'eqv(lookup(self._sess_parameters, "keepalive"), self._keepalive_time) and '
                                  'contains(self._sess_parameters, "keepalive")', ['C14']),
            ('reports_peer', 'eqv(lookup(self._sess_parameters, "peer_nodeid"), self._sessinit_peer.nodeid_data) and '
                             'eqv(lookup(self._sess_parameters, "peer_transfer_mru"), self._sessinit_peer.transfer_mru) and '
                             'eqv(lookup(self._sess_parameters, "peer_segment_mru"), self._sessinit_peer.segment_mru) and '
                             'contains(self._sess_parameters, "peer_nodeid") and '
                             'contains(self._sess_parameters, "peer_transfer_mru") and '
                             'contains(self._sess_parameters, "peer_segment_mru")', ['C14']),
            ('numbers_are_wire_values', 'forall(k, "Str", implies(contains(self._sess_parameters, k) and '
                                        'union_is(lookup(self._sess_parameters, k), "int"), '
                                        'union_get(lookup(self._sess_parameters, k), "int") >= 0))', ['C18']),
            ('established_only_if_policy', 'implies(secured(self), establish_ok(self))', ['C15']),
        ],
    ),
    'tcpcl.session:Connection.close': dict(
        self=CH, props=['C09'],
        modifies=CLOSE_MODS,
        ensures=[('closed', 'closed(self)'),
                 ('tls_socket_dropped', 'implies(not old(closed(self)), self._Connection__s_tls is None) and '
                                        'implies(old(closed(self)), eqv(self._Connection__s_tls, old(self._Connection__s_tls)))', []),
                 ('only_unlistens', 'ghost.src_armed == ite(old(closed(self)), old(ghost.src_armed), '
                                    'old(unlistened(self, ghost.src_armed)))', []),
                 ('maps_kept', 'ghost.src_delay == old(ghost.src_delay) and ghost.src_cb == old(ghost.src_cb)', [])],
    ),
    'tcpcl.session:Messenger.close': dict(
        self=CH, props=['C09', 'C14'],
        modifies=MCLOSE_MODS,
        ensures=[('closed', 'closed(self)'),
                 ('tls_socket_dropped', 'implies(not old(closed(self)), self._Connection__s_tls is None) and '
                                        'implies(old(closed(self)), eqv(self._Connection__s_tls, old(self._Connection__s_tls)))', []),
                 ('timers_cleared', 'self._keepalive_timer_id is None and self._idle_timer_id is None', ['C14']),
                 ('timers_disarmed', 'implies(old(self._keepalive_timer_id) is not None, '
                                     '  not contains(ghost.src_armed, unwrap(old(self._keepalive_timer_id)))) and '
                                     'implies(old(self._idle_timer_id) is not None, '
                                     '  not contains(ghost.src_armed, unwrap(old(self._idle_timer_id))))', ['C14']),
                 ('maps_kept', 'ghost.src_delay == old(ghost.src_delay) and ghost.src_cb == old(ghost.src_cb)', [])],
    ),
    'tcpcl.session:ContactHandler.close': dict(
        self=CH, props=['C09', 'C14'],
        modifies=MCLOSE_MODS,
        ensures=[('closed', 'closed(self)'),
                 ('tls_socket_dropped', 'implies(not old(closed(self)), self._Connection__s_tls is None) and '
                                        'implies(old(closed(self)), eqv(self._Connection__s_tls, old(self._Connection__s_tls)))', []),
                 ('timers_cleared', 'self._keepalive_timer_id is None and self._idle_timer_id is None', ['C14']),
                 ('timers_disarmed', 'implies(old(self._keepalive_timer_id) is not None, '
                                     '  not contains(ghost.src_armed, unwrap(old(self._keepalive_timer_id)))) and '
                                     'implies(old(self._idle_timer_id) is not None, '
                                     '  not contains(ghost.src_armed, unwrap(old(self._idle_timer_id))))', ['C14']),
                 ('maps_kept', 'ghost.src_delay == old(ghost.src_delay) and ghost.src_cb == old(ghost.src_cb)', [])],
    ),
    'tcpcl.session:Messenger._idle_timeout': dict(
        self=CH, props=['C14', 'C09'], handler=True, returns='Bool',
        requires=[('armed', 'self._idle_timer_id is not None and not closed(self)', [])],
        modifies=SEND_MODS + MCLOSE_MODS + ['Messenger._in_term', 'Messenger._state'],
        ensures=[
            ('starts_idle_termination', 'implies(not old(self._in_term), '
                                        'ghost.trace == old(ghost.trace) + [last(ghost.trace)] and '
                                        'last(ghost.trace).kind == EV_TERM and last(ghost.trace).reason == 1 and '
                                        'last(ghost.trace).flags == 0 and self._in_term)', ['C14']),
            ('terminating_endpoint_closes', 'implies(old(self._in_term), closed(self) and '
                                            'ghost.trace == old(ghost.trace))', ['C14', 'C09']),
            # C14 / C09: after starting the idle termination the idle timer runs again (armed by the SESS_TERM just sent),
            # so that an endpoint that hears nothing further closes one idle period later
            ('idle_timer_runs_again', 'implies(not old(self._in_term), idle_armed(self))', ['C14', 'C09']),
            ('one_shot', 'not result', []),
        ],
    ),
}
