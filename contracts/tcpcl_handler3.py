"""Contracts of the ContactHandler termination, acknowledgement and D-Bus view
functions (C09, C17, C18)."""
from tcpcl_messenger import CH, SEND_MODS, TIMER_MODS, AUTO_MODS, SEND_READY_MODS
from tcpcl_send import ONE_EVENT, BUFFERED, TIMERS, NONSEG, kept
from tcpcl_recv import MCLOSE_MODS
from tcpcl_handler import TXQ, RXQ, TRIGGER_MODS, ITEM, FILES, TX_INV
from tcpcl_handler2 import TX_REQ, TX_ENS

SPECFUNCS = {
    'close_fields_kept': (['s'],
                          'ghost.src_armed == old(ghost.src_armed) and ghost.src_delay == old(ghost.src_delay) and '
                          'ghost.src_cb == old(ghost.src_cb) and '
                          'eqv(s._keepalive_timer_id, old(s._keepalive_timer_id)) and '
                          'eqv(s._idle_timer_id, old(s._idle_timer_id)) and '
                          'eqv(s._Connection__s_notls, old(s._Connection__s_notls)) and '
                          'eqv(s._Connection__s_tls, old(s._Connection__s_tls)) and '
                          'eqv(s._Connection__avail_rx_notls_id, old(s._Connection__avail_rx_notls_id)) and '
                          'eqv(s._Connection__avail_tx_notls_id, old(s._Connection__avail_tx_notls_id)) and '
                          'eqv(s._Connection__avail_rx_tls_id, old(s._Connection__avail_rx_tls_id)) and '
                          'eqv(s._Connection__avail_tx_tls_id, old(s._Connection__avail_tx_tls_id))'),
    # number of items already flushed by the loop of recv_sess_term
    'flushed_n': (['s'], 'length(old(s._tx_pend_start)) - length(s._tx_pend_start)'),
}

FLUSH_LOOP_INV = [(c[0], c[1]) for c in TX_INV] + [
    ('suffix', 'flushed_n(self) >= 0 and forall(i, 0, length(self._tx_pend_start), '
               'self._tx_pend_start[i] == old(self._tx_pend_start)[i + flushed_n(self)])'),
    ('flushed_reported', 'forall(i, 0, flushed_n(self), '
                         'contains(ghost.tx_finished, unwrap(old(self._tx_pend_start)[i].transfer_id)))'),
    ('ids_kept', 'forall(it, "Ref[BundleItem]", eqv(it.transfer_id, old(it.transfer_id)))'),
    ('in_sess', 'self._in_sess and timers_ok(self)'),
]

FUNCS = {
    'tcpcl.session:ContactHandler._check_sess_term': dict(
        props=['C09'],
        requires=[('timers_ok', 'timers_ok(self)', [])],
        modifies=MCLOSE_MODS,
        ensures=[
            ('keepalive_kept_unless_sent', 'ka_kept(self)', ['C14']),
            ('closes_iff_terminating_and_idle', 'closed(self) == (old(closed(self)) or (self._in_term and idle_spec(self)))',
             ['C09', 'C14']),
            # C09: nothing may be cut off by the close: no transfer queued / in progress / unacknowledged and
            # no octets in the message buffers ...
            ('closes_only_when_idle', 'implies(closed(self) and not old(closed(self)), self._in_term and idle_spec(self))', ['C09']),
            # ... and also no octets still in the connection buffer (was a recorded finding, repaired by d1b9697)
            ('closes_only_when_drained', 'implies(closed(self) and not old(closed(self)), drained(self))', ['C09']),
            ('unchanged_unless_closing', 'implies(not (self._in_term and idle_spec(self)), close_fields_kept(self))', []),
            ('tls_socket_dropped_on_close', 'implies(not old(closed(self)) and closed(self), self._Connection__s_tls is None) and '
                                            'implies(old(closed(self)), eqv(self._Connection__s_tls, old(self._Connection__s_tls)))', []),
            ('timers_cleared_on_close', 'implies(self._in_term and idle_spec(self) and not old(closed(self)), '
                                        'self._keepalive_timer_id is None and self._idle_timer_id is None and '
                                        'ghost.src_delay == old(ghost.src_delay) and ghost.src_cb == old(ghost.src_cb))', []),
            ('timers_ok', 'timers_ok(self)', []),
        ],
    ),
    'tcpcl.session:ContactHandler.recv_sess_term': dict(
        params={'reason': 'Int'}, props=['C09', 'C18'], handler=True,
        requires=[('open', 'not closed(self)', [])],
        raises={'RejectError': dict(when='not self._in_sess', iff=True, attrs={'reason': '3'}, modifies=[])},
        modifies=['ContactHandler._tx_pend_start', 'ContactHandler._tx_map', 'ghost.signals', 'ghost.tx_finished',
                  'ghost.tx_live'] + MCLOSE_MODS,
        loops={0: dict(invariant=FLUSH_LOOP_INV)},
        ensures=[
            ('keepalive_kept_unless_sent', 'ka_kept(self)', ['C14']),
            ('queue_flushed', 'length(self._tx_pend_start) == 0', ['C09']),
            ('flushed_reported_not_sent', 'forall(i, 0, length(old(self._tx_pend_start)), '
                                          'contains(ghost.tx_finished, unwrap(old(self._tx_pend_start)[i].transfer_id)))',
             ['C09']),
            ('in_progress_untouched', 'eqv(self._tx_tmp, old(self._tx_tmp)) and self._tx_pend_ack == old(self._tx_pend_ack) '
                                      'and eqv(self._rx_tmp, old(self._rx_tmp))', ['C09']),
            ('nothing_sent', 'ghost.trace == old(ghost.trace)', ['C04']),
            # the close check runs after the flush: nothing in flight any more means closed
            ('closed_once_terminating_and_drained', 'implies(self._in_term and idle_spec(self), closed(self))', ['C09']),
        ],
    ),
    'tcpcl.session:ContactHandler.terminate': dict(
        params={'reason_code': 'Opt[Int]'}, props=['C09'], handler=True,
        requires=[('open', 'not closed(self)', [])],
        raises={'RuntimeError': dict(when='not self._in_sess or self._in_term', iff=True, modifies=[])},
        modifies=SEND_MODS + ['Messenger._in_term', 'Messenger._state'],
        ensures=[('sess_term_sent', 'ghost.trace == old(ghost.trace) + [last(ghost.trace)] and '
                                    'last(ghost.trace).kind == EV_TERM and last(ghost.trace).flags == 0 and '
                                    'last(ghost.trace).reason == ite(reason_code is None, 0, unwrap(reason_code)) and '
                                    'self._in_term')],
    ),
    'tcpcl.session:ContactHandler.recv_xfer_ack': dict(
        params={'transfer_id': 'Int', 'flags': 'Int', 'length': 'Int'}, props=['C01', 'C09', 'C17', 'C18'], handler=True,
        requires=[('open', 'not closed(self)', []), ('wire_values', 'flags >= 0 and transfer_id >= 0 and length >= 0 and length <= U64', []),
                  ('no_modulation', 'self._config.modulate_target_ack_time is None', [])],
        raises={'RejectError': dict(
            # an acknowledgement for nothing we wait on: unknown id, or END for a transfer not fully sent
            when='not self._in_sess or not contains(self._tx_map, transfer_id) or '
                 '(flag(flags, 1) and not contains(self._tx_pend_ack, lookup(self._tx_map, transfer_id)))',
            iff=True, attrs={'reason': '3'}, modifies=[])},
        modifies=['ContactHandler._tx_pend_ack', 'ContactHandler._tx_map', 'BundleItem.ack_length', 'ghost.signals',
                  'ghost.tx_finished', 'ghost.tx_live'] + MCLOSE_MODS,
        ensures=[
            ('keepalive_kept_unless_sent', 'ka_kept(self)', ['C14']),
            ('success_only_on_final_ack', 'implies(not flag(flags, 1), ghost.tx_finished == old(ghost.tx_finished) and '
                                          'self._tx_map == old(self._tx_map) and self._tx_pend_ack == old(self._tx_pend_ack))',
             ['C01', 'C18']),
            ('finished_on_final_ack', 'implies(flag(flags, 1), contains(ghost.tx_finished, transfer_id) and '
                                      'last(ghost.signals).name == SIG_SEND_FINISHED and '
                                      'last(ghost.signals).bid == str_of(transfer_id) and '
                                      'last(ghost.signals).result == "success" and '
                                      'not contains(self._tx_map, transfer_id) and '
                                      'self._tx_pend_ack == set_remove(old(self._tx_pend_ack), '
                                      '                                 old(lookup(self._tx_map, transfer_id))))', ['C01', 'C18']),
            ('other_transfers_untouched', 'self._tx_pend_start == old(self._tx_pend_start) and '
                                          'eqv(self._tx_tmp, old(self._tx_tmp)) and eqv(self._rx_tmp, old(self._rx_tmp))', ['C17']),
            ('nothing_sent', 'ghost.trace == old(ghost.trace)', ['C04']),
            # C09: the final acknowledgement may be what a terminating session was waiting for: the close check runs
            ('closed_once_terminating_and_drained', 'implies(flag(flags, 1) and self._in_term and idle_spec(self), closed(self))', ['C09']),
        ],
    ),
    'tcpcl.session:ContactHandler.recv_xfer_refuse': dict(
        params={'transfer_id': 'Int', 'reason': 'Int'}, props=['C09', 'C17', 'C18'], handler=True,
        requires=[('open', 'not closed(self)', []), ('wire_values', 'transfer_id >= 0 and reason >= 0', [])],
        # a refusal names a transfer that was started and is not yet finished; anything else is rejected
        raises={'RejectError': dict(when='not self._in_sess or not contains(self._tx_map, transfer_id) or '
                                         'in_pend(self, lookup(self._tx_map, transfer_id))',
                                    iff=True, attrs={'reason': '3'},
                                    modifies=['ContactHandler._tx_map', 'ContactHandler._tx_pend_ack'],
                                    ensures=[('rejected_refusal_changes_nothing',
                                              'self._tx_map == old(self._tx_map) and '
                                              'self._tx_pend_ack == old(self._tx_pend_ack) and '
                                              'self._tx_pend_start == old(self._tx_pend_start) and '
                                              'eqv(self._tx_tmp, old(self._tx_tmp))', ['C17', 'C18'])])},
        # the refused transfer is over on the wire as well: the output automaton may start the next one
        ghost_exit=['ghost.cur_xid = ite(eqv(ghost.cur_xid, transfer_id), None, ghost.cur_xid)'],
        modifies=['ContactHandler._tx_pend_ack', 'ContactHandler._tx_map', 'ContactHandler._tx_tmp',
                  'ContactHandler._tx_length', 'ghost.signals', 'ghost.tx_finished', 'ghost.tx_live', 'ghost.cur_xid']
        + TRIGGER_MODS + MCLOSE_MODS,
        ensures=[
            ('keepalive_kept_unless_sent', 'ka_kept(self)', ['C14']),
            ('refused_transfer_finished', 'contains(ghost.tx_finished, transfer_id) and '
                                          'not contains(self._tx_map, transfer_id)', ['C18']),
            ('other_transfers_untouched', 'self._tx_pend_start == old(self._tx_pend_start) and '
                                          'eqv(self._rx_tmp, old(self._rx_tmp))', ['C17']),
            ('nothing_sent', 'ghost.trace == old(ghost.trace)', ['C04']),
            # C09: so may a refusal (of a transfer in progress or of one awaiting its acknowledgement)
            ('closed_once_terminating_and_drained', 'implies(self._in_term and idle_spec(self), closed(self))', ['C09']),
        ],
    ),
    # ---- D-Bus view ----------------------------------------------------------------------------------
    'tcpcl.session:ContactHandler.recv_bundle_pop_data': dict(
        params={'bid': 'Str'}, returns='Bytes', props=['C18', 'C01'], handler=True,
        raises={'ValueError': dict(when='not is_int_str(bid)', iff=True, modifies=[]),
                'KeyError': dict(when='is_int_str(bid) and not contains(self._rx_map, int_of_str(bid))', iff=True,
                                 modifies=[])},
        modifies=['ContactHandler._rx_map', 'ContactHandler._rx_bundles', 'BytesIO.pos', 'ghost.rx_live'],
        ghost_exit=['ghost.rx_live = set_remove(ghost.rx_live, int_of_str(bid))'],
        ensures=[
            ('returns_that_transfers_data', 'result == old(lookup(self._rx_map, int_of_str(bid)).file.content)', ['C18', 'C01']),
            ('popped_once', 'self._rx_map == dict_del(old(self._rx_map), int_of_str(bid)) and '
                            'not contains(self._rx_bundles, old(lookup(self._rx_map, int_of_str(bid))))', ['C18']),
        ],
    ),
    'tcpcl.session:ContactHandler.send_bundle_get_queue': dict(
        returns='List[Str]', props=['C18'], handler=True,
        # every listed name is the id of an unfinished transfer; every unfinished transfer is listed
        # (at the position key_index gives: an explicit witness instead of an existential)
        ensures=[('lists_only_unfinished', 'forall(i, 0, length(result), is_int_str(result[i]) and '
                                           'contains(ghost.tx_live, int_of_str(result[i])))'),
                 ('lists_every_unfinished', 'forall(x, "Int", implies(contains(ghost.tx_live, x), '
                                            '0 <= key_index(self._tx_map, x) and key_index(self._tx_map, x) < length(result) and '
                                            'result[key_index(self._tx_map, x)] == str_of(x)))')],
    ),
    'tcpcl.session:ContactHandler.recv_bundle_get_queue': dict(
        returns='List[Str]', props=['C18'], handler=True,
        ensures=[('lists_only_unpopped', 'implies(ghost.peer_legal, forall(i, 0, length(result), is_int_str(result[i]) and '
                                         'contains(ghost.rx_live, int_of_str(result[i]))))'),
                 ('lists_every_unpopped', 'implies(ghost.peer_legal, forall(x, "Int", implies(contains(ghost.rx_live, x), '
                                          '0 <= key_index(self._rx_map, x) and key_index(self._rx_map, x) < length(result) and '
                                          'result[key_index(self._rx_map, x)] == str_of(x))))')],
    ),
    'tcpcl.session:ContactHandler.get_session_parameters': dict(
        returns='Dict[Str, ParamVal]', props=['C18'], handler=True, locals={'params': 'Dict[Str, ParamVal]'},
        loops={0: dict(invariant=[('values_marshal', 'dict_conforms(params, "a{sv}")')], modifies=['local:params', 'local:val', 'local:key'])},
        ensures=[('conforms_to_a_sv', 'dict_conforms(result, "a{sv}")')],
    ),
}
