"""Contracts of the byte pumps (Connection / Messenger buffers), TLS switch-over
and start-up (C01/C04 octet pipeline I7, C07 framing loop, C15 TLS attempt)."""
from tcpcl_messenger import CH, SEND_MODS, TIMER_MODS, AUTO_MODS, SEND_READY_MODS
from tcpcl_recv import MCLOSE_MODS, LISTEN_IDS
from tcpcl_handler import TRIGGER_MODS

PIPE = 'ghost.wire_out + self._Connection__tx_buf + self._Messenger__tx_buf'

INLINE = [
    'tcpcl.session:Connection._avail_tx_notls',
    'tcpcl.session:Connection._avail_tx_tls',
    'tcpcl.session:Connection._avail_rx_notls',
    'tcpcl.session:Connection._avail_rx_tls',
]

FUNCS = {
    'tcpcl.session:Messenger.send_raw': dict(
        self=CH, params={'size': 'Int'}, returns='Bytes', props=['C04'],
        requires=[('size_pos', 'size > 0', [])],
        modifies=['Messenger._Messenger__tx_buf'] + TRIGGER_MODS,
        ensures=[('pops_prefix', 'result == old(slice(self._Messenger__tx_buf, 0, size)) and '
                                 'self._Messenger__tx_buf == old(slice(self._Messenger__tx_buf, min(size, '
                                 'length(self._Messenger__tx_buf)), length(self._Messenger__tx_buf)))', ['C04', 'C01']),
                 ('sources_only_added', 'forall(j, "Int", implies(contains(old(ghost.src_armed), j), '
                                        'contains(ghost.src_armed, j) and lookup(ghost.src_cb, j) == lookup(old(ghost.src_cb), j) '
                                        'and lookup(ghost.src_delay, j) == lookup(old(ghost.src_delay), j)))', [])],
    ),
    'tcpcl.session:Connection._tx_proxy': dict(
        self=CH, params={'sock': 'Any[sock]'}, returns='Bool', props=['C04', 'C01'],
        requires=[('timers_ok', 'timers_ok(self)', [])],
        modifies=['Connection._Connection__tx_buf', 'Messenger._Messenger__tx_buf', 'ghost.wire_out']
        + TRIGGER_MODS + MCLOSE_MODS,
        ensures=[
            # I7: octets are neither lost, duplicated nor reordered between message encoding and the socket
            ('pipeline_preserved', 'implies(not closed(self), %s == old(%s))' % (PIPE, PIPE), ['C04', 'C01']),
            ('wire_only_grows', 'slice(ghost.wire_out, 0, length(old(ghost.wire_out))) == old(ghost.wire_out)', ['C04']),
            ('timers_ok', 'timers_ok(self)', []),
            ('timers_cleared_if_closed', 'implies(closed(self) and not old(closed(self)), '
                                         'self._keepalive_timer_id is None and self._idle_timer_id is None and '
                                         'self._Connection__s_tls is None)', []),
            ('timers_kept_otherwise', 'implies(not closed(self), '
                                      'eqv(self._keepalive_timer_id, old(self._keepalive_timer_id)) and '
                                      'eqv(self._idle_timer_id, old(self._idle_timer_id)) and '
                                      'eqv(self._Connection__s_tls, old(self._Connection__s_tls)))', []),
        ],
    ),
    'tcpcl.session:Connection.secure': dict(
        self=CH, params={'ssl_ctx': 'Opt[Any[sslctx]]'}, props=['C15'],
        trusted=True, trusted_reason='TLS handshake is OpenSSL/ssl behaviour; only its documented outcome is assumed',
        requires=[('open', 'not closed(self)', ['C17'])],
        raises={'ssl.SSLError': dict(modifies=['Connection._Connection__avail_rx_notls_id',
                                               'Connection._Connection__avail_tx_notls_id'] + TIMER_MODS,
                                     ensures=[('not_secured', 'not secured(self)', [])])},
        modifies=['Connection._Connection__s_tls', 'Connection._Connection__avail_rx_tls_id',
                  'Connection._Connection__avail_rx_notls_id', 'Connection._Connection__avail_tx_notls_id'] + TIMER_MODS,
        ensures=[('secured', 'secured(self) and not closed(self)', []),
                 ('timer_sources_kept', 'timers_ok(self)', [])],
    ),
    'tcpcl.config:Config.get_ssl_context': dict(
        self='Ref[Config]', returns='Opt[Any[sslctx]]',
        trusted=True, trusted_reason='builds an ssl.SSLContext from files; assumed: the TLS files configured are valid',
        ensures=[('context_iff_enabled', '(result is not None) == self.tls_enable', [])],
    ),
    'tcpcl.session:Messenger.start': dict(
        self=CH, props=['C04'],
        requires=[('fresh', 'self._conhead_this is None and self._sessinit_this is None and not ghost.ch_sent and '
                            'not ghost.si_sent and not ghost.term_sent and timers_ok(self) and '
                            'self._keepalive_timer_id is None and self._idle_timer_id is None', [])],
        modifies=SEND_MODS + ['Messenger._conhead_peer', 'Messenger._conhead_this', 'Messenger._in_conn',
                              'Messenger._sessinit_peer', 'Messenger._sessinit_this', 'Messenger._in_sess',
                              'Messenger._in_term', 'Messenger._state'],
        ensures=[('active_sends_contact_header', 'implies(not self._as_passive, length(ghost.trace) == length(old(ghost.trace)) + 1 '
                                                 'and last(ghost.trace).kind == EV_CH and self._conhead_this is not None)', ['C04']),
                 ('passive_waits', 'implies(self._as_passive, ghost.trace == old(ghost.trace) and self._conhead_this is None)', ['C04']),
                 ('phase_reset', 'not self._in_conn and not self._in_sess and not self._in_term and '
                                 'self._conhead_peer is None and self._sessinit_peer is None and self._sessinit_this is None', [])],
    ),
}
