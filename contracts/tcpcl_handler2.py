"""Contracts of the ContactHandler transfer functions (C01, C04, C09, C17, C18)."""
from tcpcl_messenger import CH, SEND_MODS, TIMER_MODS, AUTO_MODS, SEND_READY_MODS
from tcpcl_send import ONE_EVENT, BUFFERED, TIMERS, NONSEG, kept
from tcpcl_recv import MCLOSE_MODS
from tcpcl_handler import TXQ, RXQ, TRIGGER_MODS, ITEM, FILES, TX_INV

TX_REQ = [(c[0], c[1]) for c in TX_INV]
TX_ENS = [(c[0], c[1], list(c[2]) if len(c) > 2 else []) for c in TX_INV]

RX_GHOST = ['ghost.peer_legal', 'ghost.rx_have_last', 'ghost.rx_last_id', 'ghost.rx_last_flags', 'ghost.rx_cum',
            'ghost.rx_ids_seen']

SPECFUNCS = {
    # the transfer the sender works on next, its progress and the octets of the next segment (C01 sender step)
    'tx_item': (['s'], 'ite(s._tx_tmp is None, s._tx_pend_start[0], unwrap(s._tx_tmp))'),
    'tx_sent': (['s'], 'ite(s._tx_tmp is None, 0, unwrap(s._tx_length))'),
    'tx_total': (['s'], 'length(tx_item(s).file.content)'),
    'tx_chunk': (['s'], 'min(s._send_segment_size, tx_total(s) - tx_sent(s))'),
    # a segment is due: a transfer is in progress, or one may be started (never after our SESS_TERM)
    'can_send': (['s'], 's._in_sess and (s._tx_tmp is not None or '
                        '(length(s._tx_pend_start) > 0 and not s._in_term))'),
    # receive side: the buffer after a segment (C01 receiver step)
    'rx_buf_after': (['s', 'flags', 'data'], 'ite(flag(flags, 2), data, s._rx_tmp.file.content + data)'),
    'seg_in_legal': (['s', 'tid', 'flags'],
                     'ite(flag(flags, 2), s._rx_tmp is None and not contains(ghost.rx_ids_seen, tid), '
                     '    s._rx_tmp is not None and eqv(s._rx_tmp.transfer_id, tid))'),
    'item_unqueued': (['s', 'it'], 'forall(k, "Int", implies(contains(s._tx_map, k), lookup(s._tx_map, k) != it)) and '
                                   'not eqv(s._tx_tmp, it) and not contains(s._tx_pend_ack, it)'),
}

INLINE = [
    'tcpcl.session:ContactHandler.next_id',
    'tcpcl.session:ContactHandler._rx_teardown',
]

RX_ENTRY_GHOST = '''
ghost.peer_legal = ghost.peer_legal and seg_in_legal(self, transfer_id, flags)
ghost.rx_have_last = True
ghost.rx_last_id = transfer_id
ghost.rx_last_flags = flags
ghost.rx_cum = ite(flag(flags, 2), 0, ghost.rx_cum) + length(data)
ghost.rx_ids_seen = ite(flag(flags, 2), set_add(ghost.rx_ids_seen, transfer_id), ghost.rx_ids_seen)
'''

FUNCS = {
    'tcpcl.session:ContactHandler._add_queue_item': dict(
        params={'item': 'Ref[BundleItem]'}, returns='Int', props=['C01', 'C18'],
        requires=TX_REQ + [
            ('new_item', 'item.transfer_id is None and item.file is not None and item.ack_length == 0 and '
                         'item.total_length is None and item_unqueued(self, item)'),
            ('file_not_rx', 'implies(self._rx_tmp is not None, not eqv(item.file, self._rx_tmp.file))'),
        ],
        modifies=['ContactHandler._tx_next_id', 'ContactHandler._tx_pend_start', 'ContactHandler._tx_map',
                  'BundleItem.transfer_id', 'ghost.tx_live'] + TRIGGER_MODS,
        ghost_exit=['ghost.tx_live = set_add(ghost.tx_live, result)'],
        ensures=[
            ('live', 'ghost.tx_live == set_add(old(ghost.tx_live), old(self._tx_next_id))', ['C18']),
            ('queued_at_back', 'self._tx_pend_start == old(self._tx_pend_start) + [item]', ['C01']),
            ('fresh_id', 'eqv(item.transfer_id, old(self._tx_next_id)) and self._tx_next_id == old(self._tx_next_id) + 1 '
                         'and result == old(self._tx_next_id)', ['C04', 'C18']),
            ('mapped', 'self._tx_map == dict_put(old(self._tx_map), old(self._tx_next_id), item)', ['C18']),
            ('others_kept', 'forall(it, "Ref[BundleItem]", implies(it != item, '
                            'eqv(it.transfer_id, old(it.transfer_id))))', []),
            ('trigger_effect', 'trigger_effect(self)', []),
        ] + TX_ENS,
    ),
    'tcpcl.session:ContactHandler.send_bundle_data': dict(
        params={'data': 'Bytes'}, returns='Str', props=['C01', 'C18'], handler=True,
        modifies=['ContactHandler._tx_next_id', 'ContactHandler._tx_pend_start', 'ContactHandler._tx_map', 'ghost.tx_live']
        + ITEM + FILES + TRIGGER_MODS,
        ensures=[
            ('returns_new_id', 'result == str_of(old(self._tx_next_id))', ['C18']),
            ('queued_at_back', 'self._tx_pend_start == old(self._tx_pend_start) + [last(self._tx_pend_start)] and '
                               'not existed(last(self._tx_pend_start))', ['C01']),
            ('holds_the_data', 'last(self._tx_pend_start).file.content == data and '
                               'eqv(last(self._tx_pend_start).transfer_id, old(self._tx_next_id))', ['C01']),
            ('nothing_sent', 'ghost.trace == old(ghost.trace)', ['C04']),
        ],
    ),
    # ---- the sender step ---------------------------------------------------------------------------
    'tcpcl.session:ContactHandler._process_queue': dict(
        returns='Bool', props=['C01', 'C04'], handler=True,
        requires=[('open', 'not closed(self)', [])],
        modifies=SEND_MODS + TXQ + TRIGGER_MODS + ['BundleItem.total_length', 'BytesIO.pos', 'ghost.signals',
                                                   'ghost.tx_finished', 'ghost.tx_live', 'Messenger._segment_tx_times'],
        ensures=[
            ('at_most_one_segment', 'ghost.trace == old(ghost.trace) or ghost.trace == old(ghost.trace) + [last(ghost.trace)]',
             ['C01', 'C04']),
            ('nothing_sent_unless_possible', 'implies(not old(can_send(self)), ghost.trace == old(ghost.trace))', ['C04']),
            ('next_segment_is_sent', 'implies(old(can_send(self)), ghost.trace == old(ghost.trace) + [last(ghost.trace)])',
             ['C01']),
            ('segment_of_head_transfer', 'implies(old(can_send(self)), last(ghost.trace).kind == EV_SEG and '
                                         'eqv(old(tx_item(self).transfer_id), last(ghost.trace).xid))', ['C01', 'C04']),
            ('segment_data_is_next_slice', 'implies(old(can_send(self)), last(ghost.trace).data == '
                                           'old(slice(tx_item(self).file.content, tx_sent(self), tx_sent(self) + tx_chunk(self))))',
             ['C01']),
            ('start_iff_first', 'implies(old(can_send(self)), flag(last(ghost.trace).flags, 2) == old(tx_sent(self) == 0) and '
                                'last(ghost.trace).has_len_ext == old(tx_sent(self) == 0) and '
                                'implies(old(tx_sent(self) == 0), last(ghost.trace).len_ext == old(tx_total(self))))',
             ['C01', 'C04']),
            ('end_iff_last', 'implies(old(can_send(self)), flag(last(ghost.trace).flags, 1) == '
                             'old(tx_sent(self) + tx_chunk(self) == tx_total(self)))', ['C01', 'C04']),
            ('only_start_end_flags', 'implies(old(can_send(self)), last(ghost.trace).flags == '
                                     'band(last(ghost.trace).flags, 3))', ['C04']),
            ('popped_from_front', 'self._tx_pend_start == ite(old(can_send(self)) and old(self._tx_tmp) is None, '
                                  'old(slice(self._tx_pend_start, 1, length(self._tx_pend_start))), '
                                  'old(self._tx_pend_start))', ['C01']),
            ('awaits_ack_after_end', 'implies(old(can_send(self)) and flag(last(ghost.trace).flags, 1), '
                                     'self._tx_tmp is None and contains(self._tx_pend_ack, old(tx_item(self))))', ['C01', 'C18']),
            ('file_contents_kept', 'forall(f, "Ref[BytesIO]", f.content == old(f.content))', ['C01']),
        ],
    ),
    # ---- the receiver step --------------------------------------------------------------------------
    'tcpcl.session:ContactHandler.recv_xfer_data': dict(
        params={'transfer_id': 'Int', 'flags': 'Int', 'data': 'Bytes', 'ext_items': 'List[Pkt[TransferExtendHeader]]'},
        props=['C01', 'C17'], handler=True,
        requires=[('open', 'not closed(self)', []), ('wire_values', 'flags >= 0 and transfer_id >= 0', [])],
        ghost_entry=[RX_ENTRY_GHOST],
        raises={'RejectError': dict(
            when='not self._in_sess or (not flag(flags, 2) and '
                 '(self._rx_tmp is None or not eqv(self._rx_tmp.transfer_id, transfer_id)))',
            iff=True, attrs={'reason': '3'}, modifies=RX_GHOST,
            ensures=[('peer_was_illegal', 'implies(old(self._in_sess), not ghost.peer_legal)', []),
                     ('peer_legal_monotone', 'implies(not old(ghost.peer_legal), not ghost.peer_legal)', [])])},
        modifies=SEND_MODS + RXQ + ITEM + FILES + MCLOSE_MODS + RX_GHOST + ['ghost.signals', 'ghost.rx_live'],
        ensures=[
            ('keepalive_kept_unless_sent', 'ka_kept(self)', ['C14']),
            ('ack_sent', 'ghost.trace == old(ghost.trace) + [last(ghost.trace)] and last(ghost.trace).kind == EV_ACK and '
                         'last(ghost.trace).xid == transfer_id and last(ghost.trace).flags == flags and '
                         'last(ghost.trace).dlen == length(old(rx_buf_after(self, flags, data)))', ['C01', 'C04']),
            ('delivered_complete_once', 'implies(flag(flags, 1), self._rx_tmp is None and '
                                        'self._rx_bundles == old(self._rx_bundles) + [last(self._rx_bundles)] and '
                                        'last(self._rx_bundles).file.content == old(rx_buf_after(self, flags, data)) and '
                                        'eqv(last(self._rx_bundles).transfer_id, transfer_id) and '
                                        'self._rx_map == dict_put(old(self._rx_map), transfer_id, last(self._rx_bundles)))',
             ['C01', 'C18']),
            ('announced_after_complete', 'implies(flag(flags, 1), last(ghost.signals).name == SIG_RECV_FINISHED and '
                                         'last(ghost.signals).bid == str_of(transfer_id) and '
                                         'last(ghost.signals).length == length(old(rx_buf_after(self, flags, data))))',
             ['C01', 'C18']),
            ('partial_kept', 'implies(not flag(flags, 1), self._rx_tmp is not None and '
                             'self._rx_tmp.file.content == old(rx_buf_after(self, flags, data)) and '
                             'eqv(self._rx_tmp.transfer_id, transfer_id) and '
                             'self._rx_bundles == old(self._rx_bundles) and self._rx_map == old(self._rx_map))',
             ['C01']),
            ('other_buffers_untouched', 'forall(f, "Ref[BytesIO]", implies(existed(f) and '
                                        'not eqv(old(self._rx_tmp.file), f), f.content == old(f.content) and '
                                        'f.pos == old(f.pos)))', ['C01']),
            ('peer_legal_monotone', 'implies(not old(ghost.peer_legal), not ghost.peer_legal)', []),
            ('tx_side_untouched', 'self._tx_pend_start == old(self._tx_pend_start) and eqv(self._tx_tmp, old(self._tx_tmp)) '
                                  'and self._tx_map == old(self._tx_map) and self._tx_pend_ack == old(self._tx_pend_ack)',
             ['C17']),
        ],
    ),
}
