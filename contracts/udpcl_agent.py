"""Contracts of the UDPCL agent (C13: segmentation within the MTU, reassembly of transfers; C18: D-Bus view)."""

AG = 'Ref[UAgent]'
ITEM = 'Ref[UBundleItem]'

SPECFUNCS = {
    # ---- sender ---------------------------------------------------------------------------------------------------
    'content': (['it'], 'it.file.content'),
    'tid': (['it'], 'unwrap(it.transfer_id)'),
    'tot': (['it'], 'unwrap(it.total_length)'),
    # octets of a transfer-segment extension map around its data: map head, key, array head, transfer id, total
    # length, offset and byte-string head are bounded by:  3 + hsize(id) + 3 * hsize(total)
    'seg_overhead': (['it'], '3 + hsize(tid(it)) + 3 * hsize(tot(it))'),
    'fits': (['s', 'it'], 's._config.mtu_default is None or length(content(it)) < unwrap(s._config.mtu_default)'),
    'nseg': ([], 'length(ghost.seg_off) - length(old(ghost.seg_off))'),
    'base': ([], 'length(old(ghost.seg_off))'),
    # ---- receiver -------------------------------------------------------------------------------------------------
    'xkey': (['conv', 'xid'], 'XferKey(addr_text(conv.peer_address), conv.peer_port, xid)'),
    # item i of the TRANSFER entry of a received extension map: 0 transfer id, 1 total length, 2 offset, 3 data
    'sx': (['m', 'i'], 'm[K_TRANSFER][i]'),
    'rejected': (['s', 'sock'], 'sock is not None and s._config.require_tls'),
    # after this segment every octet position of the transfer is there
    # (as sets of positions: what was valid before, joined with this segment's range, is the whole range)
    'covered_after': (['s', 'conv', 'm'],
                      'set_union(ite(old(contains(s._rx_fragments, xkey(conv, sx(m, 0)))), '
                      'unwrap(old(lookup(s._rx_fragments, xkey(conv, sx(m, 0))).valid)), empty_interval()), '
                      'interval(sx(m, 2), sx(m, 2) + length(sx(m, 3)))) == interval(0, sx(m, 1))'),
    'entry_ok': (['r'], 'r.data is not None and r.valid is not None and r.total_valid is not None and '
                        'r.total_length >= 0 and length(unwrap(r.data)) == r.total_length and '
                        'unwrap(r.total_valid) == interval(0, r.total_length)'),
}

LISTS_ALIGNED = ('length(ghost.seg_len) == length(ghost.seg_off) and length(ghost.seg_size) == length(ghost.seg_off) and '
                 'nseg() >= 0')

FUNCS = {
    'udpcl.agent:Agent._send_transfer': dict(
        self=AG, params={'item': ITEM}, returns='List[Bytes]', generator='Bytes', props=['C13'],
        requires=[
            # as Agent._add_tx_item leaves a transfer item: id assigned, length measured, file rewound
            ('item_ready', 'item.transfer_id is not None and tid(item) >= 0 and item.total_length is not None and '
                           'tot(item) == length(content(item)) and item.file.pos == 0', []),
            ('lists_aligned', 'length(ghost.seg_len) == length(ghost.seg_off) and length(ghost.seg_size) == '
                              'length(ghost.seg_off) and ghost.seg_data_ok', []),
        ],
        # an MTU that leaves no room for a single octet of data per segment is refused before anything is produced
        # (the exact threshold is the code's own computation; stated here only as: never when there is room)
        raises={'ValueError': dict(when='not fits(self, item) and unwrap(self._config.mtu_default) <= seg_overhead(item)',
                                   modifies=['BytesIO.pos'])},
        modifies=['BytesIO.pos', 'ghost.seg_off', 'ghost.seg_len', 'ghost.seg_size', 'ghost.seg_data_ok'],
        locals={'segments': 'List[Bytes]', 'mtu': 'Opt[Int]', 'frag_offset': 'Int', 'remain_size': 'Int', 'data': 'Bytes',
                'ext_base_encsize': 'Int', 'data_size_encsize': 'Int'},
        loops={
            0: dict(
                invariant=[
                    ('lists_aligned', LISTS_ALIGNED + ' and length(segments) == nseg()'),
                    ('sizes_known', 'mtu is not None and eqv(mtu, self._config.mtu_default) and data == content(item) and '
                                    'remain_size <= unwrap(mtu) - seg_overhead(item) and remain_size > 0 and frag_offset >= 0 and '
                                    'item.transfer_id is not None and item.total_length is not None and '
                                    'tot(item) == length(data) and tid(item) >= 0'),
                    # C13: every segment built so far encodes to at most the MTU ...
                    ('segments_fit', 'forall(k, base(), length(ghost.seg_off), ghost.seg_size[k] <= unwrap(mtu)) and '
                                     'forall(k, 0, length(segments), length(segments[k]) == ghost.seg_size[base() + k])'),
                    # ... their data ranges tile [0, frag_offset) without gap or overlap ...
                    ('tiling', 'forall(k, base(), length(ghost.seg_off), ghost.seg_len[k] > 0 and ghost.seg_off[k] >= 0 and '
                               'ghost.seg_off[k] + ghost.seg_len[k] <= length(data)) and ghost.seg_data_ok and '
                               'forall(k, base(), length(ghost.seg_off) - 1, ghost.seg_off[k + 1] == ghost.seg_off[k] + ghost.seg_len[k]) and '
                               'implies(nseg() > 0, ghost.seg_off[base()] == 0)'),
                    ('covered_so_far', 'ite(nseg() == 0, frag_offset == 0, '
                                       'frag_offset >= last(ghost.seg_off) + last(ghost.seg_len) and '
                                       'ite(frag_offset < length(data), frag_offset == last(ghost.seg_off) + last(ghost.seg_len), '
                                       'last(ghost.seg_off) + last(ghost.seg_len) == length(data)))'),
                ],
                ghost_end=[
                    'ghost.seg_off = ghost.seg_off + [frag_offset - remain_size]\n'
                    'ghost.seg_len = ghost.seg_len + [length(slice(data, frag_offset - remain_size, frag_offset))]\n'
                    'ghost.seg_size = ghost.seg_size + [length(last(segments))]\n'
                    # what the segment says: this transfer's id and total length, its offset, the octets of its range
                    'ghost.seg_data_ok = ghost.seg_data_ok and ext[K_TRANSFER][0] == tid(item) and ext[K_TRANSFER][1] == tot(item) '
                    'and ext[K_TRANSFER][2] == frag_offset - remain_size '
                    'and ext[K_TRANSFER][3] == slice(data, frag_offset - remain_size, frag_offset)\n'
                ],
            ),
            1: dict(invariant=[('yielded_so_far', 'length(_yielded) == _i1 and forall(k, 0, _i1, _yielded[k] == segments[k])')]),
        },
        ensures=[
            # either one datagram, the bundle itself, and then it is within the MTU ...
            ('whole_or_segmented', '(length(result) == 1 and result[0] == old(content(item)) and nseg() == 0) or '
                                   '(length(result) == nseg() and nseg() > 0 and self._config.mtu_default is not None)', ['C13']),
            ('whole_only_within_mtu', 'implies(nseg() == 0, self._config.mtu_default is None or '
                                      'length(old(content(item))) <= unwrap(self._config.mtu_default))', ['C13']),
            ('one_datagram_per_segment', LISTS_ALIGNED, ['C13']),
            # ... or transfer segments, each of which encodes to at most the MTU ...
            ('every_segment_within_mtu',
             'implies(nseg() > 0, forall(k, 0, length(result), length(result[k]) <= unwrap(self._config.mtu_default)) and '
             'forall(k, 0, length(result), length(result[k]) == ghost.seg_size[base() + k]))',
             ['C13']),
            # ... and which together carry every octet of the bundle once, in order, under this transfer's id and length
            ('segments_carry_every_octet_once',
             'implies(nseg() > 0, ghost.seg_off[base()] == 0 and '
             'forall(k, base(), length(ghost.seg_off) - 1, ghost.seg_off[k + 1] == ghost.seg_off[k] + ghost.seg_len[k]) and '
             'forall(k, base(), length(ghost.seg_off), ghost.seg_len[k] > 0) and '
             'last(ghost.seg_off) + last(ghost.seg_len) == length(old(content(item))) and ghost.seg_data_ok)', ['C13']),
        ],
    ),
    # ------------------------------------------------------------------------------------------------- receiver
    'udpcl.agent:Agent._add_rx_item': dict(
        self=AG, params={'item': ITEM}, props=['C13', 'C18'],
        requires=[
            # what the D-Bus signature 'sta{sv}' of recv_bundle_finished can carry
            ('length_known', 'item.total_length is not None and tot(item) >= 0 and tot(item) < 18446744073709551616', []),
            ('peer_known', 'item.port is not None and unwrap(item.port) >= 0 and unwrap(item.port) < 65536', []),
            ('ids_small', 'self._rx_id >= 0 and implies(item.transfer_id is not None, tid(item) >= 0)', []),
            ('local_port_marshals', 'implies(item.local_port is not None, unwrap(item.local_port) >= 0 and '
                                    'unwrap(item.local_port) < 65536)', []),
        ],
        modifies=['UAgent._rx_id', 'UAgent._rx_queue', 'UBundleItem.transfer_id', 'ghost.u_rx_finished'],
        ensures=[
            ('fresh_id_when_none', 'ite(old(item.transfer_id) is None, item.transfer_id is not None and '
                                   'tid(item) == old(self._rx_id) and self._rx_id == old(self._rx_id) + 1, '
                                   'eqv(item.transfer_id, old(item.transfer_id)) and self._rx_id == old(self._rx_id))', ['C13']),
            ('other_items_keep_their_id', 'forall(x, "Ref[UBundleItem]", implies(not (x == item), '
                                          'eqv(x.transfer_id, old(x.transfer_id))))', []),
            ('queued_under_its_id', 'item.transfer_id is not None and contains(self._rx_queue, tid(item)) and '
                                    'lookup(self._rx_queue, tid(item)) == item and '
                                    'forall(k, "Int", implies(not (k == tid(item)), '
                                    'contains(self._rx_queue, k) == old(contains(self._rx_queue, k)) and '
                                    'lookup(self._rx_queue, k) == old(lookup(self._rx_queue, k))))', ['C13', 'C18']),
            # C18: the receive queue lists exactly the ids announced as finished (and not yet popped)
            ('announced_once', 'ghost.u_rx_finished == old(ghost.u_rx_finished) + [str(tid(item))]', ['C13', 'C18']),
        ],
    ),
    'udpcl.agent:Agent._recv_ext_map': dict(
        self=AG, params={'sock': 'Opt[Any[sock]]', 'conv': 'Ref[Conversation]', 'timestamp': 'Any[datetime]'},
        props=['C13'], handler=True,
        # the extension maps this agent sends for a transfer carry the TRANSFER entry only; maps that combine it
        # with other entries are outside the cases proved (see MANIFEST)
        cases=[{'name': 'transfer', 'params': {'extmap': 'PyDict{2: [Int, Int, Int, Bytes]}'}}],
        # ASSUMED for callers that hand over a decoded map of unknown shape (Agent._recv_datagram after cbor2.load): the
        # handler keeps the table invariant, may queue bundles and announce them, may raise; nothing else is known
        fallback=dict(handler=True, params={'sock': 'Opt[Any[sock]]', 'extmap': 'Any[cbor]', 'conv': 'Ref[Conversation]',
                                            'timestamp': 'Any[datetime]'},
                      raises={'Exception': dict()},
                      modifies=['UAgent._rx_fragments', 'UAgent._rx_id', 'UAgent._rx_queue', 'UAgent._tx_id', 'UAgent._tx_queue',
                                'Transfer.address', 'Transfer.port', 'Transfer.xfer_id', 'Transfer.total_length',
                                'Transfer.total_valid', 'Transfer.valid', 'Transfer.data', 'UBundleItem.address',
                                'UBundleItem.port', 'UBundleItem.file', 'UBundleItem.local_if', 'UBundleItem.local_address',
                                'UBundleItem.local_port', 'UBundleItem.transfer_id', 'UBundleItem.total_length',
                                'UBundleItem.ip_tos', 'ghost.u_rx_finished', 'ghost.u_maps'],
                      ensures=[('ids_grow', 'self._rx_id >= old(self._rx_id)'),
                               ('one_more_map_handled', 'ghost.u_maps == old(ghost.u_maps) + 1'),
                               ('announcements_only_added', 'length(ghost.u_rx_finished) >= length(old(ghost.u_rx_finished))')]),
        # nothing is claimed about the octets of the reassembly buffer (see MANIFEST): buffer writes are opaque
        opaque_slice_store=True,
        solver_route='cli',    # set / interval reasoning: decided by the command-line solvers, stalls in process
        ghost_entry=['ghost.u_maps = ghost.u_maps + 1'],
        requires=[
            # (well-formed segment, as Agent._send_transfer builds them) id, total length, offset, data within the total
            ('segment_well_formed', 'sx(extmap, 0) >= 0 and sx(extmap, 1) >= 0 and sx(extmap, 1) < 18446744073709551616 and '
                                    'sx(extmap, 2) >= 0 and sx(extmap, 2) + length(sx(extmap, 3)) <= sx(extmap, 1)', []),
            ('peer_known', 'conv.peer_port is not None and unwrap(conv.peer_port) >= 0 and unwrap(conv.peer_port) < 65536 and '
                           'conv.peer_address is not None and self._rx_id >= 0', []),
        ],
        raises={'ValueError': dict(modifies=['ghost.u_maps'], when='not rejected(self, sock) and old(contains(self._rx_fragments, xkey(conv, sx(extmap, 0)))) and '
                                                     'not (old(lookup(self._rx_fragments, xkey(conv, sx(extmap, 0))).total_length) == sx(extmap, 1))',
                                   iff=True)},
        modifies=['UAgent._rx_fragments', 'UAgent._rx_id', 'UAgent._rx_queue', 'Transfer.address', 'Transfer.port',
                  'Transfer.xfer_id', 'Transfer.total_length', 'Transfer.total_valid', 'Transfer.valid', 'Transfer.data',
                  'UBundleItem.address', 'UBundleItem.port', 'UBundleItem.file', 'UBundleItem.local_if',
                  'UBundleItem.local_address', 'UBundleItem.local_port', 'UBundleItem.transfer_id',
                  'UBundleItem.total_length', 'UBundleItem.ip_tos', 'BytesIO.content', 'BytesIO.pos',
                  'ghost.u_rx_finished', 'ghost.u_maps'],
        locals={'xfer': 'Opt[Ref[Transfer]]'},
        hints=[dict(label='entry_in_table', before='end_ix = frag_offset + len(frag_data)',
                    **{'assert': 'xfer is not None and contains(self._rx_fragments, xkey(conv, sx(extmap, 0))) and '
                                 'lookup(self._rx_fragments, xkey(conv, sx(extmap, 0))) == unwrap(xfer)'})],
        ensures=[
            ('plain_segment_rejected_when_tls_required',
             'implies(rejected(self, sock), self._rx_fragments == old(self._rx_fragments) and '
             'self._rx_queue == old(self._rx_queue) and ghost.u_rx_finished == old(ghost.u_rx_finished))', ['C13']),
            # segments of other transfers or peers are not touched (transfers never mix)
            ('other_transfers_untouched',
             'forall(k, "XferKey", implies(not (k == xkey(conv, sx(extmap, 0))), '
             'contains(self._rx_fragments, k) == old(contains(self._rx_fragments, k)) and '
             'implies(contains(self._rx_fragments, k), lookup(self._rx_fragments, k) == old(lookup(self._rx_fragments, k))))) and '
             'forall(r, "Ref[Transfer]", implies(existed(r) and not (old(contains(self._rx_fragments, xkey(conv, sx(extmap, 0)))) and '
             'r == old(lookup(self._rx_fragments, xkey(conv, sx(extmap, 0))))), r.address == old(r.address) and '
             'eqv(r.port, old(r.port)) and r.xfer_id == old(r.xfer_id) and r.total_length == old(r.total_length) and '
             'eqv(r.total_valid, old(r.total_valid)) and eqv(r.valid, old(r.valid)) and eqv(r.data, old(r.data))))', ['C13']),
            # exactly one bundle is queued once every octet position is there, nothing while one is missing
            ('queued_once_complete',
             'implies(not rejected(self, sock) and covered_after(self, conv, extmap), '
             'ghost.u_rx_finished == old(ghost.u_rx_finished) + [str(old(self._rx_id))] and '
             'not contains(self._rx_fragments, xkey(conv, sx(extmap, 0))) and '
             'contains(self._rx_queue, old(self._rx_id)) and '
             'eqv(lookup(self._rx_queue, old(self._rx_id)).total_length, sx(extmap, 1)) and '
             'forall(k, "Int", implies(not (k == old(self._rx_id)), contains(self._rx_queue, k) == old(contains(self._rx_queue, k)))))',
             # (C18: the id announced is the fresh receive id, and the queue gains exactly that id)
             ['C13', 'C18']),
            ('nothing_queued_while_octets_missing',
             'implies(not rejected(self, sock) and not covered_after(self, conv, extmap), '
             'self._rx_queue == old(self._rx_queue) and ghost.u_rx_finished == old(ghost.u_rx_finished) and '
             'contains(self._rx_fragments, xkey(conv, sx(extmap, 0))))', ['C13']),
        ],
    ),
}

FUNCS.update({
    # ------------------------------------------------------------------------------------------- D-Bus view (C18)
    'udpcl.agent:Agent.recv_bundle_get_queue': dict(
        self=AG, returns='List[Str]', props=['C18'],
        modifies=[],
        # exactly the ids in the receive queue, as text (the D-Bus out_signature 'as' is an obligation of its own)
        ensures=[('lists_only_queued', 'forall(i, 0, length(result), is_int_str(result[i]) and '
                                       'contains(self._rx_queue, int_of_str(result[i])))', ['C18']),
                 ('lists_every_queued', 'forall(x, "Int", implies(contains(self._rx_queue, x), '
                                        '0 <= key_index(self._rx_queue, x) and key_index(self._rx_queue, x) < length(result) and '
                                        'result[key_index(self._rx_queue, x)] == str_of(x)))', ['C18'])],
    ),
    'udpcl.agent:Agent.recv_bundle_pop_data': dict(
        self=AG, params={'bid': 'Str'}, returns='Bytes', props=['C18', 'C13'],
        raises={'ValueError': dict(when='not is_int_str(bid)', iff=True, modifies=[]),
                'KeyError': dict(when='is_int_str(bid) and not contains(self._rx_queue, int_of_str(bid))', iff=True,
                                 modifies=[])},
        modifies=['UAgent._rx_queue', 'BytesIO.pos'],
        ensures=[
            # popping returns that transfer's data, and exactly once (the id is gone afterwards)
            ('returns_that_transfers_data', 'result == old(lookup(self._rx_queue, int_of_str(bid)).file.content)', ['C18', 'C13']),
            ('popped_once', 'self._rx_queue == dict_del(old(self._rx_queue), int_of_str(bid))', ['C18']),
        ],
    ),
    'udpcl.agent:Agent._add_tx_item': dict(
        self=AG, params={'item': ITEM, 'is_transfer': 'Bool'}, returns='Opt[Int]', props=['C18', 'C13'],
        requires=[('ids_nonneg', 'self._tx_id >= 0', [])],
        modifies=['UAgent._tx_id', 'UAgent._tx_queue', 'UBundleItem.transfer_id', 'UBundleItem.total_length', 'BytesIO.pos'],
        ensures=[
            ('fresh_id_for_a_transfer', 'implies(is_transfer and old(item.transfer_id) is None, item.transfer_id is not None and '
                                        'tid(item) == old(self._tx_id) and self._tx_id == old(self._tx_id) + 1)', ['C18']),
            ('no_id_otherwise', 'implies(not is_transfer or old(item.transfer_id) is not None, '
                                'eqv(item.transfer_id, old(item.transfer_id)) and self._tx_id == old(self._tx_id))', ['C18']),
            # what Agent._send_transfer relies on: length measured, file rewound
            ('measured_and_rewound', 'item.total_length is not None and tot(item) == length(content(item)) and '
                                     'item.file.pos == 0 and content(item) == old(content(item))', ['C13']),
            ('queued_last', 'self._tx_queue == old(self._tx_queue) + [item]', ['C18']),
            ('returns_the_id', 'eqv(result, item.transfer_id)', ['C18']),
        ],
    ),
})

SPECFUNCS.update({
    # first octet of the message that starts at position p of the datagram, and what it makes of the message:
    # 0 padding / 20..23 DTLS record / 6 BPv6 / any other major type: the rest of the datagram is skipped;
    # major type 4 (array): one bundle; major type 5 (map): one extension map
    'fo': (['d', 'p'], 'd[p]'),
    'skips_rest': (['d', 'p'], 'fo(d, p) == 0 or (fo(d, p) >= 20 and fo(d, p) <= 23) or fo(d, p) == 6 or '
                               '(not (fo(d, p) >= 128 and fo(d, p) < 160) and not (fo(d, p) >= 160 and fo(d, p) < 192))'),
    'is_bundle': (['d', 'p'], 'fo(d, p) >= 128 and fo(d, p) < 160'),
})

FUNCS.update({
    'udpcl.agent:Agent._starttls': dict(
        self=AG, params={'sock': 'Any[sock]', 'conv': 'Ref[Conversation]', 'server_side': 'Bool'}, props=['C13'],
        trusted=True, trusted_reason='DTLS handshake set-up (python-dtls, sockets): does not touch the transfer tables or queues',
        raises={'Exception': dict()}, modifies=[]),
    'udpcl.agent:Agent._recv_datagram': dict(
        self=AG, params={'sock': 'Opt[Any[sock]]', 'data': 'Bytes', 'conv': 'Ref[Conversation]', 'ip_tos': 'Int'},
        props=['C13'], handler=True,
        requires=[('peer_known', 'conv.peer_port is not None and unwrap(conv.peer_port) >= 0 and unwrap(conv.peer_port) < 65536 and '
                                 'conv.peer_address is not None and self._rx_id >= 0 and ghost.u_dg_ok', [])],
        # a truncated / malformed CBOR item, and whatever the extension-map handler or the DTLS set-up raise, escape
        raises={'cbor2.CBORDecodeError': dict(), 'Exception': dict()},
        modifies=['UAgent._rx_fragments', 'UAgent._rx_id', 'UAgent._rx_queue', 'UAgent._tx_id', 'UAgent._tx_queue',
                  'Transfer.address', 'Transfer.port', 'Transfer.xfer_id', 'Transfer.total_length', 'Transfer.total_valid',
                  'Transfer.valid', 'Transfer.data', 'UBundleItem.address', 'UBundleItem.port', 'UBundleItem.file',
                  'UBundleItem.local_if', 'UBundleItem.local_address', 'UBundleItem.local_port', 'UBundleItem.transfer_id',
                  'UBundleItem.total_length', 'UBundleItem.ip_tos', 'BytesIO.content', 'BytesIO.pos',
                  'ghost.u_rx_finished', 'ghost.u_dg_ok', 'ghost.u_p0', 'ghost.u_n0', 'ghost.u_m0', 'ghost.u_maps'],
        locals={'first_data': 'Bytes', 'msg_data': 'Bytes'},
        loops={0: dict(
            invariant=[
                ('reader_on_the_datagram', 'buf.content == data and buf.pos >= 0 and buf.pos <= length(data)'),
                ('per_message', 'ghost.u_dg_ok and self._rx_id >= 0'),
                ('table', 'forall(k, "XferKey", implies(contains(self._rx_fragments, k), '
                          'entry_ok(lookup(self._rx_fragments, k)) and '
                          'XferKey(lookup(self._rx_fragments, k).address, lookup(self._rx_fragments, k).port, '
                          'lookup(self._rx_fragments, k).xfer_id) == k))'),
            ],
            ghost_begin=['ghost.u_p0 = buf.pos\nghost.u_n0 = length(ghost.u_rx_finished)\nghost.u_m0 = ghost.u_maps\n'],
            # (reached only when there was a message at u_p0, i.e. u_p0 < length(data))
            ghost_end=['ghost.u_dg_ok = ghost.u_dg_ok and ite(skips_rest(data, ghost.u_p0), '
                       'buf.pos == length(data) and length(ghost.u_rx_finished) == ghost.u_n0 and ghost.u_maps == ghost.u_m0, '
                       'buf.pos == ghost.u_p0 + item_len(data, ghost.u_p0) and '
                       'ghost.u_maps == ghost.u_m0 + ite(is_bundle(data, ghost.u_p0), 0, 1) and '
                       'implies(is_bundle(data, ghost.u_p0), length(ghost.u_rx_finished) == ghost.u_n0 + 1 and '
                       'last(ghost.u_rx_finished) == str(self._rx_id - 1) and contains(self._rx_queue, self._rx_id - 1) and '
                       'lookup(self._rx_queue, self._rx_id - 1).file.content == '
                       'slice(data, ghost.u_p0, ghost.u_p0 + item_len(data, ghost.u_p0))))\n'],
        )},
        ensures=[
            # every message of the datagram is handled on its own: padding (and anything unknown) ends the datagram; a
            # bundle message queues exactly one bundle holding exactly the octets of that CBOR item, and the next message
            # starts right after it; an extension map is handed over once and the next message starts right after it
            ('each_message_handled_on_its_own', 'ghost.u_dg_ok', ['C13']),
        ],
    ),
})

INVARIANTS = {'UAgent': [
    # every transfer in progress: buffer of the announced size, expected range [0, total), filed under its own key
    ('rx_entries_ok', 'forall(k, "XferKey", implies(contains(self._rx_fragments, k), '
                      'entry_ok(lookup(self._rx_fragments, k)) and '
                      'XferKey(lookup(self._rx_fragments, k).address, lookup(self._rx_fragments, k).port, '
                      'lookup(self._rx_fragments, k).xfer_id) == k))', ['C13']),
]}

INLINE = ['udpcl.agent:Transfer.validate', 'udpcl.agent:Transfer.key']
