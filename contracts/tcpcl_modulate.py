"""Contract of the adaptive segment sizing (C14: "never sends a segment larger than the
peer's segment MRU even while adapting segment size"; C04: same bound on the wire).

Float arithmetic is not modelled: every float-valued expression is an arbitrary value and
int(<float>) an arbitrary integer, so the clamp is proved for every outcome of the controller."""
from tcpcl_messenger import CH

FUNCS = {
    'tcpcl.session:Messenger._modulate_tx_seg_size': dict(
        self=CH, params={'delta_b': 'Int', 'delta_t': 'Float'}, props=['C14', 'C04'],
        requires=[('negotiated', 'self._sessinit_peer is not None and self._sessinit_peer.segment_mru >= 1 and '
                                 'self._send_segment_size_min > 0 and self._config.modulate_target_ack_time is not None and '
                                 'self._segment_pid_err_accum is not None', [])],
        raises={'ZeroDivisionError': dict(modifies=[])},
        modifies=['Messenger._send_segment_size', 'Messenger._segment_pid_err_last', 'Messenger._segment_pid_err_accum'],
        ensures=[
            ('within_peer_segment_mru', '0 < self._send_segment_size and '
                                        'self._send_segment_size <= self._sessinit_peer.segment_mru'),
            ('not_below_floor_unless_mru_smaller', 'self._send_segment_size >= min(self._send_segment_size_min, '
                                                   'self._sessinit_peer.segment_mru)'),
        ],
    ),
}
