"""Sidecar contracts for the BPv7 agent (/repo/src/bp): record schemas.

Only *names* are taken from the code: field names bind to the real attributes / fields_desc
entries (checked by the engine), constants (flag values, block type codes) are read from the
source ASTs.
"""

MODULES = ['bp.agent', 'bp.util', 'bp.config', 'bp.encoding.blocks', 'bp.encoding.bundle', 'bp.encoding.admin',
           'bp.encoding.fields', 'bp.app.base', 'bp.app.admin', 'bp.app.fragment', 'bp.cla']

TYPES = {
    # one component of a bundle identity tuple: source EID (text or absent) or a number
    'IdentElem': ('union', [('none', 'None'), ('str', 'Str'), ('int', 'Int')]),
}

CONSTS = {
    'F_IS_FRAGMENT': 0x000001, 'F_ADMIN': 0x000002, 'F_NO_FRAGMENT': 0x000004,
    'F_REQ_RECEPTION': 0x004000, 'F_REQ_FORWARD': 0x010000, 'F_REQ_DELIVERY': 0x020000, 'F_REQ_DELETION': 0x040000,
    'F_REQ_STATUS_TIME': 0x000040,
    'ANY_REPORT': 0x004000 | 0x010000 | 0x020000 | 0x040000,
}

SCHEMAS = {
    'BpConfig': {'pyclass': ('bp.config', 'Config'),
                 'fields': {'node_id': 'Str', 'rx_route_table': 'List[Ref[RxRouteItem]]',
                            'tx_route_table': 'List[Ref[TxRouteItem]]', 'accept_after_verify': 'Bool'}},
    'RxRouteItem': {'pyclass': ('bp.config', 'RxRouteItem'), 'fields': {'eid_pattern': 'Any[pattern]', 'action': 'Str'}},
    'TxRouteItem': {'pyclass': ('bp.config', 'TxRouteItem'),
                    'fields': {'eid_pattern': 'Any[pattern]', 'next_nodeid': 'Str', 'cl_type': 'Str',
                               'raw_config': 'Any[rawconfig]', 'mtu': 'Opt[Int]'}},
    'ChainStep': {'pyclass': ('bp.util', 'ChainStep'), 'fields': {'order': 'Float', 'name': 'Str', 'action': 'Func'}},
    'Ctr': {'pyclass': ('bp.util', 'BundleContainer'),
            'fields': {'bundle': 'Pkt[Bundle]', 'actions': 'Dict[Str, Any[datetime]]', 'status_reason': 'Opt[Int]',
                       'route': 'Opt[Ref[TxRouteItem]]', 'sender': 'Opt[Func]', '_last_block_num': 'Int',
                       '_block_num': 'Dict[Int, Pkt[CanonicalBlock]]'}},
    'Timestamper': {'pyclass': ('bp.agent', 'Timestamper'), 'fields': {'_time': 'Opt[Int]', '_seqno': 'Int'}},
    'ClAdaptor': {'pyclass': ('bp.cla', 'AbstractAdaptor'), 'fields': {'serv_name': 'Opt[Str]'}},
    'Agent': {'pyclass': ('bp.agent', 'Agent'),
              'fields': {'_config': 'Ref[BpConfig]', '_seen_bundle_ident': 'Set[List[IdentElem]]',
                         '_fwd_queue': 'List[Ref[Ctr]]', '_tx_queue': 'List[Ref[Ctr]]',
                         '_rx_chain': 'List[Ref[ChainStep]]', '_tx_chain': 'List[Ref[ChainStep]]',
                         '_cl_agent': 'Dict[Str, Ref[ClAdaptor]]', 'timestamp': 'Ref[Timestamper]',
                         '_in_shutdown': 'Bool', '_on_stop': 'Opt[Func]'}},
    'AdminApp': {'pyclass': ('bp.app.admin', 'Administrative'),
                 'fields': {'_config': 'Ref[BpConfig]', '_agent': 'Ref[Agent]', '_app_name': 'Str'}},
    # ---- scapy_cbor packet records ---------------------------------------------------------------
    'pkt:Timestamp': {'pyclass': ('bp.encoding.blocks', 'Timestamp'), 'pkt': True,
                      'fields': {'dtntime': 'Int', 'seqno': 'Int', 'payload': 'Int'}},
    'pkt:PrimaryBlock': {'pyclass': ('bp.encoding.blocks', 'PrimaryBlock'), 'pkt': True,
                         'fields': {'bp_version': 'Int', 'bundle_flags': 'Int', 'crc_type': 'Int',
                                    'destination': 'Opt[Str]', 'source': 'Opt[Str]', 'report_to': 'Opt[Str]',
                                    'create_ts': 'Pkt[Timestamp]', 'lifetime': 'Int', 'fragment_offset': 'Int',
                                    'total_app_data_len': 'Int', 'crc_value': 'Opt[Bytes]', 'payload': 'Int',
                                    # the items a decoded block was received as (AbstractBlock.do_dissect); None for a
                                    # block that was built, or whose CRC was updated since
                                    '_rx_items': 'Opt[Any[cboritem]]'},
                         'defaults': {'_rx_items': None}},
    'pkt:CanonicalBlock': {'pyclass': ('bp.encoding.blocks', 'CanonicalBlock'), 'pkt': True,
                           'fields': {'type_code': 'Opt[Int]', 'block_num': 'Opt[Int]', 'block_flags': 'Int',
                                      'crc_type': 'Int', 'btsd': 'Opt[Bytes]', 'crc_value': 'Opt[Bytes]',
                                      'payload': 'Int', '_pcls': 'Int', '_rx_items': 'Opt[Any[cboritem]]'},
                           'defaults': {'_rx_items': None}},
    # block-type-specific data classes handled when forwarding
    'pkt:PreviousNodeBlock': {'pyclass': ('bp.encoding.blocks', 'PreviousNodeBlock'), 'pkt': True,
                              'fields': {'node': 'Opt[Str]', 'payload': 'Int'}},
    'pkt:BundleAgeBlock': {'pyclass': ('bp.encoding.blocks', 'BundleAgeBlock'), 'pkt': True,
                           'fields': {'age': 'Opt[Int]', 'payload': 'Int'}},
    'pkt:HopCountBlock': {'pyclass': ('bp.encoding.blocks', 'HopCountBlock'), 'pkt': True,
                          'fields': {'limit': 'Opt[Int]', 'count': 'Opt[Int]', 'payload': 'Int'}},
    # administrative records (status reports)
    'pkt:AdminRecord': {'pyclass': ('bp.encoding.admin', 'AdminRecord'), 'pkt': True,
                        'fields': {'type_code': 'Opt[Int]', 'payload': 'Int', '_pcls': 'Int'}},
    'pkt:StatusInfo': {'pyclass': ('bp.encoding.admin', 'StatusInfo'), 'pkt': True,
                       'fields': {'status': 'Bool', 'at': 'Opt[Any[datetime]]', 'payload': 'Int'}},
    'pkt:StatusInfoArray': {'pyclass': ('bp.encoding.admin', 'StatusInfoArray'), 'pkt': True,
                            'fields': {'received': 'Pkt[StatusInfo]', 'forwarded': 'Pkt[StatusInfo]',
                                       'delivered': 'Pkt[StatusInfo]', 'deleted': 'Pkt[StatusInfo]', 'payload': 'Int'}},
    'pkt:StatusReport': {'pyclass': ('bp.encoding.admin', 'StatusReport'), 'pkt': True,
                         'fields': {'status': 'Pkt[StatusInfoArray]', 'reason_code': 'Int', 'subj_source': 'Opt[Str]',
                                    'subj_ts': 'Pkt[Timestamp]', 'fragment_offset': 'Opt[Int]', 'payload_len': 'Opt[Int]',
                                    'payload': 'Int'}},
    'pkt:Bundle': {'pyclass': ('bp.encoding.bundle', 'Bundle'), 'pkt': True,
                   'fields': {'primary': 'Opt[Pkt[PrimaryBlock]]', 'blocks': 'List[Pkt[CanonicalBlock]]', 'payload': 'Int'}},
}

GHOST = {
    # bundles whose processing ended with a call of _finish_bundle in this handler run (container references)
    'finished': 'List[Ref[Ctr]]',
    # containers handed to GLib.idle_add together with Agent.send_bundle / Agent.recv_bundle (bp_models.glib_idle_add)
    'sched_send': 'List[Ref[Ctr]]',
    'sched_recv': 'List[Ref[Ctr]]',
    # containers whose encoded bundle was handed to a convergence-layer sender callable, in order
    'tx_out': 'List[Ref[Ctr]]',
    # "every bundle encoded for a sender had its CRCs updated after its last modification"
    'wire_crc_ok': 'Bool',
    # bundles (packet references) whose CRC fields are up to date with their content
    'crc_ok': 'Set[Pkt[Bundle]]',
    # containers consumed by a TX chain step that took over their transmission (fragmentation)
    'consumed': 'Set[Ref[Ctr]]',
    # some step of a processing chain raised during this handler run
    'step_failed': 'Bool',
    # the node's clock as Agent.timestamp (Timestamper.__call__) reads it: number of readings made in this handler run and
    # the DTN time of the latest one
    'clock_reads': 'Int',
    'clock_last': 'Int',
}

NOTES = {
    # ghost variables written by models of external calls (for loop write sets)
    'extern_writes': {'idle_add': ['sched_send', 'sched_recv']},
    # what a callable stored in an attribute of this name may write (see bp_models.cb_callback)
    'callback_writes': {'action': ['Ctr.actions', 'Ctr.status_reason', 'Ctr.route', 'Ctr.sender', 'ghost.consumed',
                                   'ghost.sched_send', 'ghost.step_failed'], 'sender': []},
}

ASSUMPTIONS = [
        'BP: scapy_cbor packets behave as records of their fields_desc; pkt.fields / overloaded_fields accesses to a '
        'field whose declared default is None read and write that record field',
        'BP: re.Pattern.match is a pure function of (pattern, text)',
        'BP: processing-chain step callables of other applications (not verified here) may change the bundle container '
        'and may raise, but do not touch the agent\'s seen-identity set, forwarding queue or routing tables',
        'BP: steps of the transmit chain set route / sender or take the bundle over (returning a true value with route and '
        'sender cleared, as the fragmentation step does); they do not record actions on the container',
]
