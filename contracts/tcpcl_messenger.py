"""Contracts for tcpcl.session Connection / Messenger (the byte pump, message
emission, negotiation, timers).  Objects are ContactHandler instances (the
only concrete subclass), so `self` is typed Ref[ContactHandler] throughout.
"""

CH = 'Ref[ContactHandler]'

TIMER_MODS = ['ghost.src_armed', 'ghost.src_delay', 'ghost.src_cb', 'ghost.idle_resets']
AUTO_MODS = ['ghost.trace', 'ghost.enc_stream', 'ghost.ch_sent', 'ghost.si_sent', 'ghost.term_sent',
             'ghost.cur_xid', 'ghost.started']
SEND_READY_MODS = ['Connection._Connection__avail_tx_tls_id', 'Connection._Connection__avail_tx_tls_pend',
                   'Connection._Connection__avail_tx_notls_id', 'Connection._Connection__avail_tx_notls_pend']
# everything Messenger.send_message may touch
SEND_MODS = (['Messenger._Messenger__tx_buf', 'Messenger._keepalive_timer_id', 'Messenger._idle_timer_id']
             + TIMER_MODS + AUTO_MODS + SEND_READY_MODS)

INLINE = [
    'tcpcl.session:Messenger._keepalive_stop',
    'tcpcl.session:Messenger._idle_stop',
    'tcpcl.session:Connection.is_secure',
    'tcpcl.session:ContactHandler.is_secure',
    'tcpcl.session:Connection.get_app_socket',
    'tcpcl.session:Connection.get_secure_socket',
    'tcpcl.session:Messenger.is_sess_idle',
    'tcpcl.session:Messenger.recv_sess_term',
    'tcpcl.session:Messenger.recv_xfer_data',
    'tcpcl.session:Messenger.recv_xfer_ack',
    'tcpcl.session:Messenger.recv_xfer_refuse',
    'tcpcl.session:Messenger._update_state',
    'tcpcl.session:Connection._conn_name',
    'tcpcl.session:Connection.send_ready',
    'tcpcl.session:Connection.__unlisten_notls',
    'tcpcl.session:Connection.__unlisten_tls',
    'tcpcl.session:Messenger.send_buffer_used',
    'tcpcl.session:Messenger.recv_buffer_used',
]

SPECFUNCS = {
    'closed': (['s'], 's._Connection__s_notls is None'),
    # C14: the keepalive timer is re-armed only by sending (the emitted-message trace only grows)
    'ka_kept': (['s'], 'length(ghost.trace) >= length(old(ghost.trace)) and '
                       'implies(length(ghost.trace) == length(old(ghost.trace)) and not closed(s), '
                       'eqv(s._keepalive_timer_id, old(s._keepalive_timer_id)))'),
    'START': ([], '2'),
    'END': ([], '1'),
    # ---- RFC 9174 output automaton (independent oracle for C04) ----------
    'seg_legal': (['s', 'e'],
                  's._sessinit_peer is not None and e.dlen == length(e.data) '
                  'and e.dlen <= s._sessinit_peer.segment_mru '
                  'and ite(flag(e.flags, 2), '
                  '        is_none(ghost.cur_xid) and not contains(ghost.started, e.xid) and not ghost.term_sent '
                  '        and e.has_len_ext, '
                  '        eqv(ghost.cur_xid, e.xid) and not e.has_len_ext)'),
    'ack_legal': (['e'], 'ghost.rx_have_last and e.xid == ghost.rx_last_id and e.flags == ghost.rx_last_flags '
                         'and e.dlen == ghost.rx_cum'),
    'legal_out': (['s', 'e'],
                  'ite(e.kind == EV_CH, not ghost.ch_sent, '
                  'ite(e.kind == EV_SESS_INIT, ghost.ch_sent and not ghost.si_sent, '
                  'ite(e.kind == EV_TERM, ghost.si_sent and not ghost.term_sent, '
                  'ite(e.kind == EV_SEG, ghost.si_sent and seg_legal(s, e), '
                  'ite(e.kind == EV_ACK, ghost.si_sent and ack_legal(e), '
                  '    ghost.si_sent)))))'),
    'rm_opt': (['st', 'o'], 'ite(is_none(o), st, set_remove(st, unwrap(o)))'),
    'src_same': (['j'], 'contains(ghost.src_armed, j) == contains(old(ghost.src_armed), j) and '
                        'lookup(ghost.src_delay, j) == lookup(old(ghost.src_delay), j) and '
                        'lookup(ghost.src_cb, j) == lookup(old(ghost.src_cb), j)'),
    # an armed timer id names an armed source with the right callback (I8)
    'timers_ok': (['s'], 'implies(s._keepalive_timer_id is not None, '
                         '  contains(ghost.src_armed, unwrap(s._keepalive_timer_id)) and '
                         '  lookup(ghost.src_cb, unwrap(s._keepalive_timer_id)) == cbtag("_keepalive_timeout")) and '
                         'implies(s._idle_timer_id is not None, '
                         '  contains(ghost.src_armed, unwrap(s._idle_timer_id)) and '
                         '  lookup(ghost.src_cb, unwrap(s._idle_timer_id)) == cbtag("_idle_timeout"))'),
    # timers as left by _keepalive_reset / _idle_reset
    'ka_armed': (['s'], 'iff(s._keepalive_time > 0, s._keepalive_timer_id is not None) and '
                        'implies(s._keepalive_time > 0, '
                        '  contains(ghost.src_armed, unwrap(s._keepalive_timer_id)) and '
                        '  lookup(ghost.src_delay, unwrap(s._keepalive_timer_id)) == 1000 * s._keepalive_time and '
                        '  lookup(ghost.src_cb, unwrap(s._keepalive_timer_id)) == cbtag("_keepalive_timeout"))'),
    'idle_armed': (['s'], 'iff(s._idle_time > 0, s._idle_timer_id is not None) and '
                          'implies(s._idle_time > 0, '
                          '  contains(ghost.src_armed, unwrap(s._idle_timer_id)) and '
                          '  lookup(ghost.src_delay, unwrap(s._idle_timer_id)) == 1000 * s._idle_time and '
                          '  lookup(ghost.src_cb, unwrap(s._idle_timer_id)) == cbtag("_idle_timeout"))'),
}

# ghost code executed at the normal exit of send_message (the automaton step)
SEND_GHOST = '''
e = event_of(pkt)
ghost.trace = ghost.trace + [e]
ghost.enc_stream = ghost.enc_stream + e.enc
ghost.cur_xid = ite(e.kind == EV_SEG, ite(flag(e.flags, 1), None, some(e.xid)), ghost.cur_xid)
ghost.started = ite(e.kind == EV_SEG and flag(e.flags, 2), set_add(ghost.started, e.xid), ghost.started)
ghost.ch_sent = ghost.ch_sent or e.kind == EV_CH
ghost.si_sent = ghost.si_sent or e.kind == EV_SESS_INIT
ghost.term_sent = ghost.term_sent or e.kind == EV_TERM
'''

SEND_ENSURES = [
    ('trace_appended', 'ghost.trace == old(ghost.trace) + [event_of(pkt)]', ['C04', 'C01']),
    ('stream_appended', 'ghost.enc_stream == old(ghost.enc_stream) + pkt_enc(pkt)', ['C04']),
    ('buffered', 'self._Messenger__tx_buf == old(self._Messenger__tx_buf) + pkt_enc(pkt)', ['C04', 'C01']),
    ('auto_cur', 'eqv(ghost.cur_xid, ite(event_of(pkt).kind == EV_SEG, '
                 'ite(flag(event_of(pkt).flags, 1), None, some(event_of(pkt).xid)), old(ghost.cur_xid)))'),
    ('auto_started', 'ghost.started == ite(event_of(pkt).kind == EV_SEG and flag(event_of(pkt).flags, 2), '
                     'set_add(old(ghost.started), event_of(pkt).xid), old(ghost.started))'),
    ('auto_ch', 'ghost.ch_sent == (old(ghost.ch_sent) or event_of(pkt).kind == EV_CH)'),
    ('auto_si', 'ghost.si_sent == (old(ghost.si_sent) or event_of(pkt).kind == EV_SESS_INIT)'),
    ('auto_term', 'ghost.term_sent == (old(ghost.term_sent) or event_of(pkt).kind == EV_TERM)'),
    ('keepalive_rearmed', 'ka_armed(self)', ['C14']),
    ('idle_rearmed', 'idle_armed(self)', ['C14']),
    ('timers_ok', 'timers_ok(self)'),
]

PKT_CASES = [
    {'name': 'contact', 'params': {'pkt': 'Pkt[Head, ContactV4]'}},
    {'name': 'sess_init', 'params': {'pkt': 'Pkt[MessageHead, SessionInit]'}},
    {'name': 'sess_term', 'params': {'pkt': 'Pkt[MessageHead, SessionTerm]'}},
    {'name': 'keepalive', 'params': {'pkt': 'Pkt[MessageHead, Keepalive]'}},
    {'name': 'reject', 'params': {'pkt': 'Pkt[MessageHead, RejectMsg]'}},
    {'name': 'segment', 'params': {'pkt': 'Pkt[MessageHead, TransferSegment]'}},
    {'name': 'ack', 'params': {'pkt': 'Pkt[MessageHead, TransferAck]'}},
    {'name': 'refuse', 'params': {'pkt': 'Pkt[MessageHead, TransferRefuse]'}},
]

def reset_exact(idf, timef, cb):
    """Strongest postcondition of a timer reset, quantifier free: the old source is
    removed, and iff the interval is positive a fresh source is added."""
    nid = 'unwrap(self.%s)' % idf
    oid = 'old(self.%s)' % idf
    pos = 'self.%s > 0' % timef
    return [
        ('fresh', 'implies(%s, not contains(rm_opt(old(ghost.src_armed), %s), %s))' % (pos, oid, nid), []),
        ('armed_exact', 'ghost.src_armed == ite(%s, set_add(rm_opt(old(ghost.src_armed), %s), %s), '
                        'rm_opt(old(ghost.src_armed), %s))' % (pos, oid, nid, oid), []),
        ('delay_exact', 'ghost.src_delay == ite(%s, dict_put(old(ghost.src_delay), %s, 1000 * self.%s), '
                        'old(ghost.src_delay))' % (pos, nid, timef), []),
        ('cb_exact', 'ghost.src_cb == ite(%s, dict_put(old(ghost.src_cb), %s, cbtag("%s")), old(ghost.src_cb))'
                     % (pos, nid, cb), []),
    ]


FUNCS = {
    'tcpcl.session:Messenger._keepalive_reset': dict(
        self=CH, props=['C14'],
        modifies=['Messenger._keepalive_timer_id'] + TIMER_MODS,
        ensures=[('armed', 'ka_armed(self)')] + reset_exact('_keepalive_timer_id', '_keepalive_time', '_keepalive_timeout'),
    ),
    'tcpcl.session:Messenger._idle_reset': dict(
        self=CH, props=['C14'],
        modifies=['Messenger._idle_timer_id'] + TIMER_MODS,
        ghost_exit=['ghost.idle_resets = ghost.idle_resets + 1'],
        ensures=[('armed', 'idle_armed(self)'), ('counted', 'ghost.idle_resets == old(ghost.idle_resets) + 1')] +
        reset_exact('_idle_timer_id', '_idle_time', '_idle_timeout'),
    ),
    # the single emission point: every protocol event goes through here
    'tcpcl.session:Messenger.send_message': dict(
        self=CH, params={'pkt': 'AnyPkt'}, cases=PKT_CASES,
        requires=[('legal_out', 'implies(ghost.peer_legal, legal_out(self, event_of(pkt)))', ['C04', 'C09']),
                  ('timers_ok', 'timers_ok(self)')],
        modifies=SEND_MODS,
        ghost_exit=[SEND_GHOST],
        ensures=SEND_ENSURES,
    ),
    'tcpcl.session:Messenger._keepalive_timeout': dict(
        self=CH, props=['C14'], handler=True,
        requires=[('in_sess', 'self._in_sess and not closed(self)')],
        modifies=SEND_MODS,
        ensures=[('keepalive_sent', 'ghost.trace == old(ghost.trace) + [last(ghost.trace)] and '
                                    'last(ghost.trace).kind == EV_KEEPALIVE', ['C14', 'C04']),
                 ('rearmed', 'ka_armed(self)', ['C14'])],
    ),
}
