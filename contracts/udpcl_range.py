"""Contracts of udpcl.agent.range_encode / range_decode (anchored under C13: "range_encode/range_decode for confirmation
sets"): the offset/length pair list a set of sequence numbers is sent as, and its inverse.

  * range_encode: for a normalised interval set S (atomic intervals [lower, upper) in ascending order, non-empty, not
    touching, starting at or above 0) the result is enc(S) -- pairs (gap to the previous interval's end, length) -- and
    every number in it is non-negative (encodable as a CBOR unsigned integer; gaps after the first and all lengths are
    positive).
  * range_decode: for pairs == enc(S) the result is exactly the set of positions S covers.

The round trip range_decode(range_encode(S)) == S is the composition of the two contracts (the postcondition of the
first is the precondition of the second); both are proved for lists of any length (loop invariants, no bound).

Model: the argument of range_encode is iterated as portion iterates an Interval -- its atomic intervals in ascending
order, each with .lower / .upper -- and is typed here as a list of (lower, upper) records; the value range_decode builds
with portion.empty() / closedopen() / |= is a set of integer positions (the interval model of udpcl_types.py).  That
portion keeps an Interval normalised (which is what makes `normal` hold for every value the agent passes) is portion's
behaviour and assumed.
"""

TYPES = {
    'Atom': ('tuple', [('lower', 'Int'), ('upper', 'Int')]),
}

GHOST = {
    # the interval set a pair list given to range_decode was encoded from (ghost input), and the number of pairs consumed
    'rng_src': 'List[Atom]',
    'rng_k': 'Int',
}

SPECFUNCS = {
    'normal': (['s'], 'forall(i, 0, length(s), s[i].lower < s[i].upper) and '
                      'forall(i, 0, length(s) - 1, s[i].upper < s[i + 1].lower) and '
                      'implies(length(s) > 0, s[0].lower >= 0)'),
    'prev_upper': (['s', 'i'], 'ite(i == 0, 0, s[i - 1].upper)'),
    'is_enc': (['p', 's'], 'length(p) == 2 * length(s) and forall(i, 0, length(s), '
                           'p[2 * i] == s[i].lower - prev_upper(s, i) and p[2 * i + 1] == s[i].upper - s[i].lower)'),
    'covers_upto': (['s', 'n', 'x'], 'exists(k, 0, n, s[k].lower <= x and x < s[k].upper)'),
}

FUNCS = {
    'udpcl.agent:range_encode': dict(
        params={'intvls': 'List[Atom]'}, returns='List[Int]', props=['C13'],
        requires=[('normalised', 'normal(intvls)', [])],
        modifies=[],
        locals={'pairs': 'List[Int]', 'seen_last': 'Int'},
        loops={0: dict(invariant=[
            ('pairs_so_far', 'length(pairs) == 2 * _i and forall(j, 0, _i, '
                             'pairs[2 * j] == intvls[j].lower - prev_upper(intvls, j) and '
                             'pairs[2 * j + 1] == intvls[j].upper - intvls[j].lower)'),
            ('end_of_previous', 'seen_last == prev_upper(intvls, _i)'),
            # (established pair by pair: each step needs one instance of `normal` only)
            ('signs_so_far', 'forall(j, 0, _i, pairs[2 * j] >= 0 and pairs[2 * j + 1] > 0 and implies(j > 0, pairs[2 * j] > 0))'),
        ])},
        ensures=[
            ('is_the_encoding', 'is_enc(result, intvls)', ['C13']),
            # (every entry, stated per pair: entries 2i and 2i+1 for i < length(intvls) are all entries of a list of that length)
            ('unsigned_numbers_only', 'length(result) == 2 * length(intvls) and forall(i, 0, length(intvls), '
                                      'result[2 * i] >= 0 and result[2 * i + 1] >= 0)', ['C13']),
            ('gaps_and_lengths_positive', 'forall(i, 0, length(intvls), result[2 * i + 1] > 0 and '
                                          'implies(i > 0, result[2 * i] > 0))', ['C13']),
        ],
    ),
    'udpcl.agent:range_decode': dict(
        params={'pairs': 'List[Int]'}, returns='Set[Int]', props=['C13'],
        requires=[('is_an_encoding', 'normal(ghost.rng_src) and is_enc(pairs, ghost.rng_src)', [])],
        modifies=['ghost.rng_k'],
        ghost_entry=['ghost.rng_k = 0'],
        locals={'intvls': 'Set[Int]', 'seen_last': 'Int', 'offset': 'Int', 'length': 'Int', 'low': 'Int', 'high': 'Int'},
        loops={0: dict(
            invariant=[
                ('position', '_it_pairs == 2 * ghost.rng_k and 0 <= ghost.rng_k and ghost.rng_k <= length(ghost.rng_src)'),
                ('end_of_previous', 'seen_last == prev_upper(ghost.rng_src, ghost.rng_k)'),
                ('decoded_so_far', 'forall(x, "Int", contains(intvls, x) == covers_upto(ghost.rng_src, ghost.rng_k, x))'),
            ],
            ghost_end=['ghost.rng_k = ghost.rng_k + 1'],
        )},
        ensures=[
            ('is_the_set_that_was_encoded',
             'forall(x, "Int", contains(result, x) == covers_upto(ghost.rng_src, length(ghost.rng_src), x))', ['C13']),
        ],
    ),
}

ASSUMPTIONS = [
    'UDPCL/range: iterating a portion.Interval yields its atomic intervals in ascending order, non-empty and not touching '
    '(portion keeps intervals normalised); the sequence-number sets the agent builds hold non-negative numbers',
]
