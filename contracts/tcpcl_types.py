"""Sidecar contracts for /repo/src/tcpcl/session.py (and the packet record
schemas of tcpcl.messages / tcpcl.contact / tcpcl.extend).

Nothing here is copied from the code except *names*: field names bind to the
real attributes, constants (flag values, CHUNK_SIZE, MAGIC_HEAD ...) are read
from the source ASTs by the engine.
"""
import z3

MODULES = ['tcpcl.session', 'tcpcl.messages', 'tcpcl.contact', 'tcpcl.extend', 'tcpcl.formats', 'tcpcl.config']

U64 = 2 ** 64 - 1

TYPES = {
    # tri-state result of match_id: None (no identifier in cert), False (present, no match), the matched value
    'AuthnStr': ('union', [('none', 'None'), ('false', 'None'), ('val', 'Str')]),
    'AuthnIp': ('union', [('none', 'None'), ('false', 'None'), ('val', 'Any[ipaddr]')]),
    # protocol events emitted on the wire by this endpoint (ghost)
    'Event': ('tuple', [('kind', 'Int'), ('xid', 'Int'), ('flags', 'Int'), ('dlen', 'Int'), ('data', 'Bytes'),
                        ('has_len_ext', 'Bool'), ('len_ext', 'Int'), ('reason', 'Int'), ('enc', 'Bytes')]),
    # D-Bus signals (ghost)
    'Signal': ('tuple', [('name', 'Int'), ('bid', 'Str'), ('length', 'Int'), ('result', 'Str')]),
    # (host, port) as the agent passes it to a handler
    'AddrPair': ('tuple', [('host', 'Str'), ('port', 'Int')]),
    'ParamVal': ('union', [('none', 'None'), ('int', 'Int'), ('str', 'Str'), ('ip', 'Any[ipaddr]'), ('false', 'None')]),
}

CONSTS = {
    'EV_CH': 1, 'EV_SESS_INIT': 2, 'EV_SEG': 3, 'EV_ACK': 4, 'EV_REFUSE': 5, 'EV_KEEPALIVE': 6, 'EV_REJECT': 7,
    'EV_TERM': 8,
    'SIG_STATE': 1, 'SIG_SEND_STARTED': 2, 'SIG_SEND_INTER': 3, 'SIG_SEND_FINISHED': 4, 'SIG_RECV_STARTED': 5,
    'SIG_RECV_INTER': 6, 'SIG_RECV_FINISHED': 7,
    'CB_KEEPALIVE': 1, 'CB_IDLE': 2, 'CB_PROCESS_QUEUE': 3, 'CB_TX_NOTLS': 4, 'CB_TX_TLS': 5, 'CB_RX_NOTLS': 6,
    'CB_RX_TLS': 7,
    'U64': U64,
}

SCHEMAS = {
    # 'owner' (BytesIO) and 'dir' (BundleItem) are ghost fields, written by ghost code only:
    # the item a buffer belongs to, and the direction of an item (1 = TX, 2 = RX)
    'BytesIO': {'fields': {'content': 'Bytes', 'pos': 'Int', 'owner': 'Ref[BundleItem]'}},
    'BundleItem': {'pyclass': ('tcpcl.session', 'BundleItem'),
                   'fields': {'transfer_id': 'Opt[Int]', 'total_length': 'Opt[Int]', 'ack_length': 'Int',
                              'file': 'Opt[Ref[BytesIO]]', 'dir': 'Int'}},
    'Config': {'pyclass': ('tcpcl.config', 'Config'), 'fields': {'enable_test': 'Set[Str]', 'tls_enable': 'Bool', 'require_tls': 'Opt[Bool]',
                          'require_host_authn': 'Bool', 'require_node_authn': 'Bool', 'node_id': 'Str',
                          'keepalive_time': 'Int', 'idle_time': 'Int', 'segment_size_mru': 'Int',
                          'segment_size_tx_initial': 'Int', 'modulate_target_ack_time': 'Opt[Int]',
                          'stop_on_close': 'Bool'}},
    'Connection': {'pyclass': ('tcpcl.session', 'Connection'),
                   'fields': {'_on_close': 'Opt[Func]', '_as_passive': 'Bool', '_peer_name': 'Str',
                              '_Connection__tx_buf': 'Bytes',
                              '_Connection__s_notls': 'Opt[Any[sock]]', '_Connection__s_tls': 'Opt[Any[sock]]',
                              '_Connection__avail_rx_notls_id': 'Opt[Int]', '_Connection__avail_tx_notls_id': 'Opt[Int]',
                              '_Connection__avail_tx_notls_pend': 'Opt[Int]', '_Connection__avail_rx_tls_id': 'Opt[Int]',
                              '_Connection__avail_tx_tls_id': 'Opt[Int]', '_Connection__avail_tx_tls_pend': 'Opt[Int]'}},
    'Messenger': {'pyclass': ('tcpcl.session', 'Messenger'), 'bases': ['Connection'],
                  'fields': {'_config': 'Ref[Config]', '_on_state_change': 'Opt[Func]', '_state': 'Opt[Str]',
                             '_do_send_ack_inter': 'Bool', '_do_send_ack_final': 'Bool',
                             '_keepalive_time': 'Int', '_idle_time': 'Int',
                             '_send_segment_size_min': 'Int', '_send_segment_size': 'Int',
                             '_segment_tx_times': 'Dict[Int, Any[datetime]]', '_segment_last_ack_len': 'Opt[Int]',
                             '_segment_pid_err_last': 'Opt[Float]', '_segment_pid_err_accum': 'Opt[Float]',
                             '_keepalive_timer_id': 'Opt[Int]', '_idle_timer_id': 'Opt[Int]',
                             '_conhead_peer': 'Opt[Pkt[ContactV4]]', '_conhead_this': 'Opt[Pkt[ContactV4]]',
                             '_in_conn': 'Bool',
                             '_sessinit_peer': 'Opt[Pkt[SessionInit]]', '_sessinit_this': 'Opt[Pkt[SessionInit]]',
                             '_sess_parameters': 'Dict[Str, ParamVal]', '_in_sess': 'Bool', '_in_sess_func': 'Opt[Func]',
                             '_in_term': 'Bool', '_in_term_func': 'Opt[Func]', '_tls_attempt': 'Int', '_is_open': 'Bool',
                             '_Messenger__rx_buf': 'Bytes', '_Messenger__tx_buf': 'Bytes',
                             '_from': 'Opt[AddrPair]', '_to': 'Opt[AddrPair]'}},
    'ContactHandler': {'pyclass': ('tcpcl.session', 'ContactHandler'), 'bases': ['Messenger'],
                       'fields': {'object_path': 'Str', '_tx_next_id': 'Int',
                                  '_tx_pend_start': 'List[Ref[BundleItem]]', '_tx_pend_ack': 'Set[Ref[BundleItem]]',
                                  '_tx_map': 'Dict[Int, Ref[BundleItem]]', '_tx_tmp': 'Opt[Ref[BundleItem]]',
                                  '_tx_length': 'Opt[Int]', '_process_queue_pend': 'Opt[Int]',
                                  '_rx_tmp': 'Opt[Ref[BundleItem]]', '_rx_bundles': 'List[Ref[BundleItem]]',
                                  '_rx_map': 'Dict[Int, Ref[BundleItem]]'}},
    # scapy packet records: field names are checked against the real fields_desc
    'pkt:Head': {'pyclass': ('tcpcl.contact', 'Head'), 'pkt': True,
                 'fields': {'magic': 'Bytes', 'version': 'Opt[Int]', 'payload': 'Int'}},
    'pkt:ContactV4': {'pyclass': ('tcpcl.contact', 'ContactV4'), 'pkt': True, 'fields': {'flags': 'Int', 'payload': 'Int'}},
    # payload of a message whose type is bound to no message class (scapy's raw layer)
    'pkt:Raw': {'pyclass': None, 'extclass': 'scapy.packet.Raw', 'pkt': True, 'fields': {'load': 'Bytes', 'payload': 'Int'}},
    'pkt:MessageHead': {'pyclass': ('tcpcl.messages', 'MessageHead'), 'pkt': True,
                        'fields': {'msg_id': 'Opt[Int]', 'payload': 'Int'}},
    'pkt:SessionInit': {'pyclass': ('tcpcl.messages', 'SessionInit'), 'pkt': True,
                        'fields': {'keepalive': 'Int', 'segment_mru': 'Int', 'transfer_mru': 'Int',
                                   'nodeid_length': 'Opt[Int]', 'nodeid_data': 'Str', 'ext_size': 'Opt[Int]',
                                   'ext_items': 'List[Pkt[SessionExtendHeader]]', 'payload': 'Int'}},
    'pkt:SessionTerm': {'pyclass': ('tcpcl.messages', 'SessionTerm'), 'pkt': True,
                        'fields': {'flags': 'Int', 'reason': 'Int', 'payload': 'Int'}},
    'pkt:Keepalive': {'pyclass': ('tcpcl.messages', 'Keepalive'), 'pkt': True, 'fields': {'payload': 'Int'}},
    'pkt:RejectMsg': {'pyclass': ('tcpcl.messages', 'RejectMsg'), 'pkt': True,
                      'fields': {'rej_msg_id': 'Opt[Int]', 'reason': 'Opt[Int]', 'payload': 'Int'}},
    'pkt:TransferRefuse': {'pyclass': ('tcpcl.messages', 'TransferRefuse'), 'pkt': True,
                           'fields': {'reason': 'Int', 'transfer_id': 'Int', 'payload': 'Int'}},
    'pkt:TransferSegment': {'pyclass': ('tcpcl.messages', 'TransferSegment'), 'pkt': True,
                            'fields': {'flags': 'Int', 'transfer_id': 'Int', 'ext_size': 'Opt[Int]',
                                       'ext_items': 'List[Pkt[TransferExtendHeader]]', 'length': 'Opt[Int]', 'data': 'Bytes',
                                       'payload': 'Int'}},
    'pkt:TransferAck': {'pyclass': ('tcpcl.messages', 'TransferAck'), 'pkt': True,
                        'fields': {'flags': 'Int', 'transfer_id': 'Int', 'length': 'Opt[Int]', 'payload': 'Int'}},
    'pkt:TransferExtendHeader': {'pyclass': ('tcpcl.messages', 'TransferExtendHeader'), 'pkt': True,
                                 'fields': {'flags': 'Int', 'type': 'Opt[Int]', 'length': 'Opt[Int]', 'payload': 'Int', '_pcls': 'Int'}},
    'pkt:SessionExtendHeader': {'pyclass': ('tcpcl.messages', 'SessionExtendHeader'), 'pkt': True,
                                'fields': {'flags': 'Int', 'type': 'Opt[Int]', 'length': 'Opt[Int]', 'payload': 'Int'}},
    'pkt:TransferTotalLength': {'pyclass': ('tcpcl.extend', 'TransferTotalLength'), 'pkt': True,
                                'fields': {'total_length': 'Opt[Int]', 'payload': 'Int'}},
    'pkt:TransferPrivateDummy': {'pyclass': ('tcpcl.extend', 'TransferPrivateDummy'), 'pkt': True,
                                 'fields': {'largeval': 'Int', 'smallval': 'Int', 'payload': 'Int'}},
    'pkt:SessionPrivateDummy': {'pyclass': ('tcpcl.extend', 'SessionPrivateDummy'), 'pkt': True,
                                'fields': {'largeval': 'Int', 'smallval': 'Int', 'payload': 'Int'}},
}


GHOST = {
    # glib sources: armed ids, their delay (ms) and callback tag
    'src_armed': 'Set[Int]',
    'src_delay': 'Dict[Int, Int]',
    'src_cb': 'Dict[Int, Int]',
    'idle_resets': 'Int',      # number of times the idle timer was restarted (Messenger._idle_reset)
    # protocol events handed to send_message, in order; and their encodings concatenated
    'trace': 'List[Event]',
    'enc_stream': 'Bytes',
    # octets accepted by sock.send so far
    'wire_out': 'Bytes',
    # D-Bus signals emitted, in order
    'signals': 'List[Signal]',
    # RFC 9174 output automaton of this endpoint
    'ch_sent': 'Bool', 'si_sent': 'Bool', 'term_sent': 'Bool',
    'cur_xid': 'Opt[Int]', 'started': 'Set[Int]',
    # what the peer has sent (input automaton): everything so far legal?, last segment, cumulative length
    'peer_legal': 'Bool', 'rx_have_last': 'Bool', 'rx_last_id': 'Int', 'rx_last_flags': 'Int', 'rx_cum': 'Int',
    'rx_ids_seen': 'Set[Int]',
    # transfer ids that got a send_bundle_finished signal
    'tx_finished': 'Set[Int]',
    # ids queued for sending and not yet finished / ids announced as received and not yet popped (C18)
    'tx_live': 'Set[Int]', 'rx_live': 'Set[Int]',
    # octets of the received stream already consumed as complete messages (C07)
    'rx_consumed': 'Bytes',
}
