"""Contracts for the block CRC functions (C08): AbstractBlock.update_crc / check_crc / fill_fields,
Bundle.update_all_crc / check_all_crc.

The CRC polynomials themselves (crcmod), the CBOR encoder (cbor2.dumps) and scapy's build() are outside
the verifier's reach: they enter as functions
    crc_fn(type, octets) -> number        (crcmod.predefined 'x-25' / 'crc-32c')
    crc_enc(type, number) -> octets       (struct.pack '>H' / '>L')
    item(block fields ...) -> CBOR item   (CborArray.self_build over the fields_desc)
    dumps(item) -> octets                 (cbor2.dumps)
What is proved is how the code uses them: the CRC is computed over the block encoded with a zeroed CRC
field of the right width, stored as its big-endian encoding, compared the same way, and the field is
restored after a check.  That the functions are the RFC 9171 ones is the subject of the bounded part."""
import z3

from pyvc.sym import V, Py, is_py, NONE, Unsupported, mk_int, mk_bool, fresh, fresh_name, truthy, class_tag
from pyvc.types import TInt, TBytes, TOpt, TAny, TPkt

PRIM = 'Pkt[PrimaryBlock]'
BLK = 'Pkt[CanonicalBlock]'

ITEM = TAny('cboritem')


def _sel(eng, schema, field, ref):
    ft = eng.spec.schemas[schema].fields[field]
    return V(ft, z3.Select(eng.heap_arr((schema, field), ft), ref.z))


def _crc_fn():
    return z3.Function('crc_fn', z3.IntSort(), TBytes.sort(), z3.IntSort())


def _crc_enc():
    return z3.Function('crc_enc', z3.IntSort(), z3.IntSort(), TBytes.sort())


def _dumps():
    return z3.Function('cbor_dumps', ITEM.sort(), TBytes.sort())


def _opt_bytes_key(v):
    '''an Opt[Bytes] field as a pair (is_none, value) of plain terms for use as function arguments'''
    return [z3.If(v.t.is_none(v.z), 1, 0), v.t.val(v.z)]


def _opt_int_key(v):
    return [z3.If(v.t.is_none(v.z), 1, 0), v.t.val(v.z)]


def _opt_str_key(v):
    return [z3.If(v.t.is_none(v.z), 1, 0), v.t.val(v.z)]


def wire_btsd(eng, blk):
    '''block-type-specific data as it will be encoded: the field when set, else the encoding of the payload'''
    btsd = _sel(eng, 'pkt:CanonicalBlock', 'btsd', blk)
    pl = _sel(eng, 'pkt:CanonicalBlock', 'payload', blk)
    pcls = _sel(eng, 'pkt:CanonicalBlock', '_pcls', blk)
    enc_pl = z3.Function('enc_payload', z3.IntSort(), TBytes.sort())
    enc_hop = z3.Function('enc_hop', z3.IntSort(), z3.IntSort(), TBytes.sort())
    key = ('enc_hop_inj',)
    if key not in eng.wf_seen:
        # enc_hop is injective: a CBOR array of two unsigned integers
        eng.wf_seen.add(key)
        a, b, c, d = z3.Ints('eh_a eh_b eh_c eh_d')
        eng.assume(z3.ForAll([a, b, c, d], z3.Implies(enc_hop(a, b) == enc_hop(c, d), z3.And(a == c, b == d)),
                             patterns=[z3.MultiPattern(enc_hop(a, b), enc_hop(c, d))]))
    hop = V(TPkt(['HopCountBlock']), pl.z)
    lim = _sel(eng, 'pkt:HopCountBlock', 'limit', hop)
    cnt = _sel(eng, 'pkt:HopCountBlock', 'count', hop)
    from_payload = z3.If(pcls.z == class_tag('HopCountBlock'), enc_hop(lim.t.val(lim.z), cnt.t.val(cnt.z)), enc_pl(pl.z))
    return z3.If(btsd.t.is_none(btsd.z), from_payload, btsd.t.val(btsd.z))


def item_of(eng, blk, crc_override=None):
    '''the CBOR item build() produces for a block: a function of its field values'''
    layer = blk.t.layers[0]
    if layer == 'PrimaryBlock':
        names = ['bp_version', 'bundle_flags', 'crc_type', 'lifetime', 'fragment_offset', 'total_app_data_len']
        args = [_sel(eng, 'pkt:PrimaryBlock', n, blk).z for n in names]
        for n in ('destination', 'source', 'report_to'):
            args += _opt_str_key(_sel(eng, 'pkt:PrimaryBlock', n, blk))
        ts = _sel(eng, 'pkt:PrimaryBlock', 'create_ts', blk)
        args += [_sel(eng, 'pkt:Timestamp', 'dtntime', ts).z, _sel(eng, 'pkt:Timestamp', 'seqno', ts).z]
        crc = _sel(eng, 'pkt:PrimaryBlock', 'crc_value', blk)
    elif layer == 'CanonicalBlock':
        args = []
        for n in ('type_code', 'block_num'):
            args += _opt_int_key(_sel(eng, 'pkt:CanonicalBlock', n, blk))
        args += [_sel(eng, 'pkt:CanonicalBlock', 'block_flags', blk).z, _sel(eng, 'pkt:CanonicalBlock', 'crc_type', blk).z,
                 wire_btsd(eng, blk)]
        crc = _sel(eng, 'pkt:CanonicalBlock', 'crc_value', blk)
    else:
        raise Unsupported('item_of %s' % layer)
    if crc_override is not None:
        args += [z3.IntVal(0), crc_override]
    else:
        args += _opt_bytes_key(crc)
    f = z3.Function('item_' + layer, *([a.sort() for a in args] + [ITEM.sort()]))
    return f(*args)


def crc_expected(eng, blk):
    '''the CRC field value RFC 9171 asks for: CRC over the block encoded with a zeroed CRC field, big-endian'''
    layer = blk.t.layers[0]
    ct = _sel(eng, 'pkt:' + layer, 'crc_type', blk).z
    zeroed = _crc_enc()(ct, z3.IntVal(0))
    return _crc_enc()(ct, _crc_fn()(ct, _dumps()(item_of(eng, blk, crc_override=zeroed))))


def sb_crc_expected(eng, blk):
    return V(TBytes, crc_expected(eng, blk))


def _item_count():
    return z3.Function('item_count', ITEM.sort(), z3.IntSort())


def _but_last():
    return z3.Function('item_but_last', ITEM.sort(), ITEM.sort())


def _item_append():
    return z3.Function('item_append', ITEM.sort(), TBytes.sort(), ITEM.sort())


def _last_bstr():
    # the last item of a list of CBOR items when it is a byte string (None when it is anything else)
    return z3.Function('item_last_bstr', ITEM.sort(), TOpt(TBytes).sort())


def crc_expected_rx(eng, blk, rx):
    '''the CRC field value of a block that was received as the items rx: over those items, the last one (the CRC field)
    replaced by a zeroed one'''
    layer = blk.t.layers[0]
    ct = _sel(eng, 'pkt:' + layer, 'crc_type', blk).z
    zeroed = _crc_enc()(ct, z3.IntVal(0))
    return _crc_enc()(ct, _crc_fn()(ct, _dumps()(_item_append()(_but_last()(rx), zeroed))))


def sb_crc_ok(eng, blk):
    '''a block passes its CRC check.  A block that was built (or whose CRC was updated): type 0 and no CRC field, or the
    field equals the CRC of the block encoded with a zeroed field.  A block as it was decoded: it was received as exactly as
    many items as it has fields, and the CRC is the one of the items as received.'''
    layer = blk.t.layers[0]
    ct = _sel(eng, 'pkt:' + layer, 'crc_type', blk).z
    crc = _sel(eng, 'pkt:' + layer, 'crc_value', blk)
    rx = _sel(eng, 'pkt:' + layer, '_rx_items', blk)
    rxv = rx.t.val(rx.z)
    built = z3.If(ct == 0, crc.t.is_none(crc.z),
                  z3.And(z3.Not(crc.t.is_none(crc.z)), crc.t.val(crc.z) == crc_expected(eng, blk)))
    ob = TOpt(TBytes)
    last = _last_bstr()(rxv)
    # (the CRC item is compared as it was received: the one item the CRC does not cover)
    decoded = z3.And(_item_count()(rxv) == _item_count()(item_of(eng, blk)),
                     z3.If(ct == 0, crc.t.is_none(crc.z),
                           z3.And(z3.Not(ob.is_none(last)), ob.val(last) == crc_expected_rx(eng, blk, rxv))))
    return mk_bool(z3.If(rx.t.is_none(rx.z), built, decoded))


def sb_wire_btsd(eng, blk):
    if blk.t.layers[0] != 'CanonicalBlock':
        return V(TBytes, z3.Empty(TBytes.sort()))     # (primary blocks have no block-type-specific data)
    return V(TBytes, wire_btsd(eng, blk))


SPECBUILTINS = {'crc_expected': sb_crc_expected, 'crc_ok': sb_crc_ok, 'wire_btsd': sb_wire_btsd}


# ---- the dictionary AbstractBlock.CRC_DEFN and the library calls -------------------------------------
def cb_extobj_item(eng, base, idx):
    if is_py(base, 'classattr') and base.py[2] == 'CRC_DEFN':
        k = eng.as_int(idx)
        if eng.branch(k == 1):
            return Py('extobj', 'crcdefn', 1)
        if eng.branch(k == 2):
            return Py('extobj', 'crcdefn', 2)
        eng.py_raise('KeyError')
    if is_py(base, 'extobj') and base.py[1] == 'crcdefn' and idx.py and idx.py[0] == 'strlit':
        if idx.py[1] in ('func', 'encode'):
            return Py('extobj', 'crcfn', idx.py[1], base.py[2])
        eng.py_raise('KeyError')
    return None


def payload_encoding(eng, blk):
    '''encoding of the payload object of a block (what bytes(payload) / payload.do_build() give)'''
    pl = _sel(eng, 'pkt:CanonicalBlock', 'payload', blk)
    pcls = _sel(eng, 'pkt:CanonicalBlock', '_pcls', blk)
    enc_pl = z3.Function('enc_payload', z3.IntSort(), TBytes.sort())
    enc_hop = z3.Function('enc_hop', z3.IntSort(), z3.IntSort(), TBytes.sort())
    hop = V(TPkt(['HopCountBlock']), pl.z)
    lim = _sel(eng, 'pkt:HopCountBlock', 'limit', hop)
    cnt = _sel(eng, 'pkt:HopCountBlock', 'count', hop)
    return z3.If(pcls.z == class_tag('HopCountBlock'), enc_hop(lim.t.val(lim.z), cnt.t.val(cnt.z)), enc_pl(pl.z))


def cb_bytes(eng, v):
    if is_py(v, 'dynpayload') and v.py[1].t.layers[0] == 'CanonicalBlock':
        return V(TBytes, payload_encoding(eng, v.py[1]))
    return None


def cb_extobj_call(eng, fv, args, kwargs):
    if fv.py[1] == 'dynpayload_m' and fv.py[3] == 'do_build' and fv.py[2].t.layers[0] == 'CanonicalBlock':
        return V(TBytes, payload_encoding(eng, fv.py[2]))
    if fv.py[1] == 'crcfn':
        which, k = fv.py[2], fv.py[3]
        if which == 'encode':
            r = V(TBytes, _crc_enc()(z3.IntVal(k), eng.as_int(args[0])))
            eng.assume(z3.Length(r.z) == (2 if k == 1 else 4))
            return r
        data = args[0]
        if data.t is not TBytes:
            raise Unsupported('CRC of a non-bytes value')
        r = mk_int(_crc_fn()(z3.IntVal(k), data.z))
        eng.assume(z3.And(r.z >= 0, r.z < (1 << (16 if k == 1 else 32))))
        return r
    return None


def cb_pktmethod(eng, pkt, name, args, kwargs):
    if name == 'build' and pkt.t.layers[0] in ('PrimaryBlock', 'CanonicalBlock'):
        if pkt.t.layers[0] == 'CanonicalBlock':
            # CanonicalBlock.self_build -> ensure_block_type_specific_data: an unset data field takes the payload encoding
            btsd = _sel(eng, 'pkt:CanonicalBlock', 'btsd', pkt)
            pl = _sel(eng, 'pkt:CanonicalBlock', 'payload', pkt)
            w = wire_btsd(eng, pkt)
            new = z3.If(z3.And(btsd.t.is_none(btsd.z), pl.z != 0), btsd.t.some(w), btsd.z)
            eng.write_heap(pkt, ('pkt:CanonicalBlock', 'btsd'), btsd.t, V(btsd.t, new))
        return V(ITEM, item_of(eng, pkt))
    return None


def cbor_dumps(eng, args, kwargs):
    if args[0].t == ITEM:
        return V(TBytes, _dumps()(args[0].z))
    r = fresh(TBytes, 'cbor')
    if args[0].t is TInt:
        # (assumed, RFC 8949) an unsigned integer encodes to its head only: 1, 2, 3, 5 or 9 octets
        z = args[0].z
        eng.assume(z3.Implies(z >= 0, z3.Length(r.z) == z3.If(z < 24, 1, z3.If(z < 256, 2, z3.If(z < 65536, 3,
                                                               z3.If(z < 4294967296, 5, 9))))))
    return r


def cb_any_op(eng, op, args):
    '''operations on a CBOR item held as a Python list (the items a block was received as, the list build() returns)'''
    if args[0].t != ITEM:
        return None
    if op == 'len':
        n = mk_int(_item_count()(args[0].z))
        eng.assume(n.z >= 0)
        return n
    if op == 'slice' and args[1] is None and args[2] == -1:
        return V(ITEM, _but_last()(args[0].z))
    if op == 'index' and args[1] == -1:
        # (an item that is not a byte string never equals one: Opt[Bytes] None stands for "anything else")
        return V(TOpt(TBytes), _last_bstr()(args[0].z))
    if op == 'add':
        from pyvc import lists as L
        from pyvc.types import TList
        b = args[1]
        if isinstance(b.t, TList) and b.t.elem is TBytes and z3.is_true(z3.simplify(L.l_len(b.t, b.z) == 1)):
            return V(ITEM, _item_append()(args[0].z, L.l_get(b.t, b.z, z3.IntVal(0))))
    return None


EXTERNS = {'cbor2.dumps': cbor_dumps}
CALLBACKS = {'extobj_item': cb_extobj_item, 'extobj_call': cb_extobj_call, 'pktmethod': cb_pktmethod, 'bytes': cb_bytes,
             'any_op': cb_any_op}

SPECFUNCS = {
    # what every block (other than one carrying an administrative record, whose data is re-generated from
    # the record object by Bundle._update_from_admin) will put on the wire is as it was
    'wire_kept': ([], 'forall(b, "Pkt[CanonicalBlock]", b._pcls == tag_of("AdminRecord") or wire_btsd(b) == old(wire_btsd(b)))'),
    # as the decoder leaves a bundle: a block carries an AdminRecord object only if the primary block says so
    'admin_coherent': (['b'], 'b.primary is not None and forall(x, "Pkt[CanonicalBlock]", implies('
                              'contains(b.blocks, x) and x._pcls == tag_of("AdminRecord"), '
                              'flag(unwrap(b.primary).bundle_flags, F_ADMIN)))'),
    'crc_type_ok': (['x'], 'x.crc_type == 0 or x.crc_type == 1 or x.crc_type == 2'),
    # _update_from_admin can only add the payload-admin bit to a primary block
    'flags_nonneg_kept': ([], 'forall(p, "Pkt[PrimaryBlock]", p.bundle_flags == old(p.bundle_flags) or '
                              '(p.bundle_flags == old(p.bundle_flags) + F_ADMIN and not flag(old(p.bundle_flags), F_ADMIN)))'),
    'flags_kept': (['b'], 'b.primary is None or unwrap(b.primary).bundle_flags == old(unwrap(b.primary).bundle_flags)'),
    # every block of the bundle passes its CRC check
    'crc_all_valid': (['b'], '(b.primary is None or crc_ok(unwrap(b.primary))) and '
                             'forall(i, 0, length(b.blocks), crc_ok(b.blocks[i]))'),
    'crc_types_known': (['b'], '(b.primary is None or unwrap(b.primary).crc_type == 0 or unwrap(b.primary).crc_type == 1 or '
                               'unwrap(b.primary).crc_type == 2) and forall(i, 0, length(b.blocks), '
                               'b.blocks[i].crc_type == 0 or b.blocks[i].crc_type == 1 or b.blocks[i].crc_type == 2)'),
}

ASSUMPTIONS = [
    'BP/C08: crcmod.predefined x-25 / crc-32c, struct.pack and cbor2.dumps are deterministic functions; scapy build() of a '
    'block is a function of its field values (CanonicalBlock: with its payload embedded as block-type-specific data when '
    'that field is unset); these are the RFC 9171 CRC-16/X.25 and CRC-32C only as far as the bounded check shows',
]

CRC_FIELDS = ['pkt:PrimaryBlock.crc_value', 'pkt:CanonicalBlock.crc_value', 'pkt:CanonicalBlock.btsd']
# (updating a CRC also forgets the items a decoded block was received as)
CRC_FIELDS_W = CRC_FIELDS + ['pkt:PrimaryBlock._rx_items', 'pkt:CanonicalBlock._rx_items']

UPDATE = dict(
    props=['C08'],
    cases=[{'name': 'primary', 'params': {'self': PRIM}, 'modifies': ['pkt:PrimaryBlock.crc_value', 'pkt:PrimaryBlock._rx_items']},
           {'name': 'canonical', 'params': {'self': BLK}, 'modifies': ['pkt:CanonicalBlock.crc_value', 'pkt:CanonicalBlock.btsd',
                                                                       'pkt:CanonicalBlock._rx_items']}],
    params={'keep_existing': 'Bool'},
    requires=[('crc_type_known', 'self.crc_type == 0 or self.crc_type == 1 or self.crc_type == 2', [])],
    modifies=CRC_FIELDS_W,
    modifies_self_only=True,
    ensures=[
        # blocks with CRC type zero carry no CRC field
        ('no_crc_field_for_type_zero', 'implies(self.crc_type == 0, self.crc_value is None)', ['C08']),
        # from here on the CRC belongs to the current field values, not to the items the block was received as
        ('received_items_forgotten', 'self._rx_items is None', ['C08']),
        # otherwise the field is the CRC of the block encoded with a zeroed CRC field (unless asked to keep a set one)
        ('crc_of_block_with_zeroed_field',
         'implies(not (self.crc_type == 0) and not (keep_existing and old(self.crc_value) is not None), crc_ok(self))', ['C08']),
        ('kept_when_asked', 'implies(not (self.crc_type == 0) and keep_existing and old(self.crc_value) is not None, '
                            'eqv(self.crc_value, old(self.crc_value)))', []),
        ('wire_data_unchanged', 'wire_btsd(self) == old(wire_btsd(self)) and self.crc_type == old(self.crc_type)', []),
    ],
)

CHECK = dict(
    props=['C08'], returns='Bool',
    cases=[{'name': 'primary', 'params': {'self': PRIM}, 'modifies': ['pkt:PrimaryBlock.crc_value']},
           {'name': 'canonical', 'params': {'self': BLK}, 'modifies': ['pkt:CanonicalBlock.crc_value', 'pkt:CanonicalBlock.btsd']}],
    requires=[('crc_type_known', 'self.crc_type == 0 or self.crc_type == 1 or self.crc_type == 2', [])],
    modifies=CRC_FIELDS,
    modifies_self_only=True,
    ensures=[
        ('verdict_is_the_crc_comparison', 'result == crc_ok(self)', ['C08']),
        ('crc_field_restored', 'eqv(self.crc_value, old(self.crc_value))', ['C08']),
        ('verdict_about_the_block_as_received', 'result == old(crc_ok(self))', ['C08']),
        ('wire_data_unchanged', 'wire_btsd(self) == old(wire_btsd(self)) and self.crc_type == old(self.crc_type)', []),
    ],
    # a data field that is set is not touched by checking (only an unset one is filled in from the payload object)
    case_ensures={'canonical': [('set_data_kept', 'implies(old(self.btsd) is not None, eqv(self.btsd, old(self.btsd)))', [])]},
)

FUNCS = {
    'bp.encoding.blocks:AbstractBlock.update_crc': UPDATE,
    'bp.encoding.blocks:AbstractBlock.check_crc': CHECK,
    'bp.encoding.blocks:CanonicalBlock.ensure_block_type_specific_data': dict(
        self=BLK, props=['C08', 'C11'],
        modifies=['pkt:CanonicalBlock.btsd'],
        modifies_self_only=True,
        ensures=[
            # the data field, once set, is kept; an unset one takes the encoding of the payload object;
            # either way what the block will put on the wire does not change
            ('wire_data_unchanged', 'wire_btsd(self) == old(wire_btsd(self))', ['C08', 'C11']),
            ('set_data_kept', 'implies(old(self.btsd) is not None, eqv(self.btsd, old(self.btsd)))', ['C11']),
            ('embedded_when_there_is_a_payload', 'implies(pl(self) != 0, self.btsd is not None)', ['C08']),
        ],
    ),
    'bp.encoding.bundle:Bundle.check_all_crc': dict(
        self='Pkt[Bundle]', returns='Set[Opt[Int]]', props=['C08'],
        requires=[('crc_types_known', 'crc_types_known(self)', [])],
        locals={'fail': 'Set[Opt[Int]]'},
        modifies=CRC_FIELDS,
        loops={0: dict(invariant=[
            ('failures_so_far', 'is_empty_set(fail) == ((self.primary is None or crc_ok(unwrap(self.primary))) and '
                                'forall(k, 0, _i, crc_ok(_seq[k])))'),
            ('block_verdicts_stable', 'forall(b, "Pkt[CanonicalBlock]", crc_ok(b) == old(crc_ok(b)) and '
                                      'eqv(b.crc_value, old(b.crc_value)) and b.crc_type == old(b.crc_type))'),
            ('primary_verdict_stable', 'forall(p, "Pkt[PrimaryBlock]", crc_ok(p) == old(crc_ok(p)))'),
            ('primary_crc_field_stable', 'forall(p, "Pkt[PrimaryBlock]", eqv(p.crc_value, old(p.crc_value)))'),
            ('set_data_kept', 'forall(b, "Pkt[CanonicalBlock]", implies(old(b.btsd) is not None, eqv(b.btsd, old(b.btsd))))'),
        ])},
        ensures=[
            ('set_data_kept', 'forall(b, "Pkt[CanonicalBlock]", implies(old(b.btsd) is not None, eqv(b.btsd, old(b.btsd))))', []),
            ('fails_iff_some_crc_bad', 'is_empty_set(result) == old(crc_all_valid(self))', ['C08']),
            ('crc_fields_as_before', 'forall(b, "Pkt[CanonicalBlock]", eqv(b.crc_value, old(b.crc_value))) and '
                                     'forall(p, "Pkt[PrimaryBlock]", eqv(p.crc_value, old(p.crc_value)))', ['C08']),
            ('verdicts_stable', 'forall(b, "Pkt[CanonicalBlock]", crc_ok(b) == old(crc_ok(b))) and '
                                'forall(p, "Pkt[PrimaryBlock]", crc_ok(p) == old(crc_ok(p)))', []),
        ],
    ),
    'bp.encoding.bundle:Bundle._update_from_admin': dict(
        self='Pkt[Bundle]', props=['C08'],
        trusted=True, trusted_reason='re-asserts the payload-admin flag / type code / data of a block that carries an '
                                     'AdminRecord object; assumed to leave other blocks and their CRC types alone',
        modifies=['pkt:PrimaryBlock.bundle_flags', 'pkt:CanonicalBlock.type_code', 'pkt:CanonicalBlock.btsd'],
        ensures=[('crc_types_kept', 'forall(b, "Pkt[CanonicalBlock]", b.crc_type == old(b.crc_type))'),
                 ('other_blocks_kept', 'wire_kept()'),
                 ('coherent_bundle_keeps_its_flags', 'implies(old(admin_coherent(self)), flags_kept(self))'),
                 ('flags_stay_nonnegative', 'flags_nonneg_kept()'),
                 ('only_this_bundle', 'forall(p, "Pkt[PrimaryBlock]", implies(not eqv(self.primary, p), '
                                      'p.bundle_flags == old(p.bundle_flags)))'),
                 ('primary_still_there', 'eqv(self.primary, old(self.primary)) and self.blocks == old(self.blocks)')],
    ),
    'bp.encoding.bundle:Bundle.update_all_crc': dict(
        self='Pkt[Bundle]', props=['C08'],
        requires=[('crc_types_known', 'crc_types_known(self)', [])],
        modifies=CRC_FIELDS_W + ['pkt:PrimaryBlock.bundle_flags', 'pkt:CanonicalBlock.type_code', 'ghost.crc_ok'],
        ghost_exit=['ghost.crc_ok = set_add(ghost.crc_ok, self)'],
        loops={0: dict(invariant=[
            ('primary_done', 'self.primary is None or crc_ok(unwrap(self.primary))'),
            ('done_so_far', 'forall(k, 0, _i, crc_ok(_seq[k]))'),
            ('types_known', 'crc_types_known(self) and self.blocks == old(self.blocks) and eqv(self.primary, old(self.primary))'),
            ('wire_data_kept', 'wire_kept()'),
            ('flags', 'implies(old(admin_coherent(self)), flags_kept(self)) and forall(p, "Pkt[PrimaryBlock]", '
                      'implies(not eqv(self.primary, p), p.bundle_flags == old(p.bundle_flags))) and flags_nonneg_kept()'),
        ])},
        ensures=[
            ('wire_data_kept', 'wire_kept()', ['C11']),
            ('flags_stay_nonnegative', 'flags_nonneg_kept()', []),
            ('coherent_bundle_keeps_its_flags', 'implies(old(admin_coherent(self)), flags_kept(self))', ['C11']),
            ('only_this_bundle', 'forall(p, "Pkt[PrimaryBlock]", implies(not eqv(self.primary, p), '
                                 'p.bundle_flags == old(p.bundle_flags)))', []),
            ('every_block_carries_its_crc', 'crc_all_valid(self)', ['C08']),
            ('crc_current', 'contains(ghost.crc_ok, self)', ['C08']),
        ],
    ),
}
