"""Contracts of the BPSec receive steps (C12: a bundle with an unverifiable security block is not delivered and is
marked deleted with a security reason).

The security contexts themselves (COSE: pycose / cryptography) are outside the verifier's reach: a context's
verify_bib / verify_bcb is an assumed callable that returns None (all targets verified) or a security reason code,
or raises; it may remove accepted blocks from the container and replace target data.  What is proved is what the
agent-level steps Bpsec._verify_bib / Bpsec._verify_bcb make of those outcomes, for every number and order of
security blocks.
"""
import z3

from pyvc.sym import V, Py, is_py, NONE, Unsupported, mk_int, mk_bool, fresh, fresh_name
from pyvc.types import TInt, TBool, TOpt, TAny, TRef

CTR = 'Ref[Ctr]'
SEC = 'Ref[SecApp]'

SCHEMAS = {
    'SecApp': {'pyclass': ('bp.app.bpsec', 'Bpsec'),
               'fields': {'_agent': 'Ref[Agent]', '_config': 'Opt[Ref[BpConfig]]', '_app_name': 'Str',
                          '_contexts': 'Dict[Int, Any[secctx]]'}},
    'pkt:BlockIntegrityBlock': {'pyclass': ('bp.encoding.bpsec', 'BlockIntegrityBlock'), 'pkt': True,
                                'fields': {'context_id': 'Int', 'targets': 'List[Int]',
                                           'results': 'List[Pkt[TargetResultList]]', 'payload': 'Int'}},
    'pkt:BlockConfidentialityBlock': {'pyclass': ('bp.encoding.bpsec', 'BlockConfidentialityBlock'), 'pkt': True,
                                      'fields': {'context_id': 'Int', 'targets': 'List[Int]',
                                                 'results': 'List[Pkt[TargetResultList]]', 'payload': 'Int'}},
    'pkt:TargetResultList': {'pyclass': ('bp.encoding.bpsec', 'TargetResultList'), 'pkt': True,
                             'fields': {'results': 'List[Pkt[TypeValuePair]]', 'payload': 'Int'}},
    'pkt:TypeValuePair': {'pyclass': ('bp.encoding.bpsec', 'TypeValuePair'), 'pkt': True,
                          'fields': {'type_code': 'Int', 'payload': 'Int'}},
    # the COSE security context and its per-operation scratch record
    'CoseCtx': {'pyclass': ('bp.app.bpsec', 'CoseContext'), 'fields': {'_config': 'Opt[Ref[BpConfig]]'}},
    'SecOp': {'pyclass': ('bp.app.bpsec', 'CoseSecOpCtx'),
              'fields': {'ctr': 'Ref[Ctr]', 'sec_blk': 'Pkt[CanonicalBlock]', 'tgt_blk': 'Opt[Pkt[CanonicalBlock]]'}},
}

GHOST = {
    'tgt_last_failed': 'Bool',     # the last per-target verification (the cryptographic check) reported a failure
    'tgt_any_failed': 'Bool',      # some target of the security block failed (or had not exactly one result)
    'tgt_seen': 'Int',             # number of targets of the security block examined so far
    'sec_last_failed': 'Bool',     # the last context call returned a reason code or raised
    'sec_unknown': 'Bool',         # the security block looked at names a context this node has no handler for
    'sec_failed': 'Bool',          # some security block of the bundle did not verify (unknown context, code, exception)
}

CONSTS = {'R_MISSING_SEC': 12, 'R_UNKNOWN_SEC': 13, 'R_UNEXPECT_SEC': 14, 'R_FAILED_SEC': 15, 'R_CONFLICT_SEC': 16}


def _ctx_verify(which):
    def model(eng, args, kwargs):
        '''context.verify_bib / verify_bcb(ctr, block): assumed contract (see module docstring)'''
        ctr = args[1]
        # accepting a block restructures the container's block index: not while the caller iterates its live list
        views = [recv for (recv, _via) in getattr(eng, 'live_views', [])]
        goal = z3.And(*[ctr.z != recv.z for recv in views]) if views else z3.BoolVal(True)
        eng.ob('call_pre', 'context.%s@%s.not_while_iterating_block_type' % (which, eng.frame.name), goal, props=('C12',))
        eng.apply_modifies(['pkt:Bundle.blocks', 'Ctr._block_num', 'Ctr._last_block_num', 'pkt:CanonicalBlock.btsd',
                            'pkt:CanonicalBlock.crc_value', 'pkt:CanonicalBlock.payload', 'pkt:CanonicalBlock._pcls',
                            'ghost.crc_ok'])
        g = eng.st.ghost
        if eng.branch(z3.Bool(fresh_name('ctx_raises'))):
            g['sec_last_failed'] = mk_bool(True)
            eng.py_raise('Exception')
        t = TOpt(TInt)
        r = fresh(t, 'ctx_result')
        # (assumed) a reported failure is one of the security reason codes of RFC 9172 (12..16)
        eng.assume(z3.Or(t.is_none(r.z), z3.And(t.val(r.z) >= 12, t.val(r.z) <= 16)))
        g['sec_last_failed'] = mk_bool(z3.Not(t.is_none(r.z)))
        return r
    return model


EXTERNS = {'secctx.verify_bib': _ctx_verify('verify_bib'), 'secctx.verify_bcb': _ctx_verify('verify_bcb')}

ASSUMPTIONS = [
    'BP/C12: a security context\'s verify_bib / verify_bcb returns None when every target of the block verified (was '
    'decrypted) and otherwise one of the security reason codes 12..16, or raises; it does not touch the recorded '
    'actions or the status reason of the bundle container; whether it returns None exactly for unaltered content is '
    'the cryptographic claim of C03 / C16 (not applicable to this technique)',
]

SPECFUNCS = {
    'sec_reason': (['c'], 'c.status_reason is not None and unwrap(c.status_reason) >= 12 and unwrap(c.status_reason) <= 16'),
}


def _step(kind, cls, meth):
    return dict(
        self=SEC, params={'ctr': CTR}, returns='Opt[Bool]', props=['C12'],
        requires=[('starts_clean', 'not ghost.sec_failed', [])],
        modifies=['Ctr.actions', 'Ctr.status_reason', 'pkt:Bundle.blocks', 'Ctr._block_num', 'Ctr._last_block_num',
                  'pkt:CanonicalBlock.btsd', 'pkt:CanonicalBlock.crc_value', 'pkt:CanonicalBlock.payload',
                  'pkt:CanonicalBlock._pcls', 'ghost.crc_ok', 'ghost.sec_last_failed', 'ghost.sec_failed', 'ghost.sec_unknown',
                  # (what the COSE context's own contract lists: the write-set analysis of the loop finds it by name)
                  'ghost.tgt_last_failed', 'ghost.tgt_any_failed', 'ghost.tgt_seen', 'SecOp.ctr', 'SecOp.sec_blk', 'SecOp.tgt_blk',
                  'pkt:BlockIntegrityBlock.targets', 'pkt:BlockIntegrityBlock.results',
                  'pkt:BlockConfidentialityBlock.targets', 'pkt:BlockConfidentialityBlock.results'],
        locals={'failure': 'List[Int]', 'result': 'Opt[Int]'},
        loops={0: dict(
            invariant=[
                ('failures_are_reason_codes', 'forall(k, 0, length(failure), failure[k] >= 12 and failure[k] <= 16)'),
                ('failure_recorded_iff_some_block_failed', '(length(failure) > 0) == ghost.sec_failed'),
                ('nothing_decided_yet', 'ctr.actions == old(ctr.actions) and eqv(ctr.status_reason, old(ctr.status_reason))'),
            ],
            ghost_begin=['ghost.sec_last_failed = False\n'
                         'ghost.sec_unknown = not contains(self._contexts, %s.context_id)\n' % kind],
            ghost_end=['ghost.sec_failed = ghost.sec_failed or ghost.sec_last_failed or ghost.sec_unknown\n'],
        )},
        ensures=[
            # only bundles about to be delivered here are examined
            ('only_for_local_delivery', 'implies(not old(contains(ctr.actions, "deliver")), result is None and '
                                        'ctr.actions == old(ctr.actions) and eqv(ctr.status_reason, old(ctr.status_reason)))', ['C12']),
            # fail closed: any block with an unknown context, a reported failure or an exception part-way withdraws the
            # delivery, marks the bundle deleted with a security reason and interrupts the receive chain
            ('fail_closed', 'implies(ghost.sec_failed, not contains(ctr.actions, "deliver") and contains(ctr.actions, "delete") and '
                            'sec_reason(ctr) and result is not None and unwrap(result))', ['C12', 'C19']),
            ('untouched_when_all_verify', 'implies(old(contains(ctr.actions, "deliver")) and not ghost.sec_failed, '
                                          'result is None and ctr.actions == old(ctr.actions) and '
                                          'eqv(ctr.status_reason, old(ctr.status_reason)))', ['C12']),
        ],
    )


FUNCS = {
    'bp.app.bpsec:Bpsec._verify_bib': _step('bib', 'BlockIntegrityBlock', 'verify_bib'),
    'bp.app.bpsec:Bpsec._verify_bcb': _step('bcb', 'BlockConfidentialityBlock', 'verify_bcb'),
}

MODULES = ['bp.app.bpsec', 'bp.encoding.bpsec']

from bp_types import NOTES as _BASE_NOTES  # noqa: E402

_CTX_WRITES = ['pkt:Bundle.blocks', 'Ctr._block_num', 'Ctr._last_block_num', 'pkt:CanonicalBlock.btsd',
               'pkt:CanonicalBlock.crc_value', 'pkt:CanonicalBlock.payload', 'pkt:CanonicalBlock._pcls', 'ghost.crc_ok',
               'ghost.sec_last_failed']
NOTES = {'callback_writes': dict(_BASE_NOTES['callback_writes'], verify_bib=_CTX_WRITES, verify_bcb=_CTX_WRITES)}


# ---- the COSE context: a security block verifies only if every one of its targets does ----------------------------
def _ctx_block(kind, target_fn):
    return dict(
        self='Ref[CoseCtx]', params={'ctr': CTR, kind: 'Pkt[CanonicalBlock, %s]' % (
            'BlockIntegrityBlock' if kind == 'bib' else 'BlockConfidentialityBlock')},
        returns='Opt[Int]', props=['C12'],
        requires=[('starts_clean', 'not ghost.tgt_any_failed and ghost.tgt_seen == 0', []),
                  ('configured', 'self._config is not None', [])],
        # a target block that is not in the bundle (KeyError), fewer result lists than targets (IndexError) or anything
        # raised while reading the block's parameters escapes: the calling step counts that as a failure too
        raises={'KeyError': dict(), 'IndexError': dict(), 'Exception': dict()},
        modifies=['SecOp.ctr', 'SecOp.sec_blk', 'SecOp.tgt_blk', 'pkt:BlockIntegrityBlock.targets',
                  'pkt:BlockIntegrityBlock.results', 'pkt:BlockConfidentialityBlock.targets',
                  'pkt:BlockConfidentialityBlock.results', 'pkt:Bundle.blocks', 'Ctr._block_num', 'pkt:CanonicalBlock.btsd',
                  'ghost.crc_ok', 'ghost.tgt_last_failed', 'ghost.tgt_any_failed', 'ghost.tgt_seen'],
        locals={'failure': 'Opt[Int]', 'accept_ix': 'List[Int]', 'one_failure': 'Opt[Int]'},
        loops={
            0: dict(
                invariant=[
                    ('verdict_so_far', '(failure is None) == (not ghost.tgt_any_failed) and '
                                       'implies(failure is not None, unwrap(failure) >= 12 and unwrap(failure) <= 16)'),
                    ('targets_examined_in_turn', 'ghost.tgt_seen == _i'),
                ],
                ghost_begin=['ghost.tgt_last_failed = False\n'],
                ghost_end=['ghost.tgt_any_failed = ghost.tgt_any_failed or ghost.tgt_last_failed or '
                           'not (length(result_list) == 1)\n'
                           'ghost.tgt_seen = ghost.tgt_seen + 1\n'],
            ),
            1: dict(invariant=[('verdict_kept', '(failure is None) == (not ghost.tgt_any_failed) and '
                                                'implies(failure is not None, unwrap(failure) >= 12 and unwrap(failure) <= 16)')]),
        },
        ensures=[
            # the block verifies only if every one of its targets verified (and had exactly one result)
            ('fails_iff_some_target_fails', 'implies(result is None, not ghost.tgt_any_failed)', ['C12']),
            ('every_target_examined', 'implies(result is None, ghost.tgt_seen == length(old(%s.targets)))' % kind, ['C12']),
            ('reports_a_reason_code', 'implies(result is not None, unwrap(result) >= 12 and unwrap(result) <= 16)', ['C12']),
        ],
    )


FUNCS.update({
    'bp.app.bpsec:CoseContext.verify_bib': _ctx_block('bib', 'verify_bib_target'),
    'bp.app.bpsec:CoseContext.verify_bcb': _ctx_block('bcb', 'verify_bcb_target'),
    'bp.app.bpsec:CoseSecOpCtx.check_secblk': dict(
        self='Ref[SecOp]', returns='Bool', props=['C12'], trusted=True, modifies=[],
        trusted_reason='duplicate-id checks over decoded parameter / result lists (set / list comprehensions over '
                       'scapy_cbor packet lists); may raise (TypeError on a block without parameters)',
        raises={'Exception': dict()}),
    'bp.app.bpsec:CoseSecOpCtx.extract_secblk': dict(
        self='Ref[SecOp]', props=['C12'], trusted=True, modifies=[],
        trusted_reason='decodes the additional header parameters with cbor2 / pycose; raises on malformed content',
        raises={'Exception': dict()}),
    'bp.app.bpsec:CoseContext.verify_bib_target': dict(
        self='Ref[CoseCtx]', params={'secop': 'Ref[SecOp]', 'result': 'Pkt[TypeValuePair]'}, returns='Opt[Int]', props=['C12'],
        trusted=True, trusted_reason='the cryptographic check of one target (pycose / cryptography): C03; catches its '
                                     'own exceptions and returns None (verified) or FAILED_SEC',
        modifies=['ghost.tgt_last_failed'],
        ensures=[('verdict', 'ghost.tgt_last_failed == (result is not None) and '
                             'implies(result is not None, unwrap(result) >= 12 and unwrap(result) <= 16)')]),
    'bp.app.bpsec:CoseContext.verify_bcb_target': dict(
        self='Ref[CoseCtx]', params={'secop': 'Ref[SecOp]', 'result': 'Pkt[TypeValuePair]'}, returns='Opt[Int]', props=['C12'],
        trusted=True, trusted_reason='the decryption of one target (pycose / cryptography): C16; catches its own '
                                     'exceptions, may replace the target block data on acceptance, returns None or FAILED_SEC',
        modifies=['ghost.tgt_last_failed', 'pkt:CanonicalBlock.btsd', 'ghost.crc_ok'],
        ensures=[('verdict', 'ghost.tgt_last_failed == (result is not None) and '
                             'implies(result is not None, unwrap(result) >= 12 and unwrap(result) <= 16)')]),
})
