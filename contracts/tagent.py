"""Contracts of the TCPCL agent's shutdown path (C09 T6: shutdown asks every session that can be terminated to
terminate, closes connections that have no session yet, leaves terminating ones alone, and raises nothing).

The handlers' own operations are proved in the `tcpcl` suite (ContactHandler.terminate raises RuntimeError exactly when
the handler is not in a session or is already terminating, and otherwise sends one SESS_TERM and sets _in_term;
ContactHandler.close closes).  Here they appear by those contracts restricted to the flags the agent looks at, with
an object-local frame: ASSUMED (the tcpcl suite's frames are per field, not per object).
"""
from pyvc import extmodels

MODULES = ['tcpcl.agent', 'tcpcl.session', 'tcpcl.config']

SCHEMAS = {
    'TConfig': {'pyclass': ('tcpcl.config', 'Config'), 'fields': {'stop_on_close': 'Bool'}},
    # is_open: ghost view of "the connection has not been closed" (Messenger state in the tcpcl suite)
    'Hdl': {'pyclass': ('tcpcl.session', 'ContactHandler'),
            'fields': {'_in_sess': 'Bool', '_in_term': 'Bool', 'is_open': 'Bool', 'object_path': 'Str'}},
    'TAgent': {'pyclass': ('tcpcl.agent', 'Agent'),
               'fields': {'_config': 'Ref[TConfig]', '_in_shutdown': 'Bool', '_handlers': 'List[Ref[Hdl]]',
                          '_path_to_handler': 'Dict[Str, Ref[Hdl]]', '_on_stop': 'Opt[Func]', '_obj_id': 'Int'}},
}


def sb_path_of(eng, k):
    '''the object path of contact number k: '/org/ietf/dtn/tcpcl/Contact{0}'.format(k) -- the engine models such a
    template filled with an integer as an injective function named after the template text (pyvc/builtins.py)'''
    import hashlib
    import z3
    from pyvc.sym import V
    from pyvc.types import TStr
    tag = hashlib.sha1('/org/ietf/dtn/tcpcl/Contact{0}'.encode()).hexdigest()[:10]
    f = z3.Function('fmt_' + tag, z3.IntSort(), TStr.sort())
    return V(TStr, f(k.z))


SPECBUILTINS = {'path_of': sb_path_of}

SPECFUNCS = {
    # every registered object path was made from a contact number below the counter (C18: what makes the next path new)
    'registry_below': (['s'], 's._obj_id >= 0 and forall(p, "Str", implies(contains(s._path_to_handler, p), '
                              'exists(k, 0, s._obj_id, p == path_of(k))))'),
}

GHOST = {
    't_stopped': 'Bool',    # Agent.stop was called
    't6_ok': 'Bool',        # every handler looked at so far was treated as it should be
    't6_sess': 'Bool', 't6_term': 'Bool', 't6_open': 'Bool',     # state of the handler at the beginning of its iteration
}

EXTERNS = {}
EXTERNS.update(extmodels.MISC)

ASSUMPTIONS = [
    'TCPCL/C09 T6: ContactHandler.terminate() / close() change the state of that handler only (object-local frame); '
    'their functional contracts are the ones proved in the tcpcl suite, restricted to _in_sess / _in_term / closed; the '
    'on-close callback (Agent._unbind_handler) and Agent.stop are not part of the unit (the handler list is iterated '
    'through a copy)',
]


def cb_callback(eng, fv, args):
    from pyvc.sym import NONE
    return NONE


CALLBACKS = {'callback': cb_callback}

FUNCS = {
    'tcpcl.session:ContactHandler.terminate': dict(
        self='Ref[Hdl]', params={'reason_code': 'Opt[Int]'}, props=['C09'], trusted=True, modifies_self_only=True,
        trusted_reason='proved in suite tcpcl (contracts/tcpcl_handler3.py): raises RuntimeError iff not in session or '
                       'already terminating, otherwise one SESS_TERM is sent and _in_term is set; object-local frame assumed',
        raises={'RuntimeError': dict(when='not self._in_sess or self._in_term', iff=True, modifies=[])},
        modifies=['Hdl._in_term'],
        ensures=[('terminating', 'self._in_term')]),
    'tcpcl.session:ContactHandler.close': dict(
        self='Ref[Hdl]', props=['C09'], trusted=True, modifies_self_only=True,
        trusted_reason='proved in suite tcpcl (contracts/tcpcl_recv.py): the connection is closed; object-local frame assumed',
        modifies=['Hdl.is_open'],
        ensures=[('closed', 'not self.is_open')]),
    'tcpcl.agent:Agent.stop': dict(
        self='Ref[TAgent]', props=['C09'], trusted=True,
        trusted_reason='closes listening sockets and every handler, leaves the bus: socket and D-Bus library calls',
        modifies=['Hdl.is_open', 'ghost.t_stopped'],
        ensures=[('stopped', 'ghost.t_stopped')]),
    # C18, agent level: the object path a new contact is exported (and announced) under is not the path of any
    # registered contact.  Rests on the registry invariant `registry_below`, which this function and _unbind_handler are
    # proved to keep; that Agent._bind_handler keeps it (it registers exactly the path obtained here) is ASSUMED --
    # _bind_handler constructs the handler from keyword dictionaries and is not under contract (bounded part:
    # harness/c18_agent.py).
    'tcpcl.agent:Agent._get_obj_path': dict(
        self='Ref[TAgent]', returns='Str', props=['C18'],
        requires=[('registry', 'registry_below(self)', [])],
        modifies=['TAgent._obj_id'],
        ensures=[
            ('path_is_new', 'not contains(self._path_to_handler, result)', ['C18']),
            ('numbered_by_the_counter', 'result == path_of(old(self._obj_id)) and self._obj_id == old(self._obj_id) + 1', ['C18']),
            ('registry_kept', 'registry_below(self)', ['C18']),
        ]),
    'tcpcl.agent:Agent._unbind_handler': dict(
        self='Ref[TAgent]', params={'hdl': 'Ref[Hdl]'}, props=['C09', 'C18'],
        # (called from the handler's on-close callback: the handler is still registered)
        requires=[('registered', 'contains(self._handlers, hdl) and contains(self._path_to_handler, hdl.object_path)', [])],
        modifies=['TAgent._handlers', 'TAgent._path_to_handler', 'Hdl.is_open', 'ghost.t_stopped'],
        ensures=[
            ('unregistered', 'not contains(self._path_to_handler, hdl.object_path) and '
                             'length(self._handlers) == length(old(self._handlers)) - 1', ['C09']),
            # the agent stops once the last connection has closed during shutdown (or when configured to)
            ('stops_after_the_last_one', 'implies(length(self._handlers) == 0 and (self._in_shutdown or self._config.stop_on_close), '
                                         'ghost.t_stopped)', ['C09']),
            ('keeps_running_otherwise', 'implies(not (length(self._handlers) == 0 and (self._in_shutdown or self._config.stop_on_close)), '
                                        'ghost.t_stopped == old(ghost.t_stopped))', ['C09']),
            # C18: the registry invariant behind "a new object path is new" survives the removal of a contact, and the
            # other contacts stay registered under their paths
            ('registry_kept', 'implies(old(registry_below(self)), registry_below(self))', ['C18']),
            ('others_stay_registered', 'forall(p, "Str", implies(not (p == hdl.object_path), '
                                       'contains(self._path_to_handler, p) == old(contains(self._path_to_handler, p))))', ['C18']),
        ]),
    'tcpcl.agent:Agent.shutdown': dict(
        self='Ref[TAgent]', returns='Bool', props=['C09'],
        requires=[('starts_clean', 'ghost.t6_ok', [])],
        modifies=['TAgent._in_shutdown', 'Hdl._in_term', 'Hdl.is_open', 'ghost.t6_ok', 'ghost.t6_sess', 'ghost.t6_term',
                  'ghost.t6_open', 'ghost.t_stopped'],
        loops={0: dict(
            invariant=[('treated_right_so_far', 'ghost.t6_ok')],
            ghost_begin=['ghost.t6_sess = hdl._in_sess\nghost.t6_term = hdl._in_term\nghost.t6_open = hdl.is_open\n'],
            # in session and not terminating: asked to terminate; no session: closed; terminating: left alone
            # (a terminating session may have transfers in progress that still have to complete: it is not closed)
            ghost_end=['ghost.t6_ok = ghost.t6_ok and ite(ghost.t6_term, hdl.is_open == ghost.t6_open and hdl._in_term, '
                       'ite(ghost.t6_sess, hdl._in_term and hdl.is_open == ghost.t6_open, not hdl.is_open))\n'],
        )},
        ensures=[
            # raises nothing (no exception is declared) and every handler was treated as its state requires
            ('every_session_asked_to_terminate', 'ghost.t6_ok', ['C09']),
            ('marked_shutting_down', 'self._in_shutdown', ['C09']),
            ('stops_at_once_without_connections', 'implies(length(old(self._handlers)) == 0, ghost.t_stopped and result)', ['C09']),
        ],
    ),
}
