"""Contracts of the BP agent receive path (C10) and of the bundle-container bookkeeping it uses."""

AG = 'Ref[Agent]'
CTR = 'Ref[Ctr]'

SPECFUNCS = {
    'T': (['s'], 's._config.rx_route_table'),
    'dest': (['c'], 'unwrap(c.bundle.primary).destination'),
    # the first receive route whose pattern matches the destination is at index i
    'first_match_at': (['s', 'c', 'i'], 'matches(T(s)[i].eid_pattern, dest(c)) and '
                                        'forall(j, 0, i, not matches(T(s)[j].eid_pattern, dest(c)))'),
    'no_match': (['s', 'c'], 'forall(j, 0, length(T(s)), not matches(T(s)[j].eid_pattern, dest(c)))'),
    'is_own': (['s', 'c'], 'eqv(unwrap(c.bundle.primary).source, s._config.node_id)'),
}

FUNCS = {
    # ------------------------------------------------------------------------------------------------
    'bp.util:BundleContainer.record_action': dict(
        self=CTR, params={'action': 'Str', 'reason': 'Opt[Int]'}, props=['C10', 'C19'],
        modifies=['Ctr.actions', 'Ctr.status_reason'],
        ensures=[
            ('action_recorded', 'dom(self.actions) == set_add(old(dom(self.actions)), action)'),
            ('other_times_kept', 'forall(k, "Str", implies(not (k == action), '
                                 'lookup(self.actions, k) == lookup(old(self.actions), k)))'),
            ('reason_superseded_only_if_given', 'eqv(self.status_reason, ite(reason is None, old(self.status_reason), reason))'),
        ],
    ),
    'bp.util:BundleContainer.bundle_ident': dict(
        self=CTR, returns='List[IdentElem]', props=['C10'],
        requires=[('has_primary', 'self.bundle.primary is not None and unwrap(self.bundle.primary).bundle_flags >= 0', [])],
        locals={'ident': 'List[IdentElem]'},
        modifies=[],
        ensures=[
            # the identity is (source, creation time, sequence number) and, for fragments only, offset, total length and payload length
            ('identity_components', 'result == ident_of(self)', ['C10', 'C06']),
        ],
    ),
    # ------------------------------------------------------------------------------------------------
    'bp.agent:Agent._do_rx_step': dict(
        # (C19 as well: a bundle a local endpoint has claimed is not also given a forwarding decision -- it would be
        # finished, and reported on, twice)
        self=AG, params={'ctr': CTR}, props=['C10', 'C19'],
        requires=[('has_destination', 'ctr.bundle.primary is not None and unwrap(ctr.bundle.primary).destination is not None', [])],
        modifies=['Ctr.actions', 'Ctr.status_reason'],
        loops={0: dict(invariant=[
            ('none_before_matches', 'found is None and forall(j, 0, _i, not matches(T(self)[j].eid_pattern, dest(ctr)))'),
            ('nothing_recorded_yet', 'ctr.actions == old(ctr.actions) and eqv(ctr.status_reason, old(ctr.status_reason))'),
        ])},
        locals={'found': 'Opt[Ref[RxRouteItem]]'},
        ensures=[
            ('already_delivered_untouched', 'implies(old(contains(ctr.actions, "deliver")), ctr.actions == old(ctr.actions))', ['C10', 'C19']),
            ('first_match_decides',
             'implies(not old(contains(ctr.actions, "deliver")), forall(i, 0, length(T(self)), '
             'implies(first_match_at(self, ctr, i), dom(ctr.actions) == set_add(old(dom(ctr.actions)), T(self)[i].action))))',
             ['C10']),
            ('no_route_no_action', 'implies(no_match(self, ctr), ctr.actions == old(ctr.actions))', ['C10']),
            ('reason_untouched', 'eqv(ctr.status_reason, old(ctr.status_reason))', []),
        ],
    ),
    'bp.app.admin:Administrative._rx_route': dict(
        self='Ref[AdminApp]', params={'ctr': CTR}, props=['C10'],
        requires=[('has_primary', 'ctr.bundle.primary is not None', [])],
        modifies=['Ctr.actions', 'Ctr.status_reason'],
        ensures=[
            ('own_admin_endpoint_delivered',
             'implies(eqv(unwrap(ctr.bundle.primary).destination, self._config.node_id), contains(ctr.actions, "deliver"))', ['C10']),
            ('others_untouched',
             'implies(not eqv(unwrap(ctr.bundle.primary).destination, self._config.node_id), ctr.actions == old(ctr.actions))', ['C10']),
        ],
    ),
    # ------------------------------------------------------------------------------------------------
    'bp.agent:Agent.recv_bundle': dict(
        self=AG, params={'ctr': CTR}, props=['C10', 'C08'], handler=True,
        requires=[('has_primary', 'ctr.bundle.primary is not None and unwrap(ctr.bundle.primary).bundle_flags >= 0', []),
                  # (wire assumption) the CRC type of every decoded block is one of the three defined values; an unknown
                  # value makes check_crc raise KeyError out of this handler: the bundle is not processed either
                  ('crc_types_known', 'crc_types_known(ctr.bundle)', []),
                  # (as decoded from the wire, or as the reassembly step builds it) the payload block carries its data
                  ('payload_data_present', 'implies(contains(ctr._block_num, 1), lookup(ctr._block_num, 1).btsd is not None)', [])],
        modifies=['pkt:PrimaryBlock.crc_value', 'pkt:CanonicalBlock.crc_value', 'pkt:CanonicalBlock.btsd',
                  'pkt:PrimaryBlock._rx_items', 'pkt:CanonicalBlock._rx_items',
                  'Agent._seen_bundle_ident', 'Agent._fwd_queue', 'Ctr.actions', 'Ctr.status_reason', 'Ctr.route', 'Ctr.sender',
                  'ghost.finished', 'ghost.sched_send', 'ghost.consumed', 'ghost.step_failed'],
        loops={0: dict(invariant=[
            ('agent_state_kept', 'self._seen_bundle_ident == set_add(old(self._seen_bundle_ident), ident_of(ctr)) and '
                                 'self._fwd_queue == old(self._fwd_queue) and ghost.finished == old(ghost.finished)'),
        ])},
        ensures=[
            # C08: a bundle with a failing block CRC is dropped before anything is recorded or done
            ('corrupt_dropped_first',
             'implies(not old(crc_all_valid(ctr.bundle)), self._seen_bundle_ident == old(self._seen_bundle_ident) and '
             'self._fwd_queue == old(self._fwd_queue) and ctr.actions == old(ctr.actions) and '
             'ghost.finished == old(ghost.finished))', ['C08', 'C10']),
            # C10: own bundles and repeats of a seen identity cause nothing
            ('own_source_ignored',
             'implies(is_own(self, ctr), self._seen_bundle_ident == old(self._seen_bundle_ident) and '
             'self._fwd_queue == old(self._fwd_queue) and ctr.actions == old(ctr.actions) and '
             'ghost.finished == old(ghost.finished))', ['C10']),
            ('repeat_ignored',
             'implies(old(contains(self._seen_bundle_ident, ident_of(ctr))), '
             'self._seen_bundle_ident == old(self._seen_bundle_ident) and self._fwd_queue == old(self._fwd_queue) and '
             'ctr.actions == old(ctr.actions) and ghost.finished == old(ghost.finished))', ['C10', 'C06']),
            ('identity_recorded',
             'implies(old(crc_all_valid(ctr.bundle)) and not is_own(self, ctr), contains(self._seen_bundle_ident, ident_of(ctr)))',
             ['C10']),
            ('seen_only_grows', 'forall(x, "List[IdentElem]", implies(old(contains(self._seen_bundle_ident, x)), '
                                'contains(self._seen_bundle_ident, x)))', ['C10']),
            # forwarding is queued at most once per call and only for a bundle whose processing recorded "forward"
            ('forward_only_if_decided',
             'self._fwd_queue == old(self._fwd_queue) or (self._fwd_queue == old(self._fwd_queue) + [ctr] and '
             'contains(ctr.actions, "forward") and not contains(ctr.actions, "delete"))', ['C10']),
            # C19: a bundle that is deleted here is not also reported as forwarded (the routing decision is withdrawn)
            ('deleted_not_claimed_forwarded',
             'implies(not (ghost.finished == old(ghost.finished)) and contains(ctr.actions, "delete"), '
             'not contains(ctr.actions, "forward"))', ['C19']),
            ('finished_at_most_once', 'ghost.finished == old(ghost.finished) or ghost.finished == old(ghost.finished) + [ctr]',
             ['C10', 'C19']),
        ],
    ),
}
