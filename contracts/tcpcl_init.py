"""Construction of a TCPCL connection handler (C04 / C14): Messenger.__init__ leaves the object outside any session --
the state every class invariant of contracts/tcpcl_handler.py starts from: no contact, no session, not terminating,
no negotiated keepalive / idle time, no timer armed, empty buffers.  (A keepalive time taken over from the
configuration at this point would arm the keepalive timer with the contact header and put a KEEPALIVE on the wire
before SESS_INIT.)"""
from tcpcl_messenger import CH, TIMER_MODS

FUNCS = {
    'tcpcl.session:Messenger.__init__': dict(
        self=CH, params={'config': 'Ref[Config]', 'sock': 'Any[sock]', 'fromaddr': 'Opt[AddrPair]', 'toaddr': 'Opt[AddrPair]'},
        props=['C04', 'C14'],
        requires=[('one_side_given', 'fromaddr is not None or toaddr is not None', [])],
        modifies=['*'],
        ensures=[
            ('starts_outside_any_session',
             'not self._in_conn and not self._in_sess and not self._in_term and self._conhead_peer is None and '
             'self._conhead_this is None and self._sessinit_peer is None and self._sessinit_this is None', ['C04']),
            ('nothing_negotiated_yet', 'self._keepalive_time == 0 and self._idle_time == 0 and '
                                       'self._keepalive_timer_id is None and self._idle_timer_id is None', ['C14', 'C04']),
            ('buffers_empty', 'length(self._Messenger__rx_buf) == 0 and length(self._Messenger__tx_buf) == 0 and '
                              'length(self._Connection__tx_buf) == 0', ['C04']),
            ('configured', 'self._config == config and self._is_open', []),
        ],
    ),
}
