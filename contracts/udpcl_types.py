"""Sidecar contracts for the UDPCL agent (/repo/src/udpcl/agent.py): record schemas and the models of what the
agent calls outside the verified functions (cbor2, portion, io, str of an address).

Only *names* are taken from the code: field names bind to the real attributes, constants (extension keys)
are read from the source ASTs.
"""
import z3

from pyvc import extmodels
from pyvc.sym import V, Py, is_py, NONE, Unsupported, mk_int, mk_bool, fresh, fresh_name
from pyvc.types import TInt, TBytes, TStr, TOpt, TAny, TList

from bp_apps import portion_closedopen, portion_empty, sb_interval, sb_set_union, sb_hsize
from tcpcl_models2 import comprehension

MODULES = ['udpcl.agent', 'udpcl.config']

TYPES = {
    # key of the table of partially received transfers: (peer address text, peer port, transfer id)
    'XferKey': ('tuple', [('address', 'Str'), ('port', 'Opt[Int]'), ('xid', 'Int')]),
}

CONSTS = {'K_TRANSFER': 2, 'K_SENDER_LISTEN': 3, 'K_SENDER_NODEID': 4, 'K_STARTTLS': 5, 'K_PEER_PROBE': 6,
          'K_PEER_CONFIRM': 7, 'K_ECN_COUNTS': 8}

SCHEMAS = {
    'BytesIO': {'fields': {'content': 'Bytes', 'pos': 'Int'}},
    'UConfig': {'pyclass': ('udpcl.config', 'Config'),
                'fields': {'mtu_default': 'Opt[Int]', 'require_tls': 'Bool', 'node_id': 'Str'}},
    'UBundleItem': {'pyclass': ('udpcl.agent', 'BundleItem'),
                    'fields': {'address': 'Str', 'port': 'Opt[Int]', 'file': 'Ref[BytesIO]', 'local_if': 'Opt[Int]',
                               'local_address': 'Opt[Str]', 'local_port': 'Opt[Int]', 'transfer_id': 'Opt[Int]',
                               'total_length': 'Opt[Int]', 'ip_tos': 'Int'}},
    # portion.Interval values are modelled as sets of integers (closedopen(a, b) = {i | a <= i < b})
    'Transfer': {'pyclass': ('udpcl.agent', 'Transfer'),
                 'fields': {'address': 'Str', 'port': 'Opt[Int]', 'xfer_id': 'Int', 'total_length': 'Int',
                            'total_valid': 'Opt[Set[Int]]', 'valid': 'Opt[Set[Int]]', 'data': 'Opt[Bytes]'}},
    'Conversation': {'pyclass': ('udpcl.agent', 'Conversation'),
                     'fields': {'family': 'Opt[Int]', 'peer_address': 'Opt[Any[ipaddr]]', 'peer_port': 'Opt[Int]',
                                'local_if': 'Opt[Int]', 'local_address': 'Opt[Any[ipaddr]]', 'local_port': 'Opt[Int]'}},
    'UAgent': {'pyclass': ('udpcl.agent', 'Agent'),
               'fields': {'_config': 'Ref[UConfig]', '_tx_id': 'Int', '_tx_queue': 'List[Ref[UBundleItem]]',
                          '_rx_fragments': 'Dict[XferKey, Ref[Transfer]]', '_rx_id': 'Int',
                          '_rx_queue': 'Dict[Int, Ref[UBundleItem]]'}},
}

GHOST = {
    # one entry per datagram produced by Agent._send_transfer for a segmented transfer, in order
    'seg_off': 'List[Int]',      # offset of its data in the bundle
    'seg_len': 'List[Int]',      # number of bundle octets it carries
    'seg_size': 'List[Int]',     # its encoded size (RFC 8949 sizes of the extension map it is)
    'seg_data_ok': 'Bool',       # each carries exactly the bundle octets of its range, with this transfer's id and total
    # D-Bus signals emitted (names only; argument conformance is an obligation at each emission)
    'u_rx_finished': 'List[Str]',     # transfer ids (as text) announced by recv_bundle_finished, in order
    # Agent._recv_datagram: per message of the datagram, was it handled on its own as its first octet says
    'u_dg_ok': 'Bool', 'u_p0': 'Int', 'u_n0': 'Int', 'u_m0': 'Int',
    'u_maps': 'Int',      # number of extension maps handed to Agent._recv_ext_map
}


# ---- CBOR (cbor2.dumps / cbor2.load): RFC 8949 sizes of the items the agent builds --------------------------------
def _hs(z):
    return z3.If(z < 24, 1, z3.If(z < 256, 2, z3.If(z < 65536, 3, z3.If(z < 4294967296, 5, 9))))


def cbor_size(eng, v):
    '''encoded size of a value built from unsigned integers, byte strings, lists and maps with integer keys'''
    if is_py(v, 'pydict'):
        items = v.py[1]
        n = _hs(z3.IntVal(len(items)))
        for k, x in items:
            n = n + cbor_size(eng, k) + cbor_size(eng, x)
        return n
    if is_py(v, 'pylist') or is_py(v, 'pytuple'):
        items = list(v.py[1])
        n = _hs(z3.IntVal(len(items)))
        for x in items:
            n = n + cbor_size(eng, x)
        return n
    if isinstance(v.t, TOpt):
        # (the code only encodes values it has already used as numbers / octets)
        eng.need(z3.Not(v.t.is_none(v.z)), 'TypeError')
        v = V(v.t.inner, v.t.val(v.z))
    if v.t is TInt:
        # a negative integer -1-n has the head of n
        return z3.If(v.z >= 0, _hs(v.z), _hs(-1 - v.z))
    if v.t is TBytes:
        return _hs(z3.Length(v.z)) + z3.Length(v.z)
    raise Unsupported('cbor2.dumps of %s' % (v.py[0] if v.py else v.t))


def cbor_dumps(eng, args, kwargs):
    r = fresh(TBytes, 'cbor')
    eng.assume(z3.Length(r.z) == cbor_size(eng, args[0]))
    return r


def str_of_any(eng, v):
    '''str(address object): a function of the object'''
    f = z3.Function('str_of_' + v.t.name, v.t.sort(), TStr.sort())
    return V(TStr, f(v.z))


def copy_copy(eng, args, kwargs):
    '''copy.copy of a number or of a list value: the same value (values are immutable in the model)'''
    v = args[0]
    if v.t is TInt or isinstance(v.t, TList) or (isinstance(v.t, TOpt) and v.t.inner is TInt):
        return V(v.t, v.z)
    raise Unsupported('copy.copy of %s' % v.t)


def bytesio_new(eng, args, kwargs):
    from pyvc.types import TRef
    ref = V(TRef('BytesIO'), eng.new_ref())
    data = args[0] if args else V(TBytes, z3.Empty(TBytes.sort()))
    if isinstance(data.t, TOpt):
        eng.need(z3.Not(data.t.is_none(data.z)), 'TypeError')
        data = V(data.t.inner, data.t.val(data.z))
    # assumption (listed in the evidence): no in-memory buffer holds 2^62 octets or more
    eng.assume(z3.Length(data.z) < 2 ** 62)
    eng.write_heap(ref, ('BytesIO', 'content'), TBytes, data)
    eng.write_heap(ref, ('BytesIO', 'pos'), TInt, mk_int(0))
    return ref


EXTERNS = {}
EXTERNS.update(extmodels.MISC)
EXTERNS.update(extmodels.GLIB)
EXTERNS.update({'copy.copy': copy_copy, 'io.BytesIO': bytesio_new})
EXTERNS.update({'cbor2.dumps': cbor_dumps, 'portion.closedopen': portion_closedopen, 'portion.empty': portion_empty})


def _item_len():
    return z3.Function('cbor_item_len', TBytes.sort(), z3.IntSort(), z3.IntSort())


def cbor_load(eng, args, kwargs):
    '''cbor2.load(reader): consumes exactly one CBOR item from the current position (item_len(content, position)
    octets, at least one, within the buffer) and returns it as an opaque value; a truncated or malformed item raises'''
    from pyvc.types import TRef
    buf = args[0]
    content = eng.read_heap(buf, ('BytesIO', 'content'), TBytes)
    pos = eng.read_heap(buf, ('BytesIO', 'pos'), TInt)
    ln = _item_len()(content.z, pos.z)
    if eng.branch(z3.Not(z3.And(ln > 0, pos.z + ln <= z3.Length(content.z)))):
        eng.py_raise('cbor2.CBORDecodeError')
    eng.write_heap(buf, ('BytesIO', 'pos'), TInt, mk_int(pos.z + ln))
    return fresh(TAny('cbor'), 'item')


def buffered_reader(eng, args, kwargs):
    '''io.BufferedReader(raw): reads through to the in-memory source (same content, same position)'''
    return args[0]


def sb_item_len(eng, data, pos):
    return mk_int(_item_len()(data.z, pos.z))


EXTERNS.update({'cbor2.load': cbor_load, 'io.BufferedReader': buffered_reader})

SPECBUILTINS = {'hsize': sb_hsize, 'interval': sb_interval, 'set_union': sb_set_union,
                'empty_interval': lambda eng: portion_empty(eng, [], {}),
                'addr_text': lambda eng, a: str_of_any(eng, V(a.t.inner, a.t.val(a.z)) if isinstance(a.t, TOpt) else a)}
def cb_signal(eng, name, args):
    '''D-Bus signals emitted by the agent: recv_bundle_finished is recorded (its transfer id text) in ghost.u_rx_finished'''
    from pyvc import lists as L
    g = eng.st.ghost.get('u_rx_finished')
    if name == 'recv_bundle_finished' and g is not None and args and args[0].t is TStr:
        eng.st.ghost['u_rx_finished'] = V(g.t, L.l_append(g.t, g.z, args[0].z))


SPECBUILTINS['item_len'] = sb_item_len

CALLBACKS = {'str_of_any': str_of_any, 'signal': cb_signal}
NOTES = {'comprehension_hook': comprehension, 'extern_writes': {'load': [], 'peek': [], 'now': []}}

ASSUMPTIONS = [
    'UDPCL/C13: cbor2.dumps of the extension maps the agent builds (a map with small integer keys whose values are '
    'unsigned integers, byte strings and lists of those) has the RFC 8949 size: head 1/2/3/5/9 octets by magnitude, a '
    'byte string its head plus its length, a list or map its count head plus its members (cross-checked on the real '
    'encoder by the bounded part); cbor2.load returns what cbor2.dumps was given',
    'UDPCL: portion.Interval values are sets of integer positions: closedopen(a, b) = {i | a <= i < b}, | is union, '
    '== is set equality',
    'UDPCL: a generator function is modelled as run to completion at its first next(): Agent._send_transfer reads '
    'the configuration and the item before it yields for the first time',
]
