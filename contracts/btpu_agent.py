"""Contracts of the BTP-U agent (C20: segmentation within the MTU, reassembly by segment index)."""

AG = 'Ref[BAgent]'
ITEM = 'Ref[BBundleItem]'

SPECFUNCS = {
    'content': (['it'], 'it.file.content'),
    'tid': (['it'], 'unwrap(it.transfer_id)'),
    'nseg': ([], 'length(ghost.bs_off) - length(old(ghost.bs_off))'),
    'base': ([], 'length(old(ghost.bs_off))'),
}

LISTS_ALIGNED = ('length(ghost.bs_len) == length(ghost.bs_off) and length(ghost.bs_size) == length(ghost.bs_off) and '
                 'nseg() >= 0')

FUNCS = {
    'btpu.agent:Agent._send_transfer': dict(
        self=AG, params={'item': ITEM}, returns='List[Bytes]', generator='Bytes', props=['C20'],
        requires=[
            ('item_ready', 'item.transfer_id is not None and tid(item) >= 0 and item.file.pos == 0', []),
            ('lists_aligned', 'length(ghost.bs_len) == length(ghost.bs_off) and length(ghost.bs_size) == '
                              'length(ghost.bs_off) and ghost.bs_ok', []),
        ],
        # an MTU that leaves no room for a single octet of data per segment is refused before anything is produced
        raises={'OverflowError': dict(when='length(content(item)) >= 4294967296', modifies=['BytesIO.pos']),
                'ValueError': dict(when='self._config.mtu_default is not None and '
                                        'length(content(item)) >= unwrap(self._config.mtu_default) - 4',
                                   modifies=['BytesIO.pos'],
                                   ensures=[('nothing_produced', 'nseg() == 0', ['C20'])])},
        modifies=['BytesIO.pos', 'ghost.bs_off', 'ghost.bs_len', 'ghost.bs_size', 'ghost.bs_ok'],
        locals={'mtu': 'Opt[Int]', 'seg_offset': 'Int', 'seg_idx': 'Int', 'remain_size': 'Int', 'data': 'Bytes',
                'total_len': 'Int'},
        loops={
            0: dict(
                invariant=[
                    ('lists_aligned', LISTS_ALIGNED + ' and length(_yielded) == nseg() and seg_idx == nseg()'),
                    ('sizes_known', 'mtu is not None and eqv(mtu, self._config.mtu_default) and data == content(item) and '
                                    'total_len == length(data) and remain_size <= unwrap(mtu) - pkt_len(msg_head) - 8 and '
                                    'remain_size > 0 and seg_offset >= 0 and item.transfer_id is not None and tid(item) >= 0'),
                    ('segments_fit', 'forall(k, base(), length(ghost.bs_off), ghost.bs_size[k] <= unwrap(mtu)) and '
                                     'forall(k, 0, length(_yielded), length(_yielded[k]) == ghost.bs_size[base() + k])'),
                    ('tiling', 'forall(k, base(), length(ghost.bs_off), ghost.bs_len[k] > 0 and ghost.bs_off[k] >= 0 and '
                               'ghost.bs_off[k] + ghost.bs_len[k] <= length(data)) and ghost.bs_ok and '
                               'forall(k, base(), length(ghost.bs_off) - 1, ghost.bs_off[k + 1] == ghost.bs_off[k] + ghost.bs_len[k]) and '
                               'implies(nseg() > 0, ghost.bs_off[base()] == 0)'),
                    ('covered_so_far', 'ite(nseg() == 0, seg_offset == 0, '
                                       'seg_offset >= last(ghost.bs_off) + last(ghost.bs_len) and '
                                       'ite(seg_offset < length(data), seg_offset == last(ghost.bs_off) + last(ghost.bs_len), '
                                       'last(ghost.bs_off) + last(ghost.bs_len) == length(data)))'),
                ],
                ghost_end=[
                    'ghost.bs_off = ghost.bs_off + [seg_offset - remain_size]\n'
                    'ghost.bs_len = ghost.bs_len + [length(seg_data)]\n'
                    'ghost.bs_size = ghost.bs_size + [length(last(_yielded))]\n'
                    # the message: TransferEnd exactly for the last range, this transfer's number, indices in order from 0,
                    # the octets of its range
                    'ghost.bs_ok = ghost.bs_ok and seg_data == slice(data, seg_offset - remain_size, seg_offset) and '
                    'is_layer(msg, "TransferEnd") == (seg_offset >= total_len) and '
                    'is_layer(msg, "TransferSeg") == (seg_offset < total_len) and '
                    'msg.xfer_num == tid(item) and msg.seg_idx == seg_idx - 1 and msg.load == seg_data\n'
                ],
            ),
        },
        ensures=[
            ('whole_or_segmented', '(length(result) == 1 and nseg() == 0) or '
                                   '(length(result) == nseg() and nseg() > 0 and self._config.mtu_default is not None)', ['C20']),
            # one message carrying the bundle: within the MTU when one is configured
            ('whole_only_within_mtu', 'implies(nseg() == 0, self._config.mtu_default is None or '
                                      'length(result[0]) <= unwrap(self._config.mtu_default))', ['C20']),
            ('one_message_per_segment', LISTS_ALIGNED, ['C20']),
            ('every_segment_within_mtu',
             'implies(nseg() > 0, forall(k, 0, length(result), length(result[k]) <= unwrap(self._config.mtu_default)))', ['C20']),
            ('segments_carry_every_octet_once_in_index_order',
             'implies(nseg() > 0, ghost.bs_off[base()] == 0 and '
             'forall(k, base(), length(ghost.bs_off) - 1, ghost.bs_off[k + 1] == ghost.bs_off[k] + ghost.bs_len[k]) and '
             'forall(k, base(), length(ghost.bs_off), ghost.bs_len[k] > 0) and '
             'last(ghost.bs_off) + last(ghost.bs_len) == length(old(content(item))) and ghost.bs_ok)', ['C20']),
        ],
    ),
}

SPECFUNCS.update({
    'bkey': (['conv', 'm'], 'BKey(chan_key(conv), seg_num(m))'),
    # the table entry of the transfer a segment message belongs to, before this message
    'had': (['s', 'conv', 'm'], 'contains(s._rx_progres, bkey(conv, m))'),
    'ent': (['s', 'conv', 'm'], 'lookup(s._rx_progres, bkey(conv, m))'),
    # is the segment new for its transfer, which last index is known once it is taken, which indices are there then
    'seg_new': (['s', 'conv', 'm'], 'not had(s, conv, m) or not contains(ent(s, conv, m).got_idx, seg_index(m))'),
    'end_known': (['s', 'conv', 'm'], 'msg_kind(m) == 4 or (had(s, conv, m) and ent(s, conv, m).got_end is not None)'),
    'end_after': (['s', 'conv', 'm'], 'ite(msg_kind(m) == 4, seg_index(m), unwrap(ent(s, conv, m).got_end))'),
    'idx_after': (['s', 'conv', 'm'], 'set_add(ite(had(s, conv, m), ent(s, conv, m).got_idx, empty_ints()), seg_index(m))'),
    # this message completes something that is to be queued: a bundle PDU, or the last missing segment of a transfer
    'completes': (['s', 'conv', 'm'],
                  'msg_kind(m) == 1 or ((msg_kind(m) == 3 or msg_kind(m) == 4) and seg_new(s, conv, m) and '
                  'end_known(s, conv, m) and idx_after(s, conv, m) == closed_ints(0, end_after(s, conv, m)))'),
    'entry_ok': (['r'], 'forall(i, "Int", contains(r.data, i) == contains(r.got_idx, i)) and '
                        'forall(i, "Int", implies(contains(r.got_idx, i), i >= 0)) and '
                        'implies(r.got_end is not None, contains(r.got_idx, unwrap(r.got_end)))'),
    # no transfer record is filed under two keys
    'no_sharing': (['s'], 'forall(k1, "BKey", forall(k2, "BKey", implies(contains(s._rx_progres, k1) and '
                          'contains(s._rx_progres, k2) and lookup(s._rx_progres, k1) == lookup(s._rx_progres, k2), k1 == k2)))'),
    'table_ok': (['s'], 'forall(k, "BKey", implies(contains(s._rx_progres, k), entry_ok(lookup(s._rx_progres, k)))) and '
                        'no_sharing(s)'),
})

FUNCS.update({
    'btpu.agent:Agent._add_rx_item': dict(
        self=AG, params={'item': ITEM}, props=['C20'],
        requires=[('length_known', 'item.total_length is not None and unwrap(item.total_length) == length(content(item)) and '
                                   'length(content(item)) < 4611686018427387904 and self._rx_id >= 0', [])],
        modifies=['BAgent._rx_id', 'BAgent._rx_queue', 'BBundleItem.transfer_id', 'ghost.b_rx_finished'],
        ensures=[
            ('fresh_id', 'item.transfer_id is not None and tid(item) == old(self._rx_id) and self._rx_id == old(self._rx_id) + 1', ['C20']),
            ('other_items_keep_their_id', 'forall(x, "Ref[BBundleItem]", implies(not (x == item), '
                                          'eqv(x.transfer_id, old(x.transfer_id))))', []),
            ('queued_under_its_id', 'contains(self._rx_queue, tid(item)) and lookup(self._rx_queue, tid(item)) == item and '
                                    'forall(k, "Int", implies(not (k == tid(item)), '
                                    'contains(self._rx_queue, k) == old(contains(self._rx_queue, k)) and '
                                    'lookup(self._rx_queue, k) == old(lookup(self._rx_queue, k))))', ['C20']),
            ('announced_once', 'ghost.b_rx_finished == old(ghost.b_rx_finished) + [str(tid(item))]', ['C20']),
        ],
    ),
    'btpu.agent:Agent._recv_msg': dict(
        self=AG, params={'_sock': 'Opt[Any[sock]]', 'data': 'Bytes', 'conv': 'Ref[Channel]'}, props=['C20'], handler=True,
        solver_route='cli',
        requires=[
            ('ids_nonneg', 'self._rx_id >= 0 and ghost.b_ok', []),
        ],
        raises={'AttributeError': dict()},     # a transfer segment without data (scapy gives it no raw layer)
        modifies=['BAgent._rx_progres', 'BAgent._rx_id', 'BAgent._rx_queue', 'RxTransfer.got_end', 'RxTransfer.got_idx',
                  'RxTransfer.data', 'RxTransfer.timeout_id', 'BBundleItem.address', 'BBundleItem.file', 'BBundleItem.local_if',
                  'BBundleItem.local_address', 'BBundleItem.transfer_id', 'BBundleItem.total_length',
                  'BytesIO.content', 'BytesIO.pos', 'ghost.b_rx_finished', 'ghost.b_ok', 'ghost.b_n0', 'ghost.b_expect',
                  ],
        locals={'fulldata': 'Bytes', 'full_idx': 'Set[Int]'},
        loops={
            0: dict(
                invariant=[('per_message', 'ghost.b_ok and self._rx_id >= 0'),
                           ('table', 'table_ok(self)')],
                ghost_begin=['ghost.b_n0 = length(ghost.b_rx_finished)\n'
                             'ghost.b_expect = completes(self, conv, msg)\n'],
                ghost_end=['ghost.b_ok = ghost.b_ok and length(ghost.b_rx_finished) == ghost.b_n0 + ite(ghost.b_expect, 1, 0)\n'],
            ),
            1: dict(invariant=[
                ('rest_is_there', 'forall(j, _i1, length(_seq1), contains(xfer.data, _seq1[j]))'),
                ('others_ok', 'forall(k, "BKey", implies(contains(self._rx_progres, k) and '
                              'not (lookup(self._rx_progres, k) == xfer), entry_ok(lookup(self._rx_progres, k)))) and '
                              'no_sharing(self)'),
            ]),
        },
        ensures=[
            # for every message of the datagram, in order: exactly one bundle is queued when the message is a bundle PDU
            # or brings the last missing index of its transfer (all indices 0..end there, end known), none otherwise
            ('one_bundle_per_completed_message', 'ghost.b_ok', ['C20']),
        ],
    ),
})

INVARIANTS = {'BAgent': [('rx_table_ok', 'table_ok(self)', ['C20'])]}

INLINE = ['btpu.agent:Agent._rx_progress_cancel', 'btpu.agent:EthernetChannel.key']
