"""Class invariant of tcpcl.session.ContactHandler and contracts of its
handlers (transfer queues, receive path, termination, D-Bus view)."""
from tcpcl_messenger import CH, SEND_MODS, TIMER_MODS, AUTO_MODS, SEND_READY_MODS
from tcpcl_send import ONE_EVENT, BUFFERED, TIMERS, NONSEG, kept
from tcpcl_recv import MCLOSE_MODS

TXQ = ['ContactHandler._tx_next_id', 'ContactHandler._tx_pend_start', 'ContactHandler._tx_pend_ack',
       'ContactHandler._tx_map', 'ContactHandler._tx_tmp', 'ContactHandler._tx_length']
RXQ = ['ContactHandler._rx_tmp', 'ContactHandler._rx_bundles', 'ContactHandler._rx_map']
TRIGGER_MODS = ['ContactHandler._process_queue_pend'] + TIMER_MODS
ITEM = ['BundleItem.transfer_id', 'BundleItem.total_length', 'BundleItem.ack_length', 'BundleItem.file']
FILES = ['BytesIO.content', 'BytesIO.pos']

SPECFUNCS = {
    # a transfer in progress on the wire: started, not finished, file cursor at the sent length
    'tx_ok': (['s'], 's._tx_tmp.file is not None and s._tx_tmp.total_length is not None and '
                     's._tx_tmp.total_length == length(s._tx_tmp.file.content) and '
                     's._tx_tmp.file.pos == s._tx_length and '
                     '0 < s._tx_length and s._tx_length < s._tx_tmp.total_length and s._in_sess'),
    'rx_ok': (['s'], 's._rx_tmp.file is not None and s._rx_tmp.transfer_id is not None and '
                     's._rx_tmp.file.pos == length(s._rx_tmp.file.content)'),
    # a TX item known to the queue bookkeeping (I3)
    'tx_item_ok': (['s', 'it'], 'it.transfer_id is not None and it.file is not None and '
                                '0 < unwrap(it.transfer_id) and unwrap(it.transfer_id) < s._tx_next_id and '
                                'contains(s._tx_map, unwrap(it.transfer_id)) and '
                                'lookup(s._tx_map, unwrap(it.transfer_id)) == it and '
                                'not contains(ghost.tx_finished, unwrap(it.transfer_id)) and '
                                '0 <= it.ack_length and it.ack_length <= U64 and '
                                'implies(it.total_length is not None, 0 <= unwrap(it.total_length) and '
                                '        unwrap(it.total_length) < 4611686018427387904)'),
    'rx_item_ok': (['s', 'it'], 'it.transfer_id is not None and it.file is not None'),
    'in_pend': (['s', 'it'], 'contains(s._tx_pend_start, it)'),
    # --- the idle predicate, restated from the property text (C18/C09) -----------------------------
    # (nothing in flight at either buffer layer: also no octets that were taken from the message buffer but are not yet
    # written to the socket -- C09 T3; the code looked only at the message buffers until fix d1b9697)
    'idle_spec': (['s'], 'length(s._Messenger__rx_buf) == 0 and length(s._Messenger__tx_buf) == 0 and '
                         'length(s._Connection__tx_buf) == 0 and '
                         's._rx_tmp is None and s._tx_tmp is None and length(s._tx_pend_start) == 0 and '
                         'is_empty_set(s._tx_pend_ack)'),
    'drained': (['s'], 'idle_spec(s) and length(s._Connection__tx_buf) == 0'),
    # effect of _process_queue_trigger on the glib source tables (quantifier free)
    'trigger_effect': (['s'],
                       's._process_queue_pend is not None and '
                       'implies(old(s._process_queue_pend) is not None, eqv(s._process_queue_pend, old(s._process_queue_pend))) and '
                       'implies(old(s._process_queue_pend) is None, not contains(old(ghost.src_armed), unwrap(s._process_queue_pend))) and '
                       'ghost.src_armed == ite(old(s._process_queue_pend) is None, '
                       '   set_add(old(ghost.src_armed), unwrap(s._process_queue_pend)), old(ghost.src_armed)) and '
                       'ghost.src_delay == ite(old(s._process_queue_pend) is None, '
                       '   dict_put(old(ghost.src_delay), unwrap(s._process_queue_pend), 0), old(ghost.src_delay)) and '
                       'ghost.src_cb == ite(old(s._process_queue_pend) is None, '
                       '   dict_put(old(ghost.src_cb), unwrap(s._process_queue_pend), cbtag("_process_queue")), old(ghost.src_cb))'),
}

TX_INV = [
    # --- I3 TX bookkeeping --------------------------------------------------------------
    ('tx_next_pos', 'self._tx_next_id >= 1'),
    ('tx_pend_items', 'forall(i, 0, length(self._tx_pend_start), tx_item_ok(self, self._tx_pend_start[i]) and '
                      'not contains(ghost.started, unwrap(self._tx_pend_start[i].transfer_id)))', ['C04', 'C18']),
    ('tx_pend_distinct', 'no_dup(self._tx_pend_start)', ['C18']),
    ('tx_started_bound', 'forall(x, "Int", implies(contains(ghost.started, x), x < self._tx_next_id))', ['C04']),
    ('tx_finished_bound', 'forall(x, "Int", implies(contains(ghost.tx_finished, x), x < self._tx_next_id))', ['C18']),
    ('tx_tmp_item', 'implies(self._tx_tmp is not None, tx_item_ok(self, unwrap(self._tx_tmp)) and '
                    'contains(ghost.started, unwrap(self._tx_tmp.transfer_id)) and '
                    'not in_pend(self, unwrap(self._tx_tmp)) and '
                    'not contains(self._tx_pend_ack, unwrap(self._tx_tmp)))', ['C18']),
    ('tx_ack_items', 'forall(r, "Ref[BundleItem]", implies(contains(self._tx_pend_ack, r), '
                     'tx_item_ok(self, r) and not in_pend(self, r)))', ['C18']),
    ('tx_map_ids', 'forall(k, "Int", implies(contains(self._tx_map, k), eqv(lookup(self._tx_map, k).transfer_id, k) and '
                   '0 < k and k < self._tx_next_id and 0 <= lookup(self._tx_map, k).ack_length and '
                   'lookup(self._tx_map, k).ack_length <= U64))', ['C18']),
    # the D-Bus send queue (keys of _tx_map) is exactly: queued and not yet finished
    ('tx_queue_view', 'dom(self._tx_map) == ghost.tx_live', ['C18']),
    ('tx_live_unfinished', 'forall(x, "Int", implies(contains(ghost.tx_live, x), not contains(ghost.tx_finished, x)))',
     ['C18']),
]

INVARIANTS = {'ContactHandler': [
    # --- I1 phase flags -----------------------------------------------------
    ('term_in_sess', 'implies(self._in_term, self._in_sess)'),
    ('sess_state', 'implies(self._in_sess, self._in_conn and self._sessinit_peer is not None and '
                   'self._sessinit_this is not None)'),
    ('conn_state', 'implies(self._in_conn, self._conhead_peer is not None and self._conhead_this is not None)'),
    ('pre_conn_state', 'implies(not self._in_conn, (self._conhead_this is None) == self._as_passive and '
                       'self._conhead_peer is None and self._sessinit_this is None and self._sessinit_peer is None)'),
    ('active_init_sent', 'implies(self._in_conn and not self._as_passive and not closed(self), '
                         'self._sessinit_this is not None)'),
    ('passive_init_order', 'implies(self._as_passive and self._sessinit_peer is None, self._sessinit_this is None)'),
    ('peer_init_after_ours', 'implies(self._sessinit_peer is not None, self._in_sess)'),
    ('tls_after_contact', 'implies(not self._in_conn, not secured(self))'),
    ('tls_implies_open', 'implies(secured(self), not closed(self))'),
    ('flags_nonneg', 'implies(self._conhead_this is not None, self._conhead_this.flags >= 0) and '
                     'implies(self._conhead_peer is not None, self._conhead_peer.flags >= 0)'),
    # --- I6 coupling with the output automaton ---------------------------------
    ('auto_ch', 'ghost.ch_sent == (self._conhead_this is not None)', ['C04']),
    ('auto_si', 'ghost.si_sent == (self._sessinit_this is not None)', ['C04']),
    ('auto_term', 'ghost.term_sent == self._in_term', ['C04', 'C09']),
    # --- I5 segment size within the peer's MRU -----------------------------------
    ('seg_size', 'implies(self._in_sess and (not self._in_term or self._tx_tmp is not None), '
                 '0 < self._send_segment_size and self._send_segment_size <= self._sessinit_peer.segment_mru)',
     ['C04', 'C14']),
    # --- I8 timers -----------------------------------------------------------------
    ('timers_ok', 'timers_ok(self)'),
    ('timers_in_sess', 'implies(self._keepalive_timer_id is not None or self._idle_timer_id is not None, '
                       'self._in_sess and not closed(self))'),
    ('timer_values', 'self._keepalive_time >= 0 and '
                     'implies(not self._in_sess, self._keepalive_time == 0 and self._idle_time == 0)'),
    # --- configuration sanity (assumed at construction, never written) ----------------
    ('config_sane', 'self._config.segment_size_tx_initial > 0 and self._send_segment_size_min > 0 and '
                    'self._do_send_ack_inter and self._do_send_ack_final and self._config.keepalive_time >= 0 and '
                    'not contains(self._config.enable_test, "private_extensions")'),
    # --- I2 transfer in progress -------------------------------------------------------
    ('tx_none', '(self._tx_tmp is None) == (self._tx_length is None)'),
    ('tx_progress', 'implies(self._tx_tmp is not None, tx_ok(self))', ['C01']),
    ('tx_auto', 'eqv(ghost.cur_xid, ite(self._tx_tmp is None, None, some(unwrap(self._tx_tmp.transfer_id))))',
     ['C04']),
    # --- I4 receive in progress ----------------------------------------------------------
    ('rx_progress', 'implies(self._rx_tmp is not None, rx_ok(self) and self._in_sess)', ['C01']),
    ('rx_auto', 'implies(ghost.peer_legal and self._rx_tmp is not None, '
                'ghost.rx_have_last and ghost.rx_last_id == unwrap(self._rx_tmp.transfer_id) and '
                'ghost.rx_cum == length(self._rx_tmp.file.content))', ['C04']),
    # --- the D-Bus receive queue: exactly the ids announced as finished and not yet popped -----------
    ('rx_queue_view', 'implies(ghost.peer_legal, dom(self._rx_map) == ghost.rx_live)', ['C18']),
    ('rx_map_in_bundles', 'forall(k, "Int", implies(contains(self._rx_map, k), '
                          'contains(self._rx_bundles, lookup(self._rx_map, k)) and '
                          'lookup(self._rx_map, k).file is not None))', ['C18']),
    ('rx_tmp_not_done', 'implies(self._rx_tmp is not None, not contains(self._rx_bundles, unwrap(self._rx_tmp)))'),
    ('rx_map_ids', 'forall(k, "Int", implies(contains(self._rx_map, k), eqv(lookup(self._rx_map, k).transfer_id, k)))',
     ['C18']),
    ('rx_done_distinct', 'no_dup(self._rx_bundles)', ['C18']),
    ('rx_done_pend_files_distinct', 'forall(i, 0, length(self._rx_bundles), forall(j, 0, length(self._tx_pend_start), '
                                    'not eqv(self._rx_bundles[i].file, self._tx_pend_start[j].file)))', ['C01']),
    ('rx_done_tx_files_distinct', 'implies(self._tx_tmp is not None, forall(i, 0, length(self._rx_bundles), '
                                  'not eqv(self._rx_bundles[i].file, self._tx_tmp.file)))', ['C01']),
    # --- numbers kept for the D-Bus parameter view are wire values (unsigned) -------------------------
    ('sess_params_nonneg', 'forall(k, "Str", implies(contains(self._sess_parameters, k) and '
                           'union_is(lookup(self._sess_parameters, k), "int"), '
                           'union_get(lookup(self._sess_parameters, k), "int") >= 0))', ['C18']),
    ('sessinit_wire_values', 'implies(self._sessinit_peer is not None, self._sessinit_peer.keepalive >= 0 and '
                             'self._sessinit_peer.segment_mru >= 0 and self._sessinit_peer.transfer_mru >= 0) and '
                             'implies(self._sessinit_this is not None, self._sessinit_this.keepalive >= 0)'),
    # --- buffers of different transfers are different objects (never merged) ------------------
    ('rx_tx_files_distinct', 'implies(self._rx_tmp is not None and self._tx_tmp is not None, '
                             'not eqv(self._rx_tmp.file, self._tx_tmp.file))', ['C01']),
    ('rx_pend_files_distinct', 'implies(self._rx_tmp is not None, forall(i, 0, length(self._tx_pend_start), '
                               'not eqv(self._tx_pend_start[i].file, self._rx_tmp.file)))', ['C01']),
    ('rx_done_files_distinct', 'implies(self._rx_tmp is not None, forall(i, 0, length(self._rx_bundles), '
                               'not eqv(self._rx_bundles[i].file, self._rx_tmp.file)))', ['C01']),
] + TX_INV}

FUNCS = {
    'tcpcl.session:ContactHandler._process_queue_trigger': dict(
        props=['C01'],
        modifies=TRIGGER_MODS,
        ensures=[('trigger_effect', 'trigger_effect(self)')],
    ),
    'tcpcl.session:ContactHandler.send_buffer_decreased': dict(
        params={'buf_use': 'Int'},
        modifies=TRIGGER_MODS,
        ensures=[('maybe_triggered', 'ite(buf_use < 5 * self._send_segment_size, trigger_effect(self), '
                                     'eqv(self._process_queue_pend, old(self._process_queue_pend)) and '
                                     'ghost.src_armed == old(ghost.src_armed) and ghost.src_delay == old(ghost.src_delay) '
                                     'and ghost.src_cb == old(ghost.src_cb))', [])],
    ),
    'tcpcl.session:ContactHandler._tx_teardown': dict(
        modifies=['ContactHandler._tx_tmp', 'ContactHandler._tx_length'] + TRIGGER_MODS,
        ensures=[('cleared', 'self._tx_tmp is None and self._tx_length is None', []),
                 ('trigger_effect', 'trigger_effect(self)', [])],
    ),
    'tcpcl.session:ContactHandler._rx_setup': dict(
        params={'transfer_id': 'Int', 'total_length': 'None'}, props=['C01'],
        modifies=['ContactHandler._rx_tmp', 'ghost.signals'] + ITEM + FILES,
        ensures=[('fresh_item', 'self._rx_tmp is not None and not existed(unwrap(self._rx_tmp)) and '
                                'self._rx_tmp.file is not None and not existed(unwrap(self._rx_tmp.file))'),
                 ('item_id', 'eqv(self._rx_tmp.transfer_id, transfer_id)'),
                 ('empty_buffer', 'length(self._rx_tmp.file.content) == 0 and self._rx_tmp.file.pos == 0'),
                 ('announced', 'ghost.signals == old(ghost.signals) + [last(ghost.signals)] and '
                               'last(ghost.signals).name == SIG_RECV_STARTED and '
                               'last(ghost.signals).bid == str_of(transfer_id)', ['C18']),
                 ('others_kept', 'forall(f, "Ref[BytesIO]", implies(existed(f), f.content == old(f.content) and '
                                 'f.pos == old(f.pos))) and '
                                 'forall(it, "Ref[BundleItem]", implies(existed(it), '
                                 'eqv(it.transfer_id, old(it.transfer_id)) and eqv(it.file, old(it.file)) and '
                                 'eqv(it.total_length, old(it.total_length)) and it.ack_length == old(it.ack_length)))', [])],
    ),
    'tcpcl.session:ContactHandler.is_sess_idle': dict(
        returns='Bool', props=['C18', 'C09'],
        ensures=[('idle_iff_nothing_pending', 'result == idle_spec(self)')],
    ),
}
