#!/bin/sh
# Rewrite baseline/<suite>.json (what is provable on the unchanged tree) after a repository fix or a contract change.
# Run on the clean tree only.  The hash seed is pinned as in ./check; an incomplete run (a unit that crashed or timed
# out) writes nothing.
cd "$(dirname "$0")" || exit 3
PYTHONHASHSEED=0; export PYTHONHASHSEED
rc=0
for s in ${*:-tcpcl bp udpcl btpu tagent}; do
  .venv/bin/python -m pyvc.checker "$s" --write-baseline 2>&1 | tail -1 || rc=1
done
exit $rc
