#!/bin/sh
# dev helper: ./r.sh keys...
C=""
for f in tcpcl_types tcpcl_models tcpcl_models2 tcpcl_messenger tcpcl_send tcpcl_recv tcpcl_handler tcpcl_handler2 tcpcl_handler3 tcpcl_msg; do
  [ -f contracts/$f.py ] && C="$C,contracts/$f.py"
done
C=${C#,}
.venv/bin/python -m pyvc.run1 $C "$@" 2>&1 | cut -c1-${W:-330} | grep -v "^  discharged\|covers"
