#!/bin/sh
# dev helper: ./r.sh <contract module stem for key list | -> keys...
C=contracts/tcpcl_types.py,contracts/tcpcl_models.py,contracts/tcpcl_models2.py,contracts/tcpcl_messenger.py,contracts/tcpcl_send.py
[ -f contracts/tcpcl_recv.py ] && C=$C,contracts/tcpcl_recv.py
[ -f contracts/tcpcl_handler.py ] && C=$C,contracts/tcpcl_handler.py
.venv/bin/python -m pyvc.run1 $C "$@" 2>&1 | cut -c1-${W:-330} | grep -v "^  discharged\|covers"
