#!/bin/sh
# run every claimed check on the current /repo tree (quick tier) and validate the evidence files
cd "$(dirname "$0")" || exit 3
rc=0
for p in $(.venv/bin/python -c "import json;print(' '.join(c['property_id'] for c in json.load(open('MANIFEST.json'))['checks']))"); do
  ./check $p --tier ${1:-quick} > /tmp/run_all_$p.txt 2>&1; r=$?
  tail -1 /tmp/run_all_$p.txt | cut -c1-160
  [ $r -ne 0 ] && { echo "  exit $r"; rc=1; }
done
.venv/bin/python - <<'PY'
import json, jsonschema, glob
s = json.load(open('/root/.vp/EVIDENCE.schema.json'))
for f in sorted(glob.glob('evidence/*.json')):
    d = json.load(open(f)); jsonschema.validate(d, s)
    c = d['coverage']
    assert c['obligations'] == c['discharged'] and c['obligations'] > 0, f
print('evidence files valid')
PY
exit $rc
